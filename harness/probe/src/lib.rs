//! Compile-time probe for C18: the engine, context, value, key, kwargs and error types stay usable across threads.
//! If this crate stops compiling while tera itself compiles, a type lost `Send` or `Sync`.
fn assert_send_sync<T: Send + Sync>() {}
fn assert_static<T: 'static>() {}

pub fn probe() {
    assert_send_sync::<tera::Tera>();
    assert_send_sync::<tera::Context>();
    assert_send_sync::<tera::Value>();
    assert_send_sync::<tera::value::Key<'static>>();
    assert_send_sync::<tera::Kwargs>();
    assert_send_sync::<tera::Error>();
    assert_send_sync::<tera::ErrorKind>();
    assert_send_sync::<tera::value::Map>();
    assert_send_sync::<tera::Number>();
    assert_static::<tera::Tera>();
    // a shared instance can be rendered from scoped threads
    let t = tera::Tera::new();
    let c = tera::Context::new();
    std::thread::scope(|s| {
        s.spawn(|| {
            let _ = t.render("x", &c);
        });
    });
    // and moved into a spawned thread together with a context and a value
    let v = tera::Value::from(1);
    std::thread::spawn(move || {
        let _ = (t, c, v);
    });
}
