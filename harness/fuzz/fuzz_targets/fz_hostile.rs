#![no_main]
use libfuzzer_sys::fuzz_target;

fuzz_target!(|data: &[u8]| {
    tvh::fuzz::fuzz_one("fz_hostile", data);
});
