//! proptest strategies for expressions (layer B) and the contexts they are evaluated in.
use crate::expr::*;
use crate::gen::*;
use crate::mval::*;
use proptest::prelude::*;
use proptest::strategy::Union;

#[derive(Debug, Clone, Copy, PartialEq, Eq)]
pub enum Ty {
    Any,
    Num,
    Str,
    Bool,
    Arr,
    Map,
}

pub const INT_VARS: &[&str] = &["i", "j", "big"];
pub const FLOAT_VARS: &[&str] = &["f"];
pub const STR_VARS: &[&str] = &["s", "t"];
pub const BOOL_VARS: &[&str] = &["b"];
pub const ARR_VARS: &[&str] = &["xs", "ys", "zs"];
pub const MAP_VARS: &[&str] = &["m", "o"];
pub const NONE_VARS: &[&str] = &["n"];
pub const UNBOUND_VARS: &[&str] = &["u", "w"];
pub const ALL_VARS: &[&str] = &["i", "j", "big", "f", "s", "t", "b", "xs", "ys", "zs", "m", "o", "n", "u", "w"];

fn names(v: &'static [&'static str]) -> BoxedStrategy<E> {
    prop::sample::select(v).prop_map(|n| E::Var(n.to_string())).boxed()
}
fn bx(e: E) -> Box<E> {
    Box::new(e)
}

#[derive(Debug, Clone, Copy)]
pub struct GenOpts {
    pub in_loop: bool,
    /// allow poison operands (`1/0`, `u.x`, `throw()`)
    pub poison: bool,
    pub comprehensions: bool,
}
impl Default for GenOpts {
    fn default() -> Self {
        GenOpts { in_loop: false, poison: true, comprehensions: true }
    }
}

fn leaf(ty: Ty, o: GenOpts) -> BoxedStrategy<E> {
    let int_lit = prop_oneof![6 => (0i64..6).prop_map(E::Int), 1 => prop_oneof![Just(10i64), Just(255), Just(1 << 31), Just(i64::MAX), Just(4294967296)].prop_map(E::Int)];
    let float_lit = prop_oneof![Just(0.5), Just(1.0), Just(2.5), Just(0.0), Just(10.25), Just(3.0)].prop_map(E::Float);
    let str_lit = prop_oneof![4 => (0..STR_POOL.len()).prop_map(|i| E::Str(STR_POOL[i].to_string())), 1 => Just(E::Str("a\"b'c`d\\e\nf".into())), 1 => Just(E::Str("}} {{ %} {#".into()))];
    let poison: BoxedStrategy<E> = if o.poison {
        prop_oneof![
            Just(E::Bin(Bin::Div, bx(E::Int(1)), bx(E::Int(0)))),
            Just(E::Attr(bx(E::Attr(bx(E::Var("u".into())), "x".into(), false)), "y".into(), false)),
            Just(E::Call("throw".into(), vec![("message".into(), E::Str("p".into()))])),
            Just(E::Attr(bx(E::Attr(bx(E::Var("o".into())), "zz".into(), false)), "q".into(), false)),
        ]
        .boxed()
    } else {
        Just(E::Int(7)).boxed()
    };
    let loopf: BoxedStrategy<E> = if o.in_loop { prop::sample::select(vec!["index", "index0", "first", "last", "length"]).prop_map(E::Loop).boxed() } else { Just(E::Int(3)).boxed() };
    match ty {
        Ty::Num => prop_oneof![5 => int_lit, 2 => float_lit, 4 => names(INT_VARS), 2 => names(FLOAT_VARS), 1 => loopf, 1 => names(UNBOUND_VARS), 1 => poison].boxed(),
        Ty::Str => prop_oneof![5 => str_lit, 4 => names(STR_VARS), 1 => names(UNBOUND_VARS), 1 => Just(E::Attr(bx(E::Var("m".into())), "name".into(), false))].boxed(),
        Ty::Bool => prop_oneof![3 => any::<bool>().prop_map(E::Bool), 3 => names(BOOL_VARS), 1 => names(NONE_VARS), 1 => Just(E::None), 1 => names(UNBOUND_VARS), 1 => loopf].boxed(),
        Ty::Arr => prop_oneof![4 => names(ARR_VARS), 1 => Just(E::Array(vec![])), 1 => Just(E::Attr(bx(E::Var("o".into())), "list".into(), false)), 1 => Just(E::Call("range".into(), vec![("end".into(), E::Int(3))]))].boxed(),
        Ty::Map => prop_oneof![4 => names(MAP_VARS), 1 => Just(E::Map(vec![])), 1 => Just(E::Attr(bx(E::Var("o".into())), "a".into(), false))].boxed(),
        Ty::Any => prop_oneof![3 => leaf(Ty::Num, o), 3 => leaf(Ty::Str, o), 2 => leaf(Ty::Bool, o), 2 => leaf(Ty::Arr, o), 1 => leaf(Ty::Map, o), 1 => names(ALL_VARS)].boxed(),
    }
}

fn kw1(n: &str, e: E) -> Vec<(String, E)> {
    vec![(n.to_string(), e)]
}

const TYS: [Ty; 6] = [Ty::Any, Ty::Num, Ty::Str, Ty::Bool, Ty::Arr, Ty::Map];
fn ty_idx(t: Ty) -> usize {
    TYS.iter().position(|x| *x == t).unwrap()
}
/// expression of (nominal) type `ty`, recursion budget `d`. Strategies are built bottom-up, one per
/// (level, type), and shared (a BoxedStrategy clone is a reference count).
pub fn gen(d: u32, ty: Ty, o: GenOpts) -> BoxedStrategy<E> {
    let mut prev: Vec<BoxedStrategy<E>> = TYS.iter().map(|t| leaf(*t, o)).collect();
    for _ in 0..d {
        // `Any` at the new level refers to the other types of the new level, so build it last
        let mut cur: Vec<Option<BoxedStrategy<E>>> = vec![None; 6];
        for t in [Ty::Num, Ty::Str, Ty::Bool, Ty::Arr, Ty::Map, Ty::Any] {
            let built = gen_level(t, o, &prev);
            cur[ty_idx(t)] = Some(built);
        }
        prev = cur.into_iter().map(|x| x.unwrap()).collect();
    }
    prev[ty_idx(ty)].clone()
}
fn gen_level(ty: Ty, o: GenOpts, prev: &[BoxedStrategy<E>]) -> BoxedStrategy<E> {
    let g = |t: Ty| prev[ty_idx(t)].clone();
    let mut alts: Vec<(u32, BoxedStrategy<E>)> = vec![(3, leaf(ty, o))];
    // constructs available at every type
    alts.push((2, (g(Ty::Bool), g(ty), g(ty)).prop_map(|(c, a, b)| E::Ternary(bx(c), bx(a), bx(b))).boxed()));
    alts.push((1, (g(ty), g(ty), any::<bool>()).prop_map(|(a, b, and)| E::Bin(if and { Bin::And } else { Bin::Or }, bx(a), bx(b))).boxed()));
    alts.push((1, (g(Ty::Any), g(ty)).prop_map(|(a, dflt)| E::Filter(bx(a), "default".into(), kw1("value", dflt))).boxed()));
    match ty {
        Ty::Num => {
            let ops = prop::sample::select(vec![Bin::Add, Bin::Sub, Bin::Mul, Bin::Div, Bin::FloorDiv, Bin::Mod, Bin::Pow]);
            alts.push((6, (ops, g(Ty::Num), g(Ty::Num)).prop_map(|(op, a, b)| E::Bin(op, bx(a), bx(b))).boxed()));
            alts.push((2, g(Ty::Num).prop_map(|a| E::Neg(bx(a))).boxed()));
            alts.push((2, prop_oneof![g(Ty::Arr), g(Ty::Str), g(Ty::Map)].prop_map(|a| E::Filter(bx(a), "length".into(), vec![])).boxed()));
            alts.push((1, g(Ty::Num).prop_map(|a| E::Filter(bx(a), "abs".into(), vec![])).boxed()));
            alts.push((1, g(Ty::Str).prop_map(|a| E::Filter(bx(a), "wordcount".into(), vec![])).boxed()));
            alts.push((1, (g(Ty::Any), (2i64..17)).prop_map(|(a, b)| E::Filter(bx(a), "int".into(), kw1("base", E::Int(b)))).boxed()));
            alts.push((1, g(Ty::Any).prop_map(|a| E::Filter(bx(a), "float".into(), vec![])).boxed()));
        }
        Ty::Str => {
            alts.push((5, (g(Ty::Any), g(Ty::Any)).prop_map(|(a, b)| E::Bin(Bin::Concat, bx(a), bx(b))).boxed()));
            let f0 = prop::sample::select(vec!["upper", "lower", "trim", "str", "capitalize", "title", "safe", "escape_html", "reverse", "trim_start", "trim_end"]);
            alts.push((4, (f0, g(Ty::Str)).prop_map(|(f, a)| E::Filter(bx(a), f.to_string(), vec![])).boxed()));
            alts.push((1, g(Ty::Any).prop_map(|a| E::Filter(bx(a), "str".into(), vec![])).boxed()));
            alts.push((1, (g(Ty::Arr), g(Ty::Str)).prop_map(|(a, s)| E::Filter(bx(a), "join".into(), kw1("sep", s))).boxed()));
            alts.push((1, (g(Ty::Str), g(Ty::Str), g(Ty::Str)).prop_map(|(a, f, t)| E::Filter(bx(a), "replace".into(), vec![("from".into(), f), ("to".into(), t)])).boxed()));
            alts.push((1, (g(Ty::Str), g(Ty::Num)).prop_map(|(a, n)| E::Filter(bx(a), "truncate".into(), vec![("length".into(), n), ("end".into(), E::Str("..".into()))])).boxed()));
            alts.push((2, (g(Ty::Str), prop::option::of(g(Ty::Num)), prop::option::of(g(Ty::Num)), prop::option::of(prop_oneof![Just(E::Int(1)), Just(E::Int(2)), Just(E::Neg(bx(E::Int(1)))), g(Ty::Num)])).prop_map(|(a, s, t, st)| E::Slice(bx(a), s.map(bx), t.map(bx), st.map(bx), false)).boxed()));
        }
        Ty::Bool => {
            let cmp = prop::sample::select(vec![Bin::Eq, Bin::Ne, Bin::Lt, Bin::Le, Bin::Gt, Bin::Ge]);
            alts.push((4, (cmp.clone(), g(Ty::Num), g(Ty::Num)).prop_map(|(op, a, b)| E::Bin(op, bx(a), bx(b))).boxed()));
            alts.push((2, (cmp.clone(), g(Ty::Str), g(Ty::Str)).prop_map(|(op, a, b)| E::Bin(op, bx(a), bx(b))).boxed()));
            alts.push((2, (cmp, g(Ty::Any), g(Ty::Any)).prop_map(|(op, a, b)| E::Bin(op, bx(a), bx(b))).boxed()));
            alts.push((3, (any::<bool>(), g(Ty::Any), prop_oneof![3 => g(Ty::Arr), 2 => g(Ty::Str), 2 => g(Ty::Map), 1 => g(Ty::Any)]).prop_map(|(neg, a, b)| E::Bin(if neg { Bin::NotIn } else { Bin::In }, bx(a), bx(b))).boxed()));
            alts.push((3, g(Ty::Any).prop_map(|a| E::Not(bx(a))).boxed()));
            let t0 = prop::sample::select(vec!["defined", "undefined", "none", "string", "number", "integer", "float", "bool", "array", "map", "iterable", "odd", "even"]);
            alts.push((4, (t0, g(Ty::Any), any::<bool>()).prop_map(|(t, a, neg)| E::Test(bx(a), t.to_string(), vec![], neg)).boxed()));
            alts.push((1, (g(Ty::Num), g(Ty::Num), any::<bool>()).prop_map(|(a, dv, neg)| E::Test(bx(a), "divisible_by".into(), kw1("divisor", dv), neg)).boxed()));
            alts.push((1, (prop::sample::select(vec!["starting_with", "ending_with", "containing"]), g(Ty::Str), g(Ty::Str), any::<bool>()).prop_map(|(t, a, p, neg)| E::Test(bx(a), t.to_string(), kw1("pat", p), neg)).boxed()));
            alts.push((1, (g(Ty::Any), g(Ty::Any)).prop_map(|(a, p)| E::Test(bx(a), "containing".into(), kw1("pat", p), false)).boxed()));
        }
        Ty::Arr => {
            let item = prop_oneof![5 => g(Ty::Any).prop_map(Item::One), 1 => g(Ty::Arr).prop_map(Item::Spread)];
            alts.push((5, prop::collection::vec(item, 0..4).prop_map(E::Array).boxed()));
            alts.push((2, (g(Ty::Arr), prop::option::of(g(Ty::Num)), prop::option::of(g(Ty::Num)), prop::option::of(prop_oneof![Just(E::Int(2)), Just(E::Neg(bx(E::Int(1)))), g(Ty::Num)])).prop_map(|(a, s, t, st)| E::Slice(bx(a), s.map(bx), t.map(bx), st.map(bx), false)).boxed()));
            alts.push((1, g(Ty::Arr).prop_map(|a| E::Filter(bx(a), "reverse".into(), vec![])).boxed()));
            alts.push((1, (g(Ty::Str), g(Ty::Str)).prop_map(|(a, p)| E::Filter(bx(a), "split".into(), kw1("pat", p))).boxed()));
            alts.push((1, (prop::option::of(0i64..4), 0i64..7, prop::option::of(prop_oneof![Just(1i64), Just(2), Just(-1), Just(0)])).prop_map(|(s, e, st)| {
                let mut k = vec![("end".to_string(), E::Int(e))];
                if let Some(s) = s {
                    k.push(("start".to_string(), E::Int(s)));
                }
                if let Some(st) = st {
                    k.push(("step_by".to_string(), if st < 0 { E::Neg(bx(E::Int(-st))) } else { E::Int(st) }));
                }
                E::Call("range".into(), k)
            }).boxed()));
            if o.comprehensions {
                let gb = |t: Ty| prev[ty_idx(t)].clone();
                alts.push((3, (gb(Ty::Any), prop::sample::select(vec!["c", "i", "s"]), prop_oneof![3 => g(Ty::Arr), 1 => g(Ty::Str), 1 => g(Ty::Any)], prop::option::of(gb(Ty::Bool)), any::<u8>()).prop_map(|(elem, v, target, cond, usevar)| {
                    // make the element depend on the loop variable most of the time
                    let elem = if usevar % 4 != 0 { E::Bin(Bin::Concat, bx(E::Var(v.to_string())), bx(elem)) } else { elem };
                    E::Comp { elem: bx(elem), key: None, val: v.to_string(), target: bx(target), cond: cond.map(bx) }
                }).boxed()));
                alts.push((1, (g(Ty::Map), any::<bool>()).prop_map(|(target, kv)| E::Comp { elem: bx(if kv { E::Array(vec![Item::One(E::Var("k".into())), Item::One(E::Var("c".into()))]) } else { E::Var("c".into()) }), key: if kv { Some("k".into()) } else { None }, val: "c".into(), target: bx(target), cond: None }).boxed()));
            }
        }
        Ty::Map => {
            let key = prop_oneof![4 => prop::sample::select(vec!["a", "b", "name", "k1"]).prop_map(|s| MKey::Str(s.to_string())), 1 => (0i128..3).prop_map(MKey::Int), 1 => any::<bool>().prop_map(MKey::Bool)];
            let entry = prop_oneof![5 => (key, g(Ty::Any)).prop_map(|(k, v)| Entry::Kv(k, v)), 1 => g(Ty::Map).prop_map(Entry::Spread)];
            alts.push((5, prop::collection::vec(entry, 0..4).prop_map(E::Map).boxed()));
        }
        Ty::Any => {
            for t in [Ty::Num, Ty::Str, Ty::Bool, Ty::Arr, Ty::Map] {
                alts.push((if t == Ty::Map { 1 } else { 3 }, g(t)));
            }
            // attribute / optional chains on identifier chains
            let chain = (prop::sample::select(vec!["o", "m", "u", "n", "xs", "s"]), prop::collection::vec((prop::sample::select(vec!["a", "b", "c", "name", "list", "zz", "k1"]), any::<bool>()), 1..4)).prop_map(|(root, path)| {
                let mut e = E::Var(root.to_string());
                for (p, opt) in path {
                    e = E::Attr(bx(e), p.to_string(), opt);
                }
                e
            });
            alts.push((3, chain.boxed()));
            alts.push((1, (prop::sample::select(vec!["o", "m", "u", "n", "xs", "s"]), g(Ty::Any), any::<bool>()).prop_map(|(root, i, opt)| E::Index(bx(E::Var(root.to_string())), bx(i), opt)).boxed()));
            alts.push((1, (g(Ty::Map), g(Ty::Str)).prop_map(|(m, k)| E::Index(bx(m), bx(k), false)).boxed()));
            alts.push((1, (g(Ty::Map), g(Ty::Str)).prop_map(|(m, k)| E::Filter(bx(m), "get".into(), vec![("key".into(), k), ("default".into(), E::Str("~".into()))])).boxed()));
            alts.push((1, (prop::sample::select(vec!["first", "last"]), g(Ty::Arr)).prop_map(|(f, a)| E::Filter(bx(a), f.to_string(), vec![])).boxed()));
            alts.push((1, (g(Ty::Arr), g(Ty::Num)).prop_map(|(a, n)| E::Filter(bx(a), "nth".into(), kw1("n", n))).boxed()));
        }
    }
    // `?[` exists only on identifier chains
    alts.push((1, (g(Ty::Arr), g(Ty::Num), any::<bool>()).prop_map(|(a, i, opt)| {
        let opt = opt && is_chain(&a);
        E::Index(bx(a), bx(i), opt)
    }).boxed()));
    Union::new_weighted(alts).boxed()
}

/// keeps only expressions the parser's documented limits allow (depth 40, 4 nested subscripts, 2 array dimensions)
pub fn within_limits(e: &E) -> bool {
    let (sub, arr) = bracket_nesting(e);
    sub <= 3 && arr <= 2 && depth(e) <= 18
}

pub fn expr_strategy(d: u32, o: GenOpts) -> BoxedStrategy<E> {
    gen(d, Ty::Any, o).prop_filter("parser limits", within_limits).boxed()
}

// ---------------------------------------------------------------------------------------------
// contexts

fn nominal(name: &str) -> BoxedStrategy<MVal> {
    match name {
        "i" | "j" => prop_oneof![5 => (-3i128..8).prop_map(MVal::Int), 1 => small_or_boundary_int().prop_map(MVal::Int)].boxed(),
        "big" => prop_oneof![Just(MVal::Int(i64::MAX as i128)), Just(MVal::Int(i128::MAX)), Just(MVal::Int(i128::MIN)), Just(MVal::Big(u128::MAX)), Just(MVal::Int(1 << 64)), Just(MVal::Int(-(1 << 63))), Just(MVal::Int(1 << 62))].boxed(),
        "f" => float_pool().prop_map(MVal::Float).boxed(),
        "s" | "t" => prop_oneof![5 => str_pool().prop_map(|s| MVal::Str(s, false)), 1 => str_pool().prop_map(|s| MVal::Str(s, true)), 1 => Just(MVal::s("Hello World, héllo wörld")), 1 => Just(MVal::s(" 12 "))].boxed(),
        "b" => any::<bool>().prop_map(MVal::Bool).boxed(),
        "xs" => prop::collection::vec((-2i128..6).prop_map(MVal::Int), 0..5).prop_map(MVal::Array).boxed(),
        "ys" => prop::collection::vec(str_pool().prop_map(|s| MVal::Str(s, false)), 0..4).prop_map(MVal::Array).boxed(),
        "zs" => prop::collection::vec(value(ValOpts { depth: 1, max_len: 2, bytes: false, ..Default::default() }), 0..4).prop_map(MVal::Array).boxed(),
        "m" => prop::collection::vec((prop::sample::select(vec!["a", "b", "name", "k1", "c"]), scalar(ValOpts { bytes: false, ..Default::default() })), 0..5).prop_map(|v| MVal::Map(v.into_iter().map(|(k, v)| (MKey::Str(k.to_string()), v)).collect())).boxed(),
        "o" => (scalar(ValOpts { bytes: false, ..Default::default() }), prop::collection::vec((-1i128..4).prop_map(MVal::Int), 0..4), any::<u8>()).prop_map(|(leaf, list, shape)| {
            // nested map for paths o.a.b.c / o.list / o.name; some levels missing, none or explicit undefined
            let c = match shape % 5 {
                0 => MVal::smap(vec![("c", leaf.clone())]),
                1 => MVal::smap(vec![]),
                2 => MVal::None,
                3 => MVal::smap(vec![("c", MVal::Undefined)]),
                _ => leaf.clone(),
            };
            let a = if shape % 7 == 6 { MVal::smap(vec![]) } else { MVal::smap(vec![("b", c), ("k1", MVal::Int(1))]) };
            let mut top = vec![("a", a), ("list", MVal::Array(list)), ("name", MVal::s("<n&m>"))];
            if shape % 11 == 0 {
                top.push(("zz", MVal::None));
            }
            MVal::smap(top)
        }).boxed(),
        "n" => Just(MVal::None).boxed(),
        _ => Just(MVal::Undefined).boxed(),
    }
}

/// binds every variable of the pool: mostly to a value of its nominal kind, sometimes to another kind or not at all
pub fn ctx_strategy() -> BoxedStrategy<Ctx> {
    let per_var: Vec<BoxedStrategy<(String, Option<MVal>)>> = ALL_VARS.iter().map(|name| {
        let n = name.to_string();
        if UNBOUND_VARS.contains(name) {
            return prop_oneof![9 => Just(None), 1 => scalar(ValOpts::default()).prop_map(Some)].prop_map(move |v| (n.clone(), v)).boxed();
        }
        prop_oneof![17 => nominal(name).prop_map(Some), 2 => value(ValOpts { undefined: false, depth: 1, max_len: 3, ..Default::default() }).prop_map(Some), 1 => Just(None)].prop_map(move |v| (n.clone(), v)).boxed()
    }).collect();
    per_var.prop_map(|v| v.into_iter().filter_map(|(k, v)| v.filter(|x| !x.is_undefined()).map(|v| (k, v))).collect::<Ctx>()).boxed()
}
