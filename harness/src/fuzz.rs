//! Coverage-guided campaigns (libFuzzer through cargo-fuzz) over the same generators and oracles.
//!
//! A libFuzzer input is used as the *random stream* of the proptest strategies (`RngAlgorithm::PassThrough`),
//! so every structured generator of the harness becomes a byte-level decoder, and byte mutations become
//! structural mutations of the generated case. `fz_add` uses the bytes directly as template source.
//! The oracle runs inside the target; a violation writes the usual replay file and aborts the process so that
//! libFuzzer keeps the input as an artifact. The supervisor (`campaign`) builds the target, runs a fixed amount
//! of work on every core and turns what it finds in the logs into the report of the calling check.
use crate::core::*;
use crate::expr::*;
use crate::mval::*;
use crate::props::*;
use proptest::prelude::*;
use proptest::strategy::ValueTree;
use proptest::test_runner::{Config, RngAlgorithm, TestRng, TestRunner};
use serde_json::{json, Value as J};
use std::path::{Path, PathBuf};
use std::sync::mpsc::{channel, Receiver, Sender};
use std::sync::{Mutex, OnceLock};

/// which properties a target can decide
pub const TARGETS: &[(&str, &[&str])] = &[("fz_add", &["C06", "C12"]), ("fz_expr", &["C02", "C09", "C12"]), ("fz_prog", &["C03", "C09"]), ("fz_ws", &["C08"]), ("fz_hostile", &["C07"])];

/// executions per job (16 jobs) and maximal input length of a campaign
pub fn budget(target: &str, prop: &str) -> (u64, usize) {
    let scale: u64 = std::env::var("VERIF_FUZZ_SCALE").ok().and_then(|s| s.parse().ok()).unwrap_or(100);
    let (runs, len) = match (target, prop) {
        // source-level: short inputs keep operator chains far below the stack-overflow threshold of finding F8
        ("fz_add", _) => (2_000_000u64, 600usize),
        ("fz_expr", _) => (300_000, 4096),
        ("fz_prog", _) => (120_000, 8192),
        ("fz_ws", _) => (600_000, 4096),
        ("fz_hostile", _) => (300_000, 4096),
        _ => (100_000, 4096),
    };
    ((runs * scale / 100).max(1000), len)
}

/// decode a structured case from bytes: the bytes are the random stream of the strategy (zeros once exhausted)
pub fn from_bytes<S: Strategy>(s: &S, data: &[u8]) -> Option<S::Value> {
    // an exhausted pass-through stream yields zeros, on which rand's rejection sampling of a range that is not
    // a power of two never terminates: extend the input with a fixed pseudo-random block (fixed = a mutation of
    // the input changes only what the input encodes, never the tail)
    static PAD: OnceLock<Vec<u8>> = OnceLock::new();
    let pad = PAD.get_or_init(|| {
        let mut m = Mix(0x5eed_7e4a);
        let mut v = Vec::with_capacity(1 << 17);
        while v.len() < (1 << 17) {
            v.extend_from_slice(&m.next().to_le_bytes());
        }
        v
    });
    let mut buf = Vec::with_capacity(data.len() + pad.len());
    buf.extend_from_slice(data);
    buf.extend_from_slice(pad);
    let rng = TestRng::from_seed(RngAlgorithm::PassThrough, &buf);
    let mut runner = TestRunner::new_with_rng(Config { failure_persistence: None, ..Config::default() }, rng);
    s.new_tree(&mut runner).ok().map(|t| t.current())
}

type ExprCase = (E, Ctx, Ctx, u64, u64);
type ProgCase = (Vec<crate::stmt::S>, Vec<crate::stmt::S>, Vec<crate::stmt::S>, (Ctx, Ctx), bool, bool, u64);
thread_local! {
    static EXPR: BoxedStrategy<ExprCase> = (crate::exprgen::expr_strategy(4, crate::exprgen::GenOpts::default()), crate::exprgen::ctx_strategy(), crate::exprgen::ctx_strategy(), any::<u64>(), any::<u64>()).boxed();
    static PROG: BoxedStrategy<ProgCase> = c03::program_strategy(3).boxed();
    static HOSTILE: BoxedStrategy<(E, Ctx, u64)> = (c07::hexpr(), c07::hostile_ctx(c07::HVARS), any::<u64>()).boxed();
    static WS: BoxedStrategy<(Vec<c08::Seg>, c08::Delims)> = prop_oneof![3 => Just(c08::Delims::default()), 1 => c08::delims_strategy()].prop_flat_map(|d| (c08::segs_strategy(d.clone()), Just(d))).boxed();
}

/// one execution: decode, run the oracle of `prop`
pub fn run_bytes(target: &str, prop: &str, data: &[u8], l: &mut Local) -> Check {
    match (target, prop) {
        ("fz_add", "C06") => match std::str::from_utf8(data) {
            Ok(s) => c06::check_source("f.html", s, None, "fuzz", l),
            Err(_) => Ok(()),
        },
        ("fz_add", "C12") => match std::str::from_utf8(data) {
            Ok(s) => c12::check_any_source("f.html", s, "fuzz", l),
            Err(_) => Ok(()),
        },
        ("fz_expr", _) => {
            let Some((e, ctx, ctx2, noise, salt)) = EXPR.with(|s| from_bytes(s, data)) else { return Ok(()) };
            match prop {
                "C02" => c02::check_tree(&e, &ctx, noise, salt, l),
                "C12" => c12::check_random_error(&e, &ctx, "é\r\n\t", noise, l),
                "C09" => {
                    let ctxs: Vec<Ctx> = [ctx, ctx2].into_iter().filter(|c| eval_print(&e, c).is_some()).collect();
                    c09::check_sources(&[("t".to_string(), format!("{{{{ {} }}}}|{{% if {} %}}T{{% endif %}}", print(&e, Mode::Noisy(noise)), print(&e, Mode::Minimal)))], &["t".to_string()], &ctxs, salt, l)
                }
                _ => Ok(()),
            }
        }
        ("fz_prog", _) => {
            let Some((main, inc1, inc2, (ctx, glob), am, ai, salt)) = PROG.with(|s| from_bytes(s, data)) else { return Ok(()) };
            match prop {
                "C03" => c03::check_program(&main, &inc1, &inc2, &ctx, &glob, am, ai, true, salt, l),
                "C09" => {
                    // inc1 includes nothing, main may include inc1: acyclic by construction
                    let (inc, m) = (crate::stmtgen::with_obs(c03::strip_includes(inc2.clone(), &[]), false), crate::stmtgen::with_obs(c03::strip_includes(main.clone(), &["inc1"]), false));
                    let _ = &inc1;
                    let ctxs = c09::specified_contexts(&[("inc1", &inc), ("main.html", &m)], &[ctx.clone()], l);
                    c09::check_sources(&[("inc1".to_string(), crate::stmt::print_body(&inc)), ("main.html".to_string(), crate::stmt::print_body(&m))], &["main.html".to_string()], &ctxs, salt, l)
                }
                _ => Ok(()),
            }
        }
        ("fz_hostile", "C07") => {
            let Some((e, ctx, salt)) = HOSTILE.with(|s| from_bytes(s, data)) else { return Ok(()) };
            // programs that are legitimately huge for the reference evaluator are not run
            if matches!(eval_b(&e, &ctx, &Budget::new(100_000)), Err(MErr(m)) if m == BUDGET) {
                return Ok(());
            }
            c07::check_hostile_expr(&e, &ctx, salt, l)
        }
        ("fz_ws", "C08") => {
            let Some((segs, d)) = WS.with(|s| from_bytes(s, data)) else { return Ok(()) };
            c08::check_segments(&segs, &d, l)
        }
        _ => Ok(()),
    }
}

// ------------------------------------------------------------------------------------------
// in-target side

struct Worker {
    tx: Sender<Vec<u8>>,
    rx: Receiver<bool>,
}
static WORKER: OnceLock<Mutex<Worker>> = OnceLock::new();

/// called by the libFuzzer targets for every input
pub fn fuzz_one(target: &'static str, data: &[u8]) {
    let w = WORKER.get_or_init(|| {
        let (tx, jobs) = channel::<Vec<u8>>();
        let (done, rx) = channel::<bool>();
        let prop = std::env::var("TVH_FUZZ_PROP").unwrap_or_else(|_| TARGETS.iter().find(|t| t.0 == target).map(|t| t.1[0].to_string()).unwrap_or_default());
        std::thread::Builder::new()
            .stack_size(stack_size())
            .spawn(move || {
                // libfuzzer-sys installs a hook that aborts on any panic; the oracles need to catch panics to report them
                install_panic_hook();
                let known = load_known_findings();
                let mut l = Local::new();
                let mut tolerated = 0u64;
                for data in jobs {
                    let r = match guard(|| run_bytes(target, &prop, &data, &mut l)) {
                        Ok(r) => r,
                        Err(p) => Err(Fail::new(format!("{prop}/panic-in-harness-or-engine"), p, json!({"kind": "fuzz_bytes", "target": target, "hex": hex(&data)}))),
                    };
                    // keep the per-thread statistics small: only counters are of interest here
                    l.nontrivial.clear();
                    l.samples.clear();
                    let ok = match r {
                        Ok(()) => true,
                        Err(f) if known.iter().any(|k| k.status == "open" && k.signature == f.signature) => {
                            tolerated += 1;
                            if tolerated == 1 {
                                eprintln!("TOLERATED known finding {}", f.signature);
                            }
                            true
                        }
                        Err(f) => {
                            let p = write_replay(&prop, &f);
                            // the raw input next to it, for libFuzzer-level replay
                            let _ = std::fs::write(p.with_extension("bytes"), &data);
                            println!("VIOLATION property={} replay={}", prop, p.display());
                            eprintln!("VIOLATION property={} replay={}\n  signature={} :: {}", prop, p.display(), f.signature, f.what.chars().take(600).collect::<String>());
                            false
                        }
                    };
                    if done.send(ok).is_err() {
                        break;
                    }
                }
            })
            .expect("spawn fuzz worker");
        Mutex::new(Worker { tx, rx })
    });
    let w = w.lock().unwrap();
    if w.tx.send(data.to_vec()).is_err() {
        std::process::abort();
    }
    match w.rx.recv() {
        Ok(true) => {}
        _ => std::process::abort(),
    }
}

pub fn hex(b: &[u8]) -> String {
    b.iter().map(|x| format!("{:02x}", x)).collect()
}
pub fn unhex(s: &str) -> Option<Vec<u8>> {
    if s.len() % 2 != 0 {
        return None;
    }
    (0..s.len()).step_by(2).map(|i| u8::from_str_radix(s.get(i..i + 2)?, 16).ok()).collect()
}

/// development aid: what a raw input of `fz_hostile` decodes to
pub fn describe_hostile(data: &[u8]) -> String {
    match HOSTILE.with(|s| from_bytes(s, data)) {
        Some((e, ctx, _)) => format!("expression: {}\ncontext: {}", print(&e, Mode::Minimal), ctx_to_json(&ctx).to_string().chars().take(1500).collect::<String>()),
        None => "does not decode".to_string(),
    }
}

/// replay of a raw fuzz input (case kind `fuzz_bytes`)
pub fn replay_bytes(prop: &str, case: &J) -> Option<Check> {
    if case.get("kind")?.as_str()? != "fuzz_bytes" {
        return None;
    }
    let target = case.get("target")?.as_str()?;
    let data = unhex(case.get("hex")?.as_str()?)?;
    let mut l = Local::new();
    Some(run_bytes(target, prop, &data, &mut l))
}

// ------------------------------------------------------------------------------------------
// supervisor side

fn fuzz_dir() -> PathBuf {
    Path::new(VERIF_DIR).join("harness").join("fuzz")
}

/// deterministic starting corpus: repository inputs for the source-level target, pseudo-random streams for the others
fn write_corpus(target: &str, dir: &Path, seed: u64) {
    let _ = std::fs::remove_dir_all(dir);
    let _ = std::fs::create_dir_all(dir);
    if target == "fz_add" {
        for (i, s) in c06::seed_sources().iter().enumerate() {
            if s.len() <= 1500 {
                let _ = std::fs::write(dir.join(format!("seed{i:04}")), s);
            }
        }
        let _ = std::fs::write(dir.join("empty"), "");
    } else {
        let mut m = Mix(derive_seed(seed, target, 0));
        for i in 0..96u64 {
            let len = 256 + (m.next() % 3840) as usize;
            let mut v = Vec::with_capacity(len);
            while v.len() < len {
                v.extend_from_slice(&m.next().to_le_bytes());
            }
            // a share of low-entropy streams: small values select the first alternatives everywhere
            if i % 4 == 0 {
                for b in v.iter_mut() {
                    *b &= 0x3f;
                }
            }
            let _ = std::fs::write(dir.join(format!("rand{i:04}")), &v);
        }
    }
}

/// builds `target`, runs `runs_per_job` executions on each of `n_workers()` processes, reports into `rep`
pub fn campaign(rep: &Report, target: &str, runs_per_job: u64, max_len: usize) {
    let prop = rep.prop.clone();
    let t0 = std::time::Instant::now();
    let work = Path::new(VERIF_DIR).join("work").join("fuzz").join(format!("{prop}-{target}"));
    let _ = std::fs::remove_dir_all(&work);
    let _ = std::fs::create_dir_all(work.join("artifacts"));
    let corpus = work.join("corpus");
    write_corpus(target, &corpus, rep.seed);
    let target_dir = Path::new(VERIF_DIR).join("target").join("fuzz");
    let build = std::process::Command::new("cargo")
        .args(["+nightly", "fuzz", "build", "--fuzz-dir"])
        .arg(fuzz_dir())
        .args(["--target-dir"])
        .arg(&target_dir)
        .args(["--sanitizer", "none", target])
        .env("CARGO_NET_OFFLINE", "true")
        .env("RUSTFLAGS", "--cfg tera_verif --check-cfg cfg(tera_verif)")
        .current_dir(fuzz_dir())
        .output();
    let built = match &build {
        Ok(o) if o.status.success() => true,
        Ok(o) => {
            eprintln!("{}", String::from_utf8_lossy(&o.stderr).lines().rev().take(30).collect::<Vec<_>>().into_iter().rev().collect::<Vec<_>>().join("\n"));
            false
        }
        Err(e) => {
            eprintln!("cannot run cargo fuzz: {e}");
            false
        }
    };
    let bin = target_dir.join("x86_64-unknown-linux-gnu").join("release").join(target);
    if !built || !bin.exists() {
        rep.inconclusive(&format!("the libFuzzer target {target} could not be built (cargo +nightly fuzz build failed)"));
        return;
    }
    let jobs = n_workers();
    let fseed = (derive_seed(rep.seed, target, 7) % 0x7fff_fffe) + 1;
    let out = std::process::Command::new(&bin)
        .arg(&corpus)
        .arg(format!("-runs={runs_per_job}"))
        .arg(format!("-seed={fseed}"))
        .arg(format!("-max_len={max_len}"))
        .args(["-len_control=0", "-timeout=120", "-rss_limit_mb=3000", "-malloc_limit_mb=1024", "-print_final_stats=1", "-reload=1"])
        .args(if target == "fz_add" { vec![format!("-dict={}", fuzz_dir().join("tera.dict").display())] } else { vec![] })
        .arg(format!("-jobs={jobs}"))
        .arg(format!("-workers={jobs}"))
        .arg(format!("-artifact_prefix={}/", work.join("artifacts").display()))
        .env("TVH_FUZZ_PROP", &prop)
        .env("VERIF_STACK_MB", "64")
        .current_dir(&work)
        .output();
    if let Err(e) = &out {
        rep.inconclusive(&format!("cannot start {}: {e}", bin.display()));
        return;
    }
    // every job writes fuzz-<i>.log into the working directory
    let mut execs = 0u64;
    let mut cov = 0u64;
    let mut violations: Vec<PathBuf> = vec![];
    let mut died: Vec<String> = vec![];
    let mut slow: Vec<String> = vec![];
    let mut logs = 0;
    for i in 0..jobs {
        let Ok(txt) = std::fs::read_to_string(work.join(format!("fuzz-{i}.log"))) else { continue };
        logs += 1;
        for line in txt.lines() {
            if let Some(x) = line.strip_prefix("stat::number_of_executed_units:") {
                execs += x.trim().parse::<u64>().unwrap_or(0);
            }
            if let Some(p) = line.strip_prefix(&format!("VIOLATION property={prop} replay=")) {
                violations.push(PathBuf::from(p.trim()));
            }
            if let Some(pos) = line.find(" cov: ") {
                if let Some(n) = line[pos + 6..].split_whitespace().next().and_then(|x| x.parse::<u64>().ok()) {
                    cov = cov.max(n);
                }
            }
            if line.contains("ERROR: libFuzzer: timeout") || line.contains("ERROR: libFuzzer: out-of-memory") {
                slow.push(format!("job {i}: {}", line.trim()));
            } else if line.contains("ERROR: libFuzzer: deadly signal") || line.contains("ERROR: AddressSanitizer") || line.contains("ERROR: libFuzzer: fuzz target exited") {
                died.push(format!("job {i}: {}", line.trim()));
            }
        }
    }
    let corpus_n = std::fs::read_dir(&corpus).map(|d| d.count()).unwrap_or(0);
    rep.extra(&format!("libfuzzer:{target}"), json!({"jobs": jobs, "runs_per_job": runs_per_job, "executions": execs, "edges_covered": cov, "corpus_files_after": corpus_n, "max_len": max_len, "seed": fseed, "decoder": if target == "fz_add" { "bytes are the template source" } else { "bytes are the random stream of the proptest strategy (PassThrough)" }}));
    {
        let mut l = Local::new();
        l.evals_n(execs);
        l.label_n(&format!("libfuzzer:{target}:executions"), execs);
        rep.merge(l);
    }
    if logs == 0 {
        rep.inconclusive(&format!("{target}: no job log found"));
    }
    violations.sort();
    violations.dedup();
    let mut seen = std::collections::BTreeSet::new();
    for p in &violations {
        if let Ok(j) = std::fs::read_to_string(p).map_err(|_| ()).and_then(|t| serde_json::from_str::<J>(&t).map_err(|_| ())) {
            let sig = j.get("signature").and_then(|x| x.as_str()).unwrap_or("fuzz").to_string();
            if seen.insert(sig.clone()) {
                rep.fail(Fail::new(sig, j.get("what").and_then(|x| x.as_str()).unwrap_or("").to_string(), j.get("case").cloned().unwrap_or(J::Null)));
            }
        }
    }
    if violations.is_empty() {
        // a process that died without the oracle speaking: stack overflow, abort; the artifact is the reproduction
        let arts: Vec<PathBuf> = std::fs::read_dir(work.join("artifacts")).map(|d| d.flatten().map(|e| e.path()).collect()).unwrap_or_default();
        for a in arts.iter().filter(|a| a.file_name().map_or(false, |n| n.to_string_lossy().starts_with("crash-"))).take(3) {
            if let Ok(data) = std::fs::read(a) {
                rep.fail(Fail::new(format!("{prop}/fuzz/process-died"), format!("{target}: the process died on this input ({})", died.first().cloned().unwrap_or_default()), json!({"kind": "fuzz_bytes", "target": target, "hex": hex(&data)})));
            }
        }
        // a job that ran into libFuzzer's memory or time limit ends early: generated cases can be legitimate resource bombs
        // (the in-process families filter them with a work budget; a mutated input can get past it). That says nothing about
        // the property: the input is kept as an artifact, the executions done so far count, and the evidence says how many
        // jobs ended this way. Only a campaign in which hardly anything ran is inconclusive.
        if !slow.is_empty() {
            rep.extra(&format!("libfuzzer:{target}:jobs_ended_by_memory_or_time_limit"), json!({"jobs": slow.len(), "first": slow[0], "artifacts_dir": work.join("artifacts").display().to_string()}));
            if execs < runs_per_job * jobs as u64 / 20 {
                rep.inconclusive(&format!("{target}: {} of {} jobs hit the memory or time limit before 5% of the budget ran ({})", slow.len(), jobs, slow[0]));
            }
        }
    }
    rep.family_done(&format!("libfuzzer:{target}"), execs, t0, false);
}
