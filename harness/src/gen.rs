//! Shared proptest strategies for model values.
use crate::mval::*;
use proptest::prelude::*;

pub fn small_or_boundary_int() -> impl Strategy<Value = i128> {
    prop_oneof![
        6 => -3i128..6,
        1 => prop_oneof![Just(i64::MAX as i128), Just(i64::MIN as i128), Just(u64::MAX as i128), Just(1i128 << 63), Just((1i128 << 63) + 5), Just(1i128 << 64), Just(i128::MAX), Just(i128::MIN), Just(1i128 << 53), Just((1i128 << 53) + 1)],
        1 => any::<i64>().prop_map(|x| x as i128),
    ]
}
pub fn float_pool() -> impl Strategy<Value = f64> {
    prop_oneof![
        4 => (-6i32..12).prop_map(|x| x as f64 / 2.0),
        2 => prop_oneof![Just(f64::NAN), Just(f64::INFINITY), Just(f64::NEG_INFINITY), Just(-0.0), Just(0.0), Just(9223372036854775808.0), Just(18446744073709551616.0), Just(9007199254740992.0), Just(1.7014118346046923e38), Just(1e300), Just(-1e300), Just(5e-324)],
        1 => any::<f64>(),
    ]
}
pub const STR_POOL: &[&str] = &["", "a", "b", "ab", "A", "z", "é", "日本", "a b", "<b>", "0", "1", "true", "none", "x'y", "q\"r", "😀"];
pub fn str_pool() -> impl Strategy<Value = String> {
    prop_oneof![6 => (0..STR_POOL.len()).prop_map(|i| STR_POOL[i].to_string()), 1 => "[a-c]{0,3}", 1 => any::<char>().prop_map(|c| c.to_string())]
}
pub fn key_pool() -> impl Strategy<Value = MKey> {
    prop_oneof![
        5 => (0..STATIC_KEYS.len()).prop_map(|i| MKey::Str(STATIC_KEYS[i].to_string())),
        1 => str_pool().prop_map(MKey::Str),
        1 => any::<bool>().prop_map(MKey::Bool),
        3 => small_or_boundary_int().prop_map(MKey::Int),
        1 => any::<u128>().prop_map(|b| if b > i128::MAX as u128 { MKey::Big(b) } else { MKey::Int(b as i128) }),
    ]
}

#[derive(Debug, Clone, Copy)]
pub struct ValOpts {
    pub undefined: bool,
    pub bytes: bool,
    pub depth: u32,
    pub max_len: usize,
}
impl Default for ValOpts {
    fn default() -> Self {
        ValOpts { undefined: false, bytes: true, depth: 3, max_len: 5 }
    }
}

pub fn scalar(o: ValOpts) -> BoxedStrategy<MVal> {
    let mut v: Vec<(u32, BoxedStrategy<MVal>)> = vec![
        (1, Just(MVal::None).boxed()),
        (2, any::<bool>().prop_map(MVal::Bool).boxed()),
        (6, small_or_boundary_int().prop_map(MVal::Int).boxed()),
        (1, any::<u128>().prop_map(MVal::uint).boxed()),
        (4, float_pool().prop_map(MVal::Float).boxed()),
        (5, str_pool().prop_map(|s| MVal::Str(s, false)).boxed()),
        (1, str_pool().prop_map(|s| MVal::Str(s, true)).boxed()),
    ];
    if o.undefined {
        v.push((1, Just(MVal::Undefined).boxed()));
    }
    if o.bytes {
        v.push((1, prop::collection::vec(prop_oneof![Just(b'a'), Just(b'<'), Just(0xffu8), Just(0xc3), any::<u8>()], 0..4).prop_map(MVal::Bytes).boxed()));
    }
    proptest::strategy::Union::new_weighted(v).boxed()
}

pub fn value(o: ValOpts) -> BoxedStrategy<MVal> {
    let ml = o.max_len;
    scalar(o)
        .prop_recursive(o.depth, 24, ml as u32, move |inner| {
            prop_oneof![
                3 => prop::collection::vec(inner.clone(), 0..=ml).prop_map(MVal::Array),
                2 => prop::collection::vec((key_pool(), inner), 0..=ml).prop_map(|v| MVal::Map(v.into_iter().collect())),
            ]
        })
        .boxed()
}

fn count_nodes(v: &MVal) -> usize {
    match v {
        MVal::Array(a) => 1 + a.iter().map(count_nodes).sum::<usize>(),
        MVal::Map(m) => 1 + m.values().map(count_nodes).sum::<usize>(),
        _ => 1,
    }
}

/// A *near-equal* variant of `v`: the `idx`-th node (pre-order, scaled) is changed in way `kind`.
/// Some changes keep the value equal under `==` (int <-> integral float, safe mark), others make a
/// minimal difference.
pub fn mutate(v: &MVal, idx: u16, kind: u8) -> MVal {
    let n = count_nodes(v);
    let target = (idx as usize * n) >> 16;
    let mut ctr = 0usize;
    fn go(v: &MVal, target: usize, ctr: &mut usize, kind: u8) -> MVal {
        let me = *ctr;
        *ctr += 1;
        if me == target {
            return change(v, kind);
        }
        match v {
            MVal::Array(a) => MVal::Array(a.iter().map(|x| go(x, target, ctr, kind)).collect()),
            MVal::Map(m) => MVal::Map(m.iter().map(|(k, x)| (k.clone(), go(x, target, ctr, kind))).collect()),
            x => x.clone(),
        }
    }
    fn change(v: &MVal, kind: u8) -> MVal {
        match v {
            MVal::Int(i) => match kind % 4 {
                0 => {
                    let f = *i as f64;
                    // equal float when exactly representable
                    if f.is_finite() && f.abs() < 1.7e38 && (f as i128) == *i {
                        MVal::Float(f)
                    } else {
                        MVal::Float(f)
                    }
                }
                1 => MVal::Int(i.saturating_add(1)),
                2 => MVal::Int(i.saturating_sub(1)),
                _ => MVal::Str(i.to_string(), false),
            },
            MVal::Big(b) => match kind % 2 {
                0 => MVal::Float(*b as f64),
                _ => MVal::Big(b.saturating_sub(1).max(i128::MAX as u128 + 1)),
            },
            MVal::Float(f) => match kind % 3 {
                0 if f.fract() == 0.0 && f.abs() < 1.7e38 => MVal::Int(*f as i128),
                1 => MVal::Float(f64::from_bits(f.to_bits().wrapping_add(1))),
                _ => MVal::Float(-*f),
            },
            MVal::Str(s, safe) => match kind % 3 {
                0 => MVal::Str(s.clone(), !*safe),
                1 => MVal::Str(format!("{s}a"), *safe),
                _ => MVal::Str(s.chars().skip(1).collect(), *safe),
            },
            MVal::Bool(b) => match kind % 2 {
                0 => MVal::Bool(!*b),
                _ => MVal::Int(*b as i128),
            },
            MVal::None => MVal::Bool(false),
            MVal::Undefined => MVal::None,
            MVal::Bytes(b) => {
                let mut b = b.clone();
                if kind % 2 == 0 {
                    b.push(b'x');
                    MVal::Bytes(b)
                } else {
                    MVal::Str(String::from_utf8_lossy(&b).to_string(), false)
                }
            }
            MVal::Array(a) => {
                let mut a = a.clone();
                match kind % 3 {
                    0 => {
                        a.pop();
                    }
                    1 => a.push(MVal::Int(0)),
                    _ => a.reverse(),
                }
                MVal::Array(a)
            }
            MVal::Map(m) => {
                let mut m = m.clone();
                match kind % 3 {
                    0 => {
                        if let Some(k) = m.keys().next().cloned() {
                            m.remove(&k);
                        }
                    }
                    1 => {
                        m.insert(MKey::Str("zz".into()), MVal::Int(1));
                    }
                    _ => {
                        if let Some(k) = m.keys().next_back().cloned() {
                            m.insert(k, MVal::s("changed"));
                        }
                    }
                }
                MVal::Map(m)
            }
        }
    }
    go(v, target, &mut ctr, kind)
}
