//! Layer B: expression AST, printer (three spelling modes) and reference evaluator.
//! The evaluator is written from the documentation (docs/content/_index.md, MIGRATION.md) and the
//! pinned snapshots; it never calls the engine.
use crate::mval::*;
use std::cmp::Ordering;
use std::collections::BTreeMap;

#[derive(Debug, Clone, Copy, PartialEq, Eq, Hash, PartialOrd, Ord)]
pub enum Bin {
    Or,
    And,
    In,
    NotIn,
    Eq,
    Ne,
    Lt,
    Le,
    Gt,
    Ge,
    Add,
    Sub,
    Mul,
    Div,
    FloorDiv,
    Mod,
    Concat,
    Pow,
}
pub const ALL_BIN: [Bin; 18] = [Bin::Or, Bin::And, Bin::In, Bin::NotIn, Bin::Eq, Bin::Ne, Bin::Lt, Bin::Le, Bin::Gt, Bin::Ge, Bin::Add, Bin::Sub, Bin::Mul, Bin::Div, Bin::FloorDiv, Bin::Mod, Bin::Concat, Bin::Pow];

#[derive(Debug, Clone, PartialEq)]
pub enum Item {
    One(E),
    Spread(E),
}
#[derive(Debug, Clone, PartialEq)]
pub enum Entry {
    Kv(MKey, E),
    Spread(E),
}

#[derive(Debug, Clone, PartialEq)]
pub enum E {
    Int(i64),
    Float(f64),
    Str(String),
    Bool(bool),
    None,
    Var(String),
    /// loop.index / index0 / first / last / length
    Loop(&'static str),
    Attr(Box<E>, String, bool),
    Index(Box<E>, Box<E>, bool),
    Slice(Box<E>, Option<Box<E>>, Option<Box<E>>, Option<Box<E>>, bool),
    Array(Vec<Item>),
    Map(Vec<Entry>),
    Comp { elem: Box<E>, key: Option<String>, val: String, target: Box<E>, cond: Option<Box<E>> },
    Neg(Box<E>),
    Not(Box<E>),
    Bin(Bin, Box<E>, Box<E>),
    /// expr, test name, kwargs, negated
    Test(Box<E>, String, Vec<(String, E)>, bool),
    Filter(Box<E>, String, Vec<(String, E)>),
    /// cond, then, else
    Ternary(Box<E>, Box<E>, Box<E>),
    Call(String, Vec<(String, E)>),
}

impl Bin {
    pub fn sym(self) -> &'static str {
        use Bin::*;
        match self {
            Or => "or",
            And => "and",
            In => "in",
            NotIn => "not in",
            Eq => "==",
            Ne => "!=",
            Lt => "<",
            Le => "<=",
            Gt => ">",
            Ge => ">=",
            Add => "+",
            Sub => "-",
            Mul => "*",
            Div => "/",
            FloorDiv => "//",
            Mod => "%",
            Concat => "~",
            Pow => "**",
        }
    }
    /// level in the DOCUMENTED table ("Operator precedence"), 1 = loosest
    pub fn level(self) -> u8 {
        use Bin::*;
        match self {
            Or => 1,
            And => 2,
            In | NotIn => 4,
            Eq | Ne | Lt | Le | Gt | Ge => 5,
            Add | Sub => 6,
            Mul | Div | FloorDiv | Mod | Concat => 7,
            Pow => 8,
        }
    }
}
/// documented level of the outermost construct: ternary 0, or 1, and 2, not 3, in/is 4, comparisons 5,
/// + - 6, * / // % ~ 7, ** 8, | 9, unary - 10, atoms and postfix 11
pub fn level(e: &E) -> u8 {
    match e {
        E::Ternary(..) => 0,
        E::Bin(b, ..) => b.level(),
        E::Not(_) => 3,
        E::Test(..) => 4,
        E::Filter(..) => 9,
        E::Neg(_) => 10,
        _ => 11,
    }
}

pub fn is_chain(e: &E) -> bool {
    match e {
        E::Var(_) => true,
        E::Attr(b, ..) | E::Index(b, ..) | E::Slice(b, ..) => is_chain(b),
        _ => false,
    }
}
fn is_postfix_base_atom(e: &E) -> bool {
    // forms that can take a `[..]` directly without parentheses
    is_chain(e) || matches!(e, E::Array(_) | E::Str(_) | E::Comp { .. } | E::Call(..) | E::Loop(_) | E::Map(_) | E::Index(..) | E::Slice(..))
}

#[derive(Debug, Clone, Copy, PartialEq)]
pub enum Mode {
    /// minimal parentheses according to the documented table and conventional associativity
    Minimal,
    /// every non-atomic operand parenthesised
    Full,
    /// minimal + random redundant parentheses, random quote styles and inter-token whitespace
    Noisy(u64),
}

pub struct Printer {
    pub mode: Mode,
    toks: Vec<String>,
    rng: u64,
}
impl Printer {
    pub fn new(mode: Mode) -> Printer {
        let rng = match mode {
            Mode::Noisy(s) => s | 1,
            _ => 0,
        };
        Printer { mode, toks: vec![], rng }
    }
    fn coin(&mut self, one_in: u64) -> bool {
        if self.rng == 0 {
            return false;
        }
        self.rng = crate::core::splitmix(self.rng);
        self.rng % one_in == 0
    }
    fn pick(&mut self, n: u64) -> u64 {
        if self.rng == 0 {
            return 0;
        }
        self.rng = crate::core::splitmix(self.rng);
        self.rng % n
    }
    fn t(&mut self, s: &str) {
        self.toks.push(s.to_string());
    }
    fn lit_str(&mut self, s: &str) -> String {
        let style = if s.contains('`') { self.pick(2) } else { self.pick(3) };
        let q = ['"', '\'', '`'][style as usize];
        let mut o = String::new();
        o.push(q);
        for c in s.chars() {
            match c {
                '\\' => o.push_str("\\\\"),
                '\n' => o.push_str("\\n"),
                '\t' => o.push_str("\\t"),
                '\r' => o.push_str("\\r"),
                c if c == q => {
                    o.push('\\');
                    o.push(c);
                }
                c => o.push(c),
            }
        }
        o.push(q);
        o
    }
    fn kwargs(&mut self, k: &[(String, E)]) {
        self.t("(");
        for (i, (n, e)) in k.iter().enumerate() {
            if i > 0 {
                self.t(",");
            }
            self.t(n);
            self.t("=");
            self.expr_bp0(e);
        }
        if !k.is_empty() && self.coin(6) {
            self.t(","); // trailing comma
        }
        self.t(")");
    }
    /// an operand in a position the parser reads with binding power 0 (kwargs, items, subscripts,
    /// map values): a ternary needs no parentheses there
    fn expr_bp0(&mut self, e: &E) {
        let full = self.mode == Mode::Full && !is_atom(e);
        self.wrapped(e, full);
    }
    fn wrapped(&mut self, e: &E, need: bool) {
        let extra = !need && self.coin(7);
        if need || extra {
            self.t("(");
            self.expr(e);
            self.t(")");
        } else {
            self.expr(e);
        }
    }
    /// operand of an operator: parenthesise when `need`, or always (Full) when not an atom
    fn operand(&mut self, e: &E, need: bool) {
        let need = need || (self.mode == Mode::Full && !is_atom(e));
        self.wrapped(e, need);
    }
    fn starts_with_unary(e: &E) -> bool {
        match e {
            E::Neg(_) | E::Not(_) => true,
            E::Bin(_, l, _) => Self::starts_with_unary(l),
            E::Test(x, ..) | E::Filter(x, ..) => Self::starts_with_unary(x),
            E::Ternary(_, a, _) => Self::starts_with_unary(a),
            E::Index(b, ..) | E::Slice(b, ..) => !is_postfix_base_atom(b) && false,
            _ => false,
        }
    }
    fn chain_base(&mut self, b: &E) {
        // `.`, `?.`, `?[` only exist on identifier chains; `[` on anything
        if is_postfix_base_atom(b) {
            self.expr(b);
        } else {
            self.t("(");
            self.expr(b);
            self.t(")");
        }
    }
    pub fn expr(&mut self, e: &E) {
        match e {
            E::Int(i) => self.t(&i.to_string()),
            E::Float(f) => self.t(&format!("{:?}", f)),
            E::Str(s) => {
                let l = self.lit_str(s);
                self.t(&l)
            }
            E::Bool(b) => {
                let alt = self.coin(5);
                self.t(match (b, alt) {
                    (true, false) => "true",
                    (true, true) => "True",
                    (false, false) => "false",
                    (false, true) => "False",
                })
            }
            E::None => {
                let k = self.pick(3);
                self.t(["none", "None", "null"][k as usize])
            }
            E::Var(n) => self.t(n),
            E::Loop(f) => {
                self.t("loop");
                self.t(".");
                self.t(f);
            }
            E::Attr(b, n, opt) => {
                self.expr(b);
                self.t(if *opt { "?." } else { "." });
                self.t(n);
            }
            E::Index(b, i, opt) => {
                self.chain_base(b);
                self.t(if *opt { "?[" } else { "[" });
                self.expr_bp0(i);
                self.t("]");
            }
            E::Slice(b, s, t, st, opt) => {
                self.chain_base(b);
                self.t(if *opt { "?[" } else { "[" });
                if let Some(x) = s {
                    self.expr_bp0(x);
                }
                self.t(":");
                if let Some(x) = t {
                    self.expr_bp0(x);
                }
                if let Some(x) = st {
                    self.t(":");
                    self.expr_bp0(x);
                }
                self.t("]");
            }
            E::Array(items) => {
                self.t("[");
                for (i, it) in items.iter().enumerate() {
                    if i > 0 {
                        self.t(",");
                    }
                    match it {
                        Item::One(x) => {
                            // a first item followed by `for` would be read as a comprehension: not generated
                            self.expr_bp0(x)
                        }
                        Item::Spread(x) => {
                            self.t("...");
                            self.expr_bp0(x)
                        }
                    }
                }
                if !items.is_empty() && self.coin(6) {
                    self.t(",");
                }
                self.t("]");
            }
            E::Map(entries) => {
                self.t("{");
                for (i, en) in entries.iter().enumerate() {
                    if i > 0 {
                        self.t(",");
                    }
                    match en {
                        Entry::Kv(k, v) => {
                            match k {
                                MKey::Str(s) => {
                                    let l = self.lit_str(s);
                                    self.t(&l)
                                }
                                MKey::Int(i) => self.t(&i.to_string()),
                                MKey::Big(i) => self.t(&i.to_string()),
                                MKey::Bool(b) => self.t(&b.to_string()),
                            }
                            self.t(":");
                            self.expr_bp0(v);
                        }
                        Entry::Spread(x) => {
                            self.t("...");
                            self.expr_bp0(x)
                        }
                    }
                }
                if !entries.is_empty() && self.coin(6) {
                    self.t(",");
                }
                self.t("}");
            }
            E::Comp { elem, key, val, target, cond } => {
                self.t("[");
                self.expr_bp0(elem);
                self.t("for");
                if let Some(k) = key {
                    self.t(k);
                    self.t(",");
                }
                self.t(val);
                self.t("in");
                // target and condition are read above the ternary level
                self.operand(target, level(target) == 0);
                if let Some(c) = cond {
                    self.t("if");
                    self.operand(c, level(c) == 0);
                }
                self.t("]");
            }
            E::Neg(x) => {
                self.t("-");
                let need = level(x) <= 10 || Self::starts_with_unary(x);
                self.operand(x, need);
            }
            E::Not(x) => {
                self.t("not");
                let need = level(x) < 3 || Self::starts_with_unary(x);
                self.operand(x, need);
            }
            E::Bin(op, l, r) => {
                let lv = op.level();
                let (lp, mut rp) = if *op == Bin::Pow { (level(l) <= lv, level(r) < lv) } else { (level(l) < lv, level(r) <= lv) };
                // no unary operator directly after `~`
                if *op == Bin::Concat && Self::starts_with_unary(r) {
                    rp = true;
                }
                self.operand(l, lp);
                for part in op.sym().split(' ') {
                    self.t(part);
                }
                self.operand(r, rp);
            }
            E::Test(x, n, k, neg) => {
                self.operand(x, level(x) < 4);
                self.t("is");
                if *neg {
                    self.t("not");
                }
                self.t(n);
                if !k.is_empty() || self.coin(8) {
                    self.kwargs(k);
                }
            }
            E::Filter(x, n, k) => {
                self.operand(x, level(x) < 9);
                self.t("|");
                self.t(n);
                if !k.is_empty() || self.coin(8) {
                    self.kwargs(k);
                }
            }
            E::Ternary(c, a, b) => {
                self.operand(a, level(a) == 0);
                self.t("if");
                self.operand(c, level(c) == 0);
                self.t("else");
                // the else branch is right-associative: no parentheses needed
                let full = self.mode == Mode::Full && !is_atom(b);
                self.wrapped(b, full);
            }
            E::Call(n, k) => {
                self.t(n);
                self.kwargs(k);
            }
        }
    }
    pub fn finish(mut self) -> String {
        const KEYWORDS: [&str; 10] = ["not", "and", "or", "in", "is", "if", "else", "for", "true", "false"];
        let toks = std::mem::take(&mut self.toks);
        let mut out = String::new();
        let wordy = |c: char| c.is_alphanumeric() || c == '_' || c == '"' || c == '\'' || c == '`';
        let bracket = |c: char| "()[]{},:".contains(c);
        for (i, t) in toks.iter().enumerate() {
            if i > 0 {
                let prev = &toks[i - 1];
                let a = prev.chars().last().unwrap();
                let b = t.chars().next().unwrap();
                let ident_like = |s: &str| s.chars().all(|c| c.is_alphanumeric() || c == '_') && !KEYWORDS.contains(&s) && !s.chars().next().unwrap().is_ascii_digit();
                // where a human would write no space
                let glue = matches!(t.as_str(), "." | "?." | "," | ":" | ")" | "]")
                    || matches!(prev.as_str(), "." | "?." | "(" | "[" | "?[" | "...")
                    || (matches!(t.as_str(), "[" | "?[") && (wordy(a) && !KEYWORDS.contains(&prev.as_str()) || a == ']' || a == ')'))
                    || (t == "(" && ident_like(prev))
                    || t == "="
                    || prev == "=";
                // where the lexer needs a separator
                let must_space = (wordy(a) && wordy(b)) || (!bracket(a) && !bracket(b) && !wordy(a) && !wordy(b)) || (a == '}' && b == '}') || (a == '{' && "{%#".contains(b)) || (a == '.' && b.is_ascii_digit()) || (a.is_ascii_digit() && b == '.');
                match self.mode {
                    Mode::Noisy(_) => {
                        let r = self.pick(20);
                        const WS: [&str; 6] = [" ", "  ", "\n", "\t", " \n ", "\r\n"];
                        if must_space {
                            out.push_str(WS[(r % 6) as usize]);
                        } else if glue {
                            if r < 4 {
                                out.push_str(WS[(r % 4) as usize]);
                            }
                        } else if r < 12 {
                            out.push_str(WS[(r % 6) as usize]);
                        }
                    }
                    _ => {
                        if must_space || !glue {
                            out.push(' ');
                        }
                    }
                }
            }
            out.push_str(t);
        }
        out
    }
}

pub fn is_atom(e: &E) -> bool {
    matches!(e, E::Int(_) | E::Float(_) | E::Str(_) | E::Bool(_) | E::None | E::Var(_) | E::Loop(_) | E::Array(_) | E::Map(_) | E::Comp { .. } | E::Call(..) | E::Attr(..) | E::Index(..) | E::Slice(..))
}

pub fn print(e: &E, mode: Mode) -> String {
    let mut p = Printer::new(mode);
    p.expr(e);
    p.finish()
}

/// AST depth (parser recursion estimate) and maximal bracket nesting, to respect the parser limits
pub fn depth(e: &E) -> usize {
    let kw = |k: &Vec<(String, E)>| k.iter().map(|(_, e)| depth(e)).max().unwrap_or(0);
    1 + match e {
        E::Attr(b, ..) => depth(b),
        E::Index(b, i, _) => depth(b).max(depth(i)),
        E::Slice(b, s, t, st, _) => [Some(b), s.as_ref(), t.as_ref(), st.as_ref()].iter().flatten().map(|x| depth(x)).max().unwrap_or(0),
        E::Array(items) => items.iter().map(|i| match i {
            Item::One(x) | Item::Spread(x) => depth(x),
        }).max().unwrap_or(0),
        E::Map(en) => en.iter().map(|i| match i {
            Entry::Kv(_, x) | Entry::Spread(x) => depth(x),
        }).max().unwrap_or(0),
        E::Comp { elem, target, cond, .. } => depth(elem).max(depth(target)).max(cond.as_ref().map_or(0, |c| depth(c))),
        E::Neg(x) | E::Not(x) => depth(x),
        E::Bin(_, l, r) => depth(l).max(depth(r)),
        E::Test(x, _, k, _) | E::Filter(x, _, k) => depth(x).max(kw(k)),
        E::Ternary(c, a, b) => depth(c).max(depth(a)).max(depth(b)),
        E::Call(_, k) => kw(k),
        _ => 0,
    }
}
/// nesting of `[` (subscripts only count inside subscripts of a chain; arrays have their own limit of 2)
pub fn bracket_nesting(e: &E) -> (usize, usize) {
    // returns (max subscript nesting, max array-literal dimension)
    fn go(e: &E, sub: usize, arr: usize, out: &mut (usize, usize)) {
        out.0 = out.0.max(sub);
        out.1 = out.1.max(arr);
        let mut kw = |k: &Vec<(String, E)>, out: &mut (usize, usize)| {
            for (_, x) in k {
                go(x, sub, arr, out)
            }
        };
        match e {
            E::Attr(b, ..) => go(b, sub, arr, out),
            E::Index(b, i, _) => {
                go(b, sub, arr, out);
                go(i, sub + 1, arr, out)
            }
            E::Slice(b, s, t, st, _) => {
                go(b, sub, arr, out);
                for x in [s, t, st].into_iter().flatten() {
                    go(x, sub + 1, arr, out)
                }
            }
            E::Array(items) => {
                out.1 = out.1.max(arr + 1);
                for i in items {
                    match i {
                        Item::One(x) | Item::Spread(x) => go(x, sub, arr + 1, out),
                    }
                }
            }
            E::Map(en) => {
                for i in en {
                    match i {
                        Entry::Kv(_, x) | Entry::Spread(x) => go(x, sub, arr, out),
                    }
                }
            }
            E::Comp { elem, target, cond, .. } => {
                // the comprehension's own bracket is released before its clauses are parsed, but its
                // element is parsed inside the array dimension
                out.1 = out.1.max(arr + 1);
                go(elem, sub, arr + 1, out);
                go(target, sub, arr, out);
                if let Some(c) = cond {
                    go(c, sub, arr, out)
                }
            }
            E::Neg(x) | E::Not(x) => go(x, sub, arr, out),
            E::Bin(_, l, r) => {
                go(l, sub, arr, out);
                go(r, sub, arr, out)
            }
            E::Test(x, _, k, _) | E::Filter(x, _, k) => {
                go(x, sub, arr, out);
                kw(k, out)
            }
            E::Ternary(c, a, b) => {
                go(c, sub, arr, out);
                go(a, sub, arr, out);
                go(b, sub, arr, out)
            }
            E::Call(_, k) => kw(k, out),
            _ => {}
        }
    }
    let mut out = (0, 0);
    go(e, 0, 0, &mut out);
    out
}

// ---------------------------------------------------------------------------------------------
// evaluation

pub trait Scope {
    fn get(&self, name: &str) -> MVal;
    fn loop_field(&self, _f: &str) -> Option<MVal> {
        None
    }
}
pub const MAGIC_CONTEXT: &str = "__tera_context";
impl Scope for Ctx {
    fn get(&self, name: &str) -> MVal {
        if name == MAGIC_CONTEXT {
            // the magic variable dumps the whole context as a map
            return MVal::Map(self.iter().map(|(k, v)| (MKey::Str(k.clone()), v.clone())).collect());
        }
        BTreeMap::get(self, name).cloned().unwrap_or(MVal::Undefined)
    }
}
struct CompScope<'a> {
    parent: &'a dyn Scope,
    val: &'a str,
    key: Option<&'a str>,
    cur: (MVal, MVal),
}
impl<'a> Scope for CompScope<'a> {
    fn get(&self, name: &str) -> MVal {
        if name == self.val {
            return self.cur.1.clone();
        }
        if Some(name) == self.key {
            return self.cur.0.clone();
        }
        self.parent.get(name)
    }
    fn loop_field(&self, f: &str) -> Option<MVal> {
        self.parent.loop_field(f)
    }
}

/// sentinel: the documentation does not settle the outcome; the case is discarded
pub const UNSPEC: &str = "UNSPEC";
/// sentinel: the evaluation exceeded its work budget; the case is discarded
pub const BUDGET: &str = "BUDGET";
fn unspec<T>() -> Result<T, MErr> {
    Err(MErr(UNSPEC))
}

pub struct Budget {
    pub steps: std::cell::Cell<u64>,
}
impl Budget {
    pub fn new(n: u64) -> Budget {
        Budget { steps: std::cell::Cell::new(n) }
    }
    pub fn spend(&self, n: u64) -> Result<(), MErr> {
        let s = self.steps.get();
        if s < n {
            return Err(MErr(BUDGET));
        }
        self.steps.set(s - n);
        Ok(())
    }
}

fn arith(op: Bin, a: &MVal, b: &MVal) -> MRes {
    use crate::props::c13::{ref_arith, Exp};
    if !a.is_number() || !b.is_number() {
        return merr("math on non-number");
    }
    let sym = op.sym();
    match ref_arith(sym, a, b) {
        Exp::Err => merr("arithmetic error"),
        Exp::TextOrErr(_) => unspec(),
        Exp::Text(_) => {
            // recompute the value (ref_arith works on display text)
            let any_float = matches!(a, MVal::Float(_)) || matches!(b, MVal::Float(_));
            let fa = |v: &MVal| match v {
                MVal::Float(f) => *f,
                MVal::Int(i) => *i as f64,
                MVal::Big(b) => *b as f64,
                _ => unreachable!(),
            };
            if op == Bin::Div {
                return Ok(MVal::Float(fa(a) / fa(b)));
            }
            if any_float {
                let (x, y) = (fa(a), fa(b));
                return Ok(MVal::Float(match op {
                    Bin::Add => x + y,
                    Bin::Sub => x - y,
                    Bin::Mul => x * y,
                    Bin::FloorDiv => x.div_euclid(y),
                    Bin::Mod => x.rem_euclid(y),
                    Bin::Pow => x.powf(y),
                    _ => unreachable!(),
                }));
            }
            let (MVal::Int(x), MVal::Int(y)) = (a, b) else { unreachable!() };
            Ok(MVal::Int(match op {
                Bin::Add => x + y,
                Bin::Sub => x - y,
                Bin::Mul => x * y,
                Bin::FloorDiv => x.div_euclid(*y),
                Bin::Mod => x.wrapping_rem_euclid(*y),
                Bin::Pow => {
                    let mut acc: i128 = 1;
                    match *x {
                        0 => acc = if *y == 0 { 1 } else { 0 },
                        1 => acc = 1,
                        -1 => acc = if y % 2 == 0 { 1 } else { -1 },
                        _ => {
                            for _ in 0..*y {
                                acc *= x;
                            }
                        }
                    }
                    acc
                }
                _ => unreachable!(),
            }))
        }
    }
}

pub fn index_value(base: &MVal, idx: &MVal) -> MRes {
    fn seq_index(len: usize, idx: &MVal) -> Result<Option<usize>, MErr> {
        match idx {
            MVal::Int(i) => {
                let n = if *i < 0 { i.checked_add(len as i128) } else { Some(*i) };
                Ok(match n {
                    Some(n) if n >= 0 && n < len as i128 => Some(n as usize),
                    _ => None,
                })
            }
            MVal::Big(_) => Ok(None),
            _ => merr("index not integer"),
        }
    }
    match base {
        MVal::Map(m) => match idx.as_key() {
            Some(k) => Ok(m.get(&k).cloned().unwrap_or(MVal::Undefined)),
            None => merr("bad map key type"),
        },
        MVal::Array(a) => seq_index(a.len(), idx).map(|o| o.map(|i| a[i].clone()).unwrap_or(MVal::Undefined)),
        MVal::Str(s, safe) => {
            let cs: Vec<char> = s.chars().collect();
            seq_index(cs.len(), idx).map(|o| o.map(|i| MVal::Str(cs[i].to_string(), *safe)).unwrap_or(MVal::Undefined))
        }
        _ => Ok(MVal::Undefined),
    }
}

fn slice_arg(v: MVal) -> Result<Option<i128>, MErr> {
    match v {
        MVal::None => Ok(None),
        MVal::Int(i) => Ok(Some(i)),
        MVal::Big(_) => Ok(Some(i128::MAX)),
        _ => merr("slice parameter"),
    }
}

/// the items a `for`/comprehension visits: (key, value); None = not iterable
pub fn iter_items(t: &MVal) -> Option<Vec<(MVal, MVal)>> {
    Some(match t {
        MVal::Array(a) => a.iter().map(|v| (MVal::None, v.clone())).collect(),
        MVal::Str(s, _) => s.chars().map(|c| (MVal::None, MVal::s(&c.to_string()))).collect(),
        MVal::Map(m) => m.iter().map(|(k, v)| (key_to_val(k), v.clone())).collect(),
        MVal::Bytes(b) => b.iter().map(|x| (MVal::None, MVal::Int(*x as i128))).collect(),
        _ => return None,
    })
}

fn eval_kwargs<'a>(k: &'a [(String, E)], c: &dyn Scope, bud: &Budget) -> Result<BTreeMap<&'a str, MVal>, MErr> {
    // keyword arguments are evaluated in an unspecified order: if more than one fails or one is
    // unspecified, the outcome class is still "error"/"unspecified" whatever the order
    let mut kv = BTreeMap::new();
    let mut first_err: Option<MErr> = None;
    for (kn, ke) in k {
        match eval_b(ke, c, bud) {
            Ok(v) => {
                kv.insert(kn.as_str(), v);
            }
            Err(e) => {
                if e.0 == UNSPEC || e.0 == BUDGET || first_err.is_none() {
                    if first_err.as_ref().map_or(true, |f| f.0 != UNSPEC && f.0 != BUDGET) {
                        first_err = Some(e);
                    }
                }
            }
        }
    }
    match first_err {
        Some(e) => Err(e),
        None => Ok(kv),
    }
}

fn find_builtin(name: &str, kind: crate::props::c17::BK) -> Option<&'static crate::props::c17::Builtin> {
    crate::props::c17::BUILTINS.iter().find(|b| b.name == name && b.kind == kind)
}

pub fn eval(e: &E, c: &dyn Scope) -> MRes {
    eval_b(e, c, &Budget::new(200_000))
}

pub fn eval_b(e: &E, c: &dyn Scope, bud: &Budget) -> MRes {
    use crate::props::c17::{ref_call, Spec, BK};
    bud.spend(1)?;
    Ok(match e {
        E::Int(i) => MVal::Int(*i as i128),
        E::Float(f) => MVal::Float(*f),
        E::Str(s) => MVal::s(s),
        E::Bool(b) => MVal::Bool(*b),
        E::None => MVal::None,
        E::Var(n) => c.get(n),
        E::Loop(f) => match c.loop_field(f) {
            Some(v) => v,
            None => return unspec(),
        },
        E::Attr(b, n, opt) => {
            let v = eval_b(b, c, bud)?;
            if *opt && matches!(v, MVal::Undefined | MVal::None) {
                MVal::Undefined
            } else {
                match v {
                    MVal::Undefined => return merr("field of undefined"),
                    MVal::Map(m) => m.get(&MKey::Str(n.clone())).cloned().unwrap_or(MVal::Undefined),
                    _ => MVal::Undefined,
                }
            }
        }
        E::Index(b, i, opt) => {
            let v = eval_b(b, c, bud)?;
            let iv = eval_b(i, c, bud)?;
            if *opt && matches!(v, MVal::Undefined | MVal::None) {
                MVal::Undefined
            } else {
                if v.is_undefined() {
                    return merr("index into undefined");
                }
                if iv.is_undefined() {
                    return merr("undefined index");
                }
                index_value(&v, &iv)?
            }
        }
        E::Slice(b, s, t, st, opt) => {
            let v = eval_b(b, c, bud)?;
            let ev = |x: &Option<Box<E>>, d: MVal| -> MRes {
                match x {
                    Some(x) => eval_b(x, c, bud),
                    None => Ok(d),
                }
            };
            let sv = ev(s, MVal::None)?;
            let tv = ev(t, MVal::None)?;
            let stv = ev(st, MVal::Int(1))?;
            if *opt && matches!(v, MVal::Undefined | MVal::None) {
                MVal::Undefined
            } else {
                if v.is_undefined() {
                    return merr("slice of undefined");
                }
                let s = slice_arg(sv)?;
                let t = slice_arg(tv)?;
                let st = slice_arg(stv)?.unwrap_or(1);
                if st == 0 {
                    return merr("step 0");
                }
                match v {
                    MVal::Array(a) => {
                        bud.spend(a.len() as u64)?;
                        MVal::Array(crate::props::c14::py_slice(a.len(), s, t, st).into_iter().map(|i| a[i].clone()).collect())
                    }
                    MVal::Str(x, safe) => {
                        let cs: Vec<char> = x.chars().collect();
                        bud.spend(cs.len() as u64)?;
                        MVal::Str(crate::props::c14::py_slice(cs.len(), s, t, st).into_iter().map(|i| cs[i]).collect(), safe)
                    }
                    _ => return merr("slice of non-sequence"),
                }
            }
        }
        E::Array(items) => {
            let mut out = vec![];
            for it in items {
                match it {
                    Item::One(x) => {
                        let v = eval_b(x, c, bud)?;
                        if v.is_undefined() {
                            return unspec();
                        }
                        out.push(v)
                    }
                    Item::Spread(x) => match eval_b(x, c, bud)? {
                        MVal::Array(a) => {
                            bud.spend(a.len() as u64)?;
                            out.extend(a)
                        }
                        _ => return merr("spread of non-array"),
                    },
                }
            }
            MVal::Array(out)
        }
        E::Map(entries) => {
            // later entries win
            let mut out = BTreeMap::new();
            for en in entries {
                match en {
                    Entry::Kv(k, x) => {
                        let v = eval_b(x, c, bud)?;
                        if v.is_undefined() {
                            return unspec();
                        }
                        out.insert(k.clone(), v);
                    }
                    Entry::Spread(x) => match eval_b(x, c, bud)? {
                        MVal::Map(m) => {
                            bud.spend(m.len() as u64)?;
                            out.extend(m)
                        }
                        _ => return merr("spread of non-map"),
                    },
                }
            }
            MVal::Map(out)
        }
        E::Comp { elem, key, val, target, cond } => {
            let t = eval_b(target, c, bud)?;
            let Some(items) = iter_items(&t) else { return merr("not iterable") };
            if key.is_some() && !matches!(t, MVal::Map(_)) {
                return merr("key/value iteration on non-map");
            }
            if matches!(&t, MVal::Map(m) if m.len() >= 2) {
                return unspec(); // iteration order of maps is unspecified
            }
            let mut out = vec![];
            for it in items {
                let sc = CompScope { parent: c, val, key: key.as_deref(), cur: it };
                if let Some(cnd) = cond {
                    if !eval_b(cnd, &sc, bud)?.truthy() {
                        continue;
                    }
                }
                let v = eval_b(elem, &sc, bud)?;
                if v.is_undefined() {
                    return unspec();
                }
                out.push(v);
            }
            MVal::Array(out)
        }
        E::Neg(x) => match eval_b(x, c, bud)? {
            MVal::Int(i) => MVal::Int(i.checked_neg().ok_or(MErr("neg overflow"))?),
            MVal::Float(f) => MVal::Float(-f),
            _ => return merr("neg of non-number"),
        },
        E::Not(x) => MVal::Bool(!eval_b(x, c, bud)?.truthy()),
        E::Bin(op, l, r) => match op {
            Bin::And => {
                let a = eval_b(l, c, bud)?;
                if !a.truthy() {
                    a
                } else {
                    eval_b(r, c, bud)?
                }
            }
            Bin::Or => {
                let a = eval_b(l, c, bud)?;
                if a.truthy() {
                    a
                } else {
                    eval_b(r, c, bud)?
                }
            }
            _ => {
                let a = eval_b(l, c, bud)?;
                let b = eval_b(r, c, bud)?;
                match op {
                    Bin::Eq | Bin::Ne => {
                        if a.is_undefined() || b.is_undefined() {
                            return unspec();
                        }
                        MVal::Bool(eq(&a, &b) == (*op == Bin::Eq))
                    }
                    Bin::Lt | Bin::Le | Bin::Gt | Bin::Ge => {
                        if a.is_undefined() && b.is_undefined() {
                            return unspec();
                        }
                        let o = lt_cmp(&a, &b).ok_or(MErr("not comparable"))?;
                        MVal::Bool(match op {
                            Bin::Lt => o == Ordering::Less,
                            Bin::Le => o != Ordering::Greater,
                            Bin::Gt => o == Ordering::Greater,
                            _ => o != Ordering::Less,
                        })
                    }
                    Bin::Concat => {
                        if a.is_undefined() || b.is_undefined() {
                            return unspec();
                        }
                        let s = format!("{}{}", a.display(), b.display());
                        bud.spend(s.len() as u64)?;
                        MVal::Str(s, false)
                    }
                    Bin::In | Bin::NotIn => {
                        if a.is_undefined() {
                            return unspec();
                        }
                        let r = match &b {
                            MVal::Array(xs) => xs.iter().any(|x| eq(x, &a)),
                            MVal::Str(s, _) => match &a {
                                MVal::Str(n, _) => s.contains(n.as_str()),
                                _ => false,
                            },
                            MVal::Map(m) => a.as_key().map_or(false, |k| m.contains_key(&k)),
                            _ => return merr("in on non-container"),
                        };
                        MVal::Bool(r != (*op == Bin::NotIn))
                    }
                    _ => arith(*op, &a, &b)?,
                }
            }
        },
        E::Ternary(cnd, a, b) => {
            if eval_b(cnd, c, bud)?.truthy() {
                eval_b(a, c, bud)?
            } else {
                eval_b(b, c, bud)?
            }
        }
        E::Test(x, n, k, neg) => {
            let v = eval_b(x, c, bud)?;
            let kv = eval_kwargs(k, c, bud)?;
            let Some(b) = find_builtin(n, BK::Test) else { return unspec() };
            match ref_call(b, &v, &kv) {
                Spec::Exact(MVal::Bool(r)) => MVal::Bool(r != *neg),
                Spec::Err | Spec::ErrNaming(_) => return merr("test failed"),
                _ => return unspec(),
            }
        }
        E::Filter(x, n, k) => {
            let v = eval_b(x, c, bud)?;
            let kv = eval_kwargs(k, c, bud)?;
            // host-registered filters used by the autoescape check: `zsafe` is registered with is_safe() = true and
            // returns the display form, `zplain` does the same without the safe mark
            if n == "zsafe" || n == "zplain" {
                if v.is_undefined() {
                    return unspec();
                }
                return Ok(MVal::Str(v.display(), n == "zsafe"));
            }
            let Some(b) = find_builtin(n, BK::Filter) else { return unspec() };
            bud.spend(v.weight() as u64)?;
            match ref_call(b, &v, &kv) {
                Spec::Exact(r) => {
                    bud.spend(r.weight() as u64)?;
                    r
                }
                Spec::Err | Spec::ErrNaming(_) => return merr("filter failed"),
                _ => return unspec(),
            }
        }
        E::Call(n, k) => {
            let kv = eval_kwargs(k, c, bud)?;
            // host-registered functions: `zsafe_fn(v=..)` is registered as safe, `zplain_fn(v=..)` is not
            if n == "zsafe_fn" || n == "zplain_fn" {
                return match kv.get("v") {
                    Some(v) if !v.is_undefined() => Ok(MVal::Str(v.display(), n == "zsafe_fn")),
                    _ => unspec(),
                };
            }
            let Some(b) = find_builtin(n, BK::Func) else { return unspec() };
            match ref_call(b, &MVal::Undefined, &kv) {
                Spec::Exact(r) => {
                    bud.spend(r.weight() as u64)?;
                    r
                }
                Spec::Err | Spec::ErrNaming(_) => return merr("function failed"),
                _ => return unspec(),
            }
        }
    })
}

/// What `{{ expr }}` prints without autoescaping: Ok(text) / Err (render error); None = unspecified or over budget
pub fn eval_print(e: &E, c: &dyn Scope) -> Option<Result<String, ()>> {
    match eval(e, c) {
        Ok(MVal::Undefined) => Some(Err(())),
        Ok(v) => Some(Ok(v.display())),
        Err(MErr(m)) if m == UNSPEC || m == BUDGET => None,
        Err(_) => Some(Err(())),
    }
}
