//! Cross-cutting machinery: seeds, tiers, parallel proptest drivers, label/coverage accounting,
//! evidence files, replay files, known findings, panic capture.
use std::collections::{BTreeMap, BTreeSet, HashSet};
use std::hash::{Hash, Hasher};
use std::panic::{catch_unwind, AssertUnwindSafe};
use std::path::{Path, PathBuf};
use std::sync::atomic::{AtomicBool, AtomicU64, Ordering as AO};
use std::sync::Mutex;
use std::time::Instant;

use proptest::strategy::Strategy;
use proptest::test_runner::{Config, RngSeed, TestCaseError, TestError, TestRunner};
use serde_json::{json, Value as J};

pub const VERIF_DIR: &str = "/verif";

#[derive(Debug, Clone, Copy, PartialEq, Eq)]
pub enum Tier {
    Quick,
    Thorough,
}
impl Tier {
    pub fn name(self) -> &'static str {
        match self {
            Tier::Quick => "quick",
            Tier::Thorough => "thorough",
        }
    }
    /// scale a quick-tier count for the thorough tier
    pub fn scale(self, quick: u64, factor: u64) -> u64 {
        match self {
            Tier::Quick => quick,
            Tier::Thorough => quick * factor,
        }
    }
}

pub fn splitmix(mut x: u64) -> u64 {
    x = x.wrapping_add(0x9E3779B97F4A7C15);
    let mut z = x;
    z = (z ^ (z >> 30)).wrapping_mul(0xBF58476D1CE4E5B9);
    z = (z ^ (z >> 27)).wrapping_mul(0x94D049BB133111EB);
    z ^ (z >> 31)
}
pub fn hash_str(s: &str) -> u64 {
    // FNV-1a, stable across runs and platforms
    let mut h: u64 = 0xcbf29ce484222325;
    for b in s.as_bytes() {
        h ^= *b as u64;
        h = h.wrapping_mul(0x100000001b3);
    }
    h
}
pub fn hash_of<T: Hash>(t: &T) -> u64 {
    let mut h = Fnv(0xcbf29ce484222325);
    t.hash(&mut h);
    h.0
}
struct Fnv(u64);
impl Hasher for Fnv {
    fn finish(&self) -> u64 {
        self.0
    }
    fn write(&mut self, bytes: &[u8]) {
        for b in bytes {
            self.0 ^= *b as u64;
            self.0 = self.0.wrapping_mul(0x100000001b3);
        }
    }
}
pub fn derive_seed(seed: u64, family: &str, worker: u64) -> u64 {
    splitmix(splitmix(seed ^ hash_str(family)) ^ worker.wrapping_mul(0xA24BAED4963EE407))
}

/// A tiny deterministic RNG for *enumeration helpers only* (e.g. picking which grid cells become
/// evidence samples). Property inputs are always generated through proptest strategies.
pub struct Mix(pub u64);
impl Mix {
    pub fn next(&mut self) -> u64 {
        self.0 = self.0.wrapping_add(0x9E3779B97F4A7C15);
        splitmix(self.0)
    }
}

// ---------------------------------------------------------------------------------------------
// panic capture

static HOOK_INSTALLED: AtomicBool = AtomicBool::new(false);
thread_local! {
    static LAST_PANIC: std::cell::RefCell<Option<String>> = const { std::cell::RefCell::new(None) };
    static GUARD_DEPTH: std::cell::Cell<u32> = const { std::cell::Cell::new(0) };
}
pub fn install_panic_hook() {
    if HOOK_INSTALLED.swap(true, AO::SeqCst) {
        return;
    }
    std::panic::set_hook(Box::new(|info| {
        let loc = info.location().map(|l| format!("{}:{}", l.file(), l.line())).unwrap_or_default();
        let msg = if let Some(s) = info.payload().downcast_ref::<&str>() {
            s.to_string()
        } else if let Some(s) = info.payload().downcast_ref::<String>() {
            s.clone()
        } else {
            "<non-string panic>".to_string()
        };
        if GUARD_DEPTH.with(|d| d.get()) == 0 {
            // nobody will catch this one: say what it was (the process then ends with the panic exit code, which is not 0 or 1)
            eprintln!("INCONCLUSIVE harness panic outside an engine call: {} @ {}", msg, loc);
        }
        LAST_PANIC.with(|p| *p.borrow_mut() = Some(format!("{} @ {}", msg, loc)));
    }));
}
/// Runs `f`, turning a panic into `Err(message @ location)`.
pub fn guard<T>(f: impl FnOnce() -> T) -> Result<T, String> {
    GUARD_DEPTH.with(|d| d.set(d.get() + 1));
    let r = catch_unwind(AssertUnwindSafe(f));
    GUARD_DEPTH.with(|d| d.set(d.get().saturating_sub(1)));
    match r {
        Ok(v) => Ok(v),
        Err(_) => Err(LAST_PANIC.with(|p| p.borrow_mut().take()).unwrap_or_else(|| "panic".to_string())),
    }
}

// ---------------------------------------------------------------------------------------------
// failures / known findings

#[derive(Debug, Clone)]
pub struct Fail {
    /// stable classification of what failed (not the message)
    pub signature: String,
    pub what: String,
    /// replayable description of the case
    pub case: J,
}
impl Fail {
    pub fn new(signature: impl Into<String>, what: impl Into<String>, case: J) -> Fail {
        Fail { signature: signature.into(), what: what.into(), case }
    }
}
pub type Check = Result<(), Fail>;

#[derive(Debug, Clone)]
pub struct KnownFinding {
    pub id: String,
    pub property: String,
    pub signature: String,
    pub status: String,
    pub description: String,
    pub repro: J,
}
pub fn load_known_findings() -> Vec<KnownFinding> {
    let p = Path::new(VERIF_DIR).join("known_findings.json");
    let Ok(txt) = std::fs::read_to_string(&p) else { return vec![] };
    let Ok(j) = serde_json::from_str::<J>(&txt) else {
        eprintln!("known_findings.json does not parse; ignoring");
        return vec![];
    };
    let mut out = vec![];
    for e in j.get("findings").and_then(|x| x.as_array()).cloned().unwrap_or_default() {
        let g = |k: &str| e.get(k).and_then(|x| x.as_str()).unwrap_or("").to_string();
        out.push(KnownFinding { id: g("id"), property: g("property"), signature: g("signature"), status: g("status"), description: g("description"), repro: e.get("repro").cloned().unwrap_or(J::Null) });
    }
    out
}

// ---------------------------------------------------------------------------------------------
// per-thread statistics, merged into the report

#[derive(Default)]
pub struct Local {
    pub evals: u64,
    pub labels: BTreeMap<String, u64>,
    pub nontrivial: HashSet<u64>,
    pub samples: Vec<J>,
    pub excluded_known: u64,
    pub discarded: u64,
    pub frozen: bool,
    sample_cap: usize,
}
impl Local {
    pub fn new() -> Local {
        Local { sample_cap: 3, ..Default::default() }
    }
    pub fn eval(&mut self) {
        if !self.frozen {
            self.evals += 1;
        }
    }
    pub fn evals_n(&mut self, n: u64) {
        if !self.frozen {
            self.evals += n;
        }
    }
    pub fn label(&mut self, l: &str) {
        if !self.frozen {
            *self.labels.entry(l.to_string()).or_insert(0) += 1;
        }
    }
    pub fn label_n(&mut self, l: &str, n: u64) {
        if !self.frozen {
            *self.labels.entry(l.to_string()).or_insert(0) += n;
        }
    }
    /// register a non-trivial case by the hash of its canonical form
    pub fn nontrivial(&mut self, h: u64) {
        if !self.frozen {
            self.nontrivial.insert(h);
        }
    }
    pub fn nontrivial_str(&mut self, s: &str) {
        self.nontrivial(hash_str(s));
    }
    pub fn excluded(&mut self) {
        if !self.frozen {
            self.excluded_known += 1;
        }
    }
    pub fn discard(&mut self) {
        if !self.frozen {
            self.discarded += 1;
        }
    }
    pub fn wants_sample(&self) -> bool {
        !self.frozen && self.samples.len() < self.sample_cap
    }
    pub fn sample(&mut self, j: impl FnOnce() -> J) {
        if self.wants_sample() {
            self.samples.push(j());
        }
    }
}

pub struct FamilyStat {
    pub name: String,
    pub cases: u64,
    pub wall_s: f64,
    pub exhaustive: bool,
}

pub struct Report {
    pub prop: String,
    pub tier: Tier,
    pub seed: u64,
    pub start: Instant,
    pub evals: AtomicU64,
    pub labels: Mutex<BTreeMap<String, u64>>,
    pub nontrivial: Mutex<HashSet<u64>>,
    pub samples: Mutex<Vec<J>>,
    pub violations: Mutex<Vec<Fail>>,
    pub known_hits: Mutex<BTreeMap<String, u64>>,
    pub excluded_known: AtomicU64,
    pub discarded: AtomicU64,
    pub families: Mutex<Vec<FamilyStat>>,
    pub floors: Mutex<Vec<(String, u64)>>,
    pub assumptions: Mutex<Vec<String>>,
    pub rule: Mutex<String>,
    pub extra: Mutex<BTreeMap<String, J>>,
    pub known: Vec<KnownFinding>,
    pub inconclusive: Mutex<Vec<String>>,
    pub strict: bool,
}

impl Report {
    pub fn new(prop: &str, tier: Tier, seed: u64) -> Report {
        Report {
            prop: prop.to_string(),
            tier,
            seed,
            start: Instant::now(),
            evals: AtomicU64::new(0),
            labels: Default::default(),
            nontrivial: Default::default(),
            samples: Default::default(),
            violations: Default::default(),
            known_hits: Default::default(),
            excluded_known: AtomicU64::new(0),
            discarded: AtomicU64::new(0),
            families: Default::default(),
            floors: Default::default(),
            assumptions: Default::default(),
            rule: Default::default(),
            extra: Default::default(),
            known: load_known_findings().into_iter().filter(|k| k.property == prop).collect(),
            inconclusive: Default::default(),
            strict: false,
        }
    }
    pub fn set_rule(&self, r: &str) {
        *self.rule.lock().unwrap() = r.to_string();
    }
    pub fn assume(&self, a: &str) {
        self.assumptions.lock().unwrap().push(a.to_string());
    }
    pub fn floor(&self, label: &str, min: u64) {
        self.floors.lock().unwrap().push((label.to_string(), min));
    }
    pub fn extra(&self, k: &str, v: J) {
        self.extra.lock().unwrap().insert(k.to_string(), v);
    }
    pub fn merge(&self, l: Local) {
        self.evals.fetch_add(l.evals, AO::Relaxed);
        self.excluded_known.fetch_add(l.excluded_known, AO::Relaxed);
        self.discarded.fetch_add(l.discarded, AO::Relaxed);
        let mut lb = self.labels.lock().unwrap();
        for (k, v) in l.labels {
            *lb.entry(k).or_insert(0) += v;
        }
        drop(lb);
        self.nontrivial.lock().unwrap().extend(l.nontrivial);
        let mut s = self.samples.lock().unwrap();
        for x in l.samples {
            if s.len() < 8 {
                s.push(x);
            }
        }
    }
    pub fn is_open_known(&self, signature: &str) -> bool {
        !self.strict && self.known.iter().any(|k| k.status == "open" && k.signature == signature)
    }
    /// record a failing case: known (open) findings are tallied, anything else is a violation
    pub fn fail(&self, f: Fail) {
        if self.is_open_known(&f.signature) {
            *self.known_hits.lock().unwrap().entry(f.signature.clone()).or_insert(0) += 1;
            return;
        }
        let mut v = self.violations.lock().unwrap();
        if v.len() < 20 {
            v.push(f);
        }
    }
    pub fn inconclusive(&self, why: &str) {
        self.inconclusive.lock().unwrap().push(why.to_string());
    }
    pub fn family_done(&self, name: &str, cases: u64, t0: Instant, exhaustive: bool) {
        self.families.lock().unwrap().push(FamilyStat { name: name.to_string(), cases, wall_s: t0.elapsed().as_secs_f64(), exhaustive });
    }
    pub fn has_violation(&self) -> bool {
        !self.violations.lock().unwrap().is_empty()
    }

    /// Writes replays + evidence, prints the interface lines, returns the exit code.
    pub fn finish(&self) -> i32 {
        let wall = self.start.elapsed().as_secs_f64();
        let viol = self.violations.lock().unwrap();
        let mut code = 0;
        // KNOWN-FINDING lines (one per open entry that still reproduces; see props::known)
        for (sig, n) in self.known_hits.lock().unwrap().iter() {
            if let Some(k) = self.known.iter().find(|k| &k.signature == sig) {
                println!("KNOWN-FINDING: property={} {} {} (seen {} times)", self.prop, k.signature, k.description, n);
            }
        }
        // dedupe violations by signature
        let mut seen = BTreeSet::new();
        for f in viol.iter() {
            if !seen.insert(f.signature.clone()) {
                continue;
            }
            let path = write_replay(&self.prop, f);
            println!("VIOLATION property={} replay={}", self.prop, path.display());
            eprintln!("  signature={} :: {}", f.signature, f.what);
            code = 1;
        }
        // coverage floors
        let labels = self.labels.lock().unwrap();
        let mut missed = vec![];
        for (l, min) in self.floors.lock().unwrap().iter() {
            let got = labels.get(l).copied().unwrap_or(0);
            if got < *min {
                missed.push(format!("{l}: {got} < {min}"));
            }
        }
        let inconc = self.inconclusive.lock().unwrap();
        if code == 0 && (!missed.is_empty() || !inconc.is_empty()) {
            for m in &missed {
                eprintln!("INCONCLUSIVE property={} coverage floor missed: {}", self.prop, m);
            }
            for m in inconc.iter() {
                eprintln!("INCONCLUSIVE property={} {}", self.prop, m);
            }
            code = 2;
        }
        let fams: Vec<J> = self.families.lock().unwrap().iter().map(|f| json!({"family": f.name, "cases": f.cases, "wall_s": (f.wall_s * 1000.0).round() / 1000.0, "exhaustive": f.exhaustive})).collect();
        let any_exh = self.families.lock().unwrap().iter().any(|f| f.exhaustive);
        let mut cov = serde_json::Map::new();
        cov.insert("evaluations".into(), json!(self.evals.load(AO::Relaxed)));
        cov.insert("distinct_nontrivial".into(), json!(self.nontrivial.lock().unwrap().len()));
        cov.insert("rule".into(), json!(*self.rule.lock().unwrap()));
        cov.insert("samples".into(), J::Array(self.samples.lock().unwrap().clone()));
        cov.insert("labels".into(), json!(*labels));
        cov.insert("families".into(), J::Array(fams));
        cov.insert("excluded_known".into(), json!(self.excluded_known.load(AO::Relaxed)));
        cov.insert("discarded_budget".into(), json!(self.discarded.load(AO::Relaxed)));
        cov.insert("known_finding_hits".into(), json!(*self.known_hits.lock().unwrap()));
        cov.insert("floors_missed".into(), json!(missed));
        cov.insert("inconclusive".into(), json!(*inconc));
        cov.insert("exhaustive_subspaces".into(), json!(any_exh));
        for (k, v) in self.extra.lock().unwrap().iter() {
            cov.insert(k.clone(), v.clone());
        }
        let ev = json!({
            "property_id": self.prop,
            "tier": self.tier.name(),
            "seed": self.seed,
            "level": "exploration",
            "coverage": J::Object(cov),
            "assumptions": *self.assumptions.lock().unwrap(),
            "wall_s": (wall * 1000.0).round() / 1000.0,
            "violations": seen.len(),
        });
        if !self.strict {
            let dir = Path::new(VERIF_DIR).join("evidence");
            let _ = std::fs::create_dir_all(&dir);
            let p = dir.join(format!("{}.json", self.prop));
            if let Err(e) = std::fs::write(&p, serde_json::to_string_pretty(&ev).unwrap()) {
                eprintln!("cannot write evidence {}: {e}", p.display());
                if code == 0 {
                    code = 2;
                }
            }
        }
        eprintln!(
            "[{}] tier={} seed={} evaluations={} distinct_nontrivial={} violations={} known_hits={} wall={:.1}s exit={}",
            self.prop,
            self.tier.name(),
            self.seed,
            self.evals.load(AO::Relaxed),
            self.nontrivial.lock().unwrap().len(),
            seen.len(),
            self.known_hits.lock().unwrap().values().sum::<u64>(),
            wall,
            code
        );
        code
    }
}

pub fn write_replay(prop: &str, f: &Fail) -> PathBuf {
    let dir = Path::new(VERIF_DIR).join("replays").join(prop);
    let _ = std::fs::create_dir_all(&dir);
    let body = json!({"property": prop, "signature": f.signature, "what": f.what, "case": f.case});
    let txt = serde_json::to_string_pretty(&body).unwrap();
    let p = dir.join(format!("{:016x}.json", hash_str(&txt)));
    let _ = std::fs::write(&p, txt);
    p
}

// ---------------------------------------------------------------------------------------------
// drivers

pub fn n_workers() -> usize {
    std::env::var("VERIF_WORKERS").ok().and_then(|s| s.parse().ok()).unwrap_or_else(|| std::thread::available_parallelism().map(|n| n.get()).unwrap_or(8).min(16))
}

pub const BIG_STACK: usize = 256 << 20;
/// stack size of the threads that call the engine: 256 MiB by default (recursion bounded by the input length cannot
/// kill a campaign); workers that check crash-class claims set VERIF_STACK_MB=8 (the reference environment)
pub fn stack_size() -> usize {
    std::env::var("VERIF_STACK_MB").ok().and_then(|s| s.parse::<usize>().ok()).map(|m| m << 20).unwrap_or(BIG_STACK)
}

/// Runs `total_cases` proptest cases of `strat` split over the worker threads (256 MiB stacks).
/// `test` returns `Err(Fail)` for a property failure; the failing value is shrunk by proptest and the
/// minimal case's `Fail` is recorded. A failure whose signature is an open known finding is tallied
/// and the search continues.
pub fn run_family<S, F>(rep: &Report, family: &str, total_cases: u64, strat: impl Fn() -> S + Sync, test: F)
where
    S: Strategy,
    S::Value: Clone + std::fmt::Debug,
    F: Fn(&S::Value, &mut Local) -> Check + Sync,
{
    let t0 = Instant::now();
    let workers = n_workers().max(1);
    let per = (total_cases + workers as u64 - 1) / workers as u64;
    let stop = AtomicBool::new(false);
    std::thread::scope(|sc| {
        for w in 0..workers {
            let strat = &strat;
            let test = &test;
            let stop = &stop;
            std::thread::Builder::new()
                .stack_size(stack_size())
                .spawn_scoped(sc, move || {
                    let seed = derive_seed(rep.seed, family, w as u64);
                    let mut bytes = [0u8; 32];
                    for i in 0..4 {
                        bytes[i * 8..i * 8 + 8].copy_from_slice(&splitmix(seed.wrapping_add(i as u64)).to_le_bytes());
                    }
                    let cfg = Config { cases: per as u32, failure_persistence: None, rng_seed: RngSeed::Fixed(seed), max_shrink_iters: 4000, max_local_rejects: 1 << 20, max_global_rejects: 1 << 20, ..Config::default() };
                    let _ = bytes;
                    let mut runner = TestRunner::new(cfg);
                    let local = std::cell::RefCell::new(Local::new());
                    let last_fail: std::cell::RefCell<Option<Fail>> = std::cell::RefCell::new(None);
                    let s = strat();
                    let res = runner.run(&s, |v| {
                        if stop.load(AO::Relaxed) && !local.borrow().frozen {
                            return Ok(());
                        }
                        let r = {
                            let mut l = local.borrow_mut();
                            guard(|| test(&v, &mut l))
                        };
                        match r {
                            Ok(Ok(())) => Ok(()),
                            Ok(Err(f)) => {
                                if rep.is_open_known(&f.signature) {
                                    if !local.borrow().frozen {
                                        *rep.known_hits.lock().unwrap().entry(f.signature.clone()).or_insert(0) += 1;
                                    }
                                    return Ok(());
                                }
                                local.borrow_mut().frozen = true;
                                let msg = f.signature.clone();
                                *last_fail.borrow_mut() = Some(f);
                                Err(TestCaseError::fail(msg))
                            }
                            Err(p) => {
                                // a panic inside the *harness* (model/generator): report as such
                                local.borrow_mut().frozen = true;
                                *last_fail.borrow_mut() = Some(Fail::new("harness/panic", p.clone(), json!({"value": format!("{:?}", v)})));
                                Err(TestCaseError::fail(p))
                            }
                        }
                    });
                    match res {
                        Ok(()) => {}
                        Err(TestError::Fail(_, v)) => {
                            stop.store(true, AO::Relaxed);
                            // re-run on the minimal value to obtain its Fail
                            let mut l = Local::new();
                            l.frozen = true;
                            let f = match guard(|| test(&v, &mut l)) {
                                Ok(Err(f)) => f,
                                Ok(Ok(())) => last_fail.borrow_mut().take().unwrap_or_else(|| Fail::new("flaky", "minimal case passed on re-run", json!({"value": format!("{:?}", v)}))),
                                Err(p) => Fail::new("harness/panic", p, json!({"value": format!("{:?}", v)})),
                            };
                            if f.signature == "harness/panic" || f.signature == "flaky" {
                                rep.inconclusive(&format!("{}: {} :: {}", family, f.signature, f.what));
                                eprintln!("harness problem in {family}: {} {}", f.what, f.case);
                            } else {
                                rep.fail(f);
                            }
                        }
                        Err(TestError::Abort(r)) => {
                            rep.inconclusive(&format!("{family}: proptest aborted: {r}"));
                        }
                    }
                    let mut l = local.into_inner();
                    l.frozen = false;
                    rep.merge(l);
                })
                .unwrap();
        }
    });
    rep.family_done(family, per * workers as u64, t0, false);
}

/// Runs an enumeration `items` in parallel chunks. `test` gets each item.
pub fn run_enum<T: Sync, F>(rep: &Report, family: &str, items: &[T], test: F)
where
    F: Fn(&T, &mut Local) -> Check + Sync,
{
    let t0 = Instant::now();
    let workers = n_workers().max(1);
    let next = AtomicU64::new(0);
    const CHUNK: u64 = 64;
    std::thread::scope(|sc| {
        for _ in 0..workers {
            let test = &test;
            let next = &next;
            std::thread::Builder::new()
                .stack_size(stack_size())
                .spawn_scoped(sc, move || {
                    let mut local = Local::new();
                    let mut fails = 0;
                    loop {
                        let start = next.fetch_add(CHUNK, AO::Relaxed);
                        if start >= items.len() as u64 {
                            break;
                        }
                        let end = (start + CHUNK).min(items.len() as u64);
                        for i in start..end {
                            let r = guard(|| test(&items[i as usize], &mut local));
                            match r {
                                Ok(Ok(())) => {}
                                Ok(Err(f)) => {
                                    fails += 1;
                                    if fails < 50 {
                                        rep.fail(f);
                                    }
                                }
                                Err(p) => rep.inconclusive(&format!("{family}: harness panic {p}")),
                            }
                        }
                    }
                    rep.merge(local);
                })
                .unwrap();
        }
    });
    rep.family_done(family, items.len() as u64, t0, true);
}

/// Runs a generic indexed enumeration 0..n in parallel (items computed from the index).
pub fn run_indexed<F>(rep: &Report, family: &str, n: u64, exhaustive: bool, test: F)
where
    F: Fn(u64, &mut Local) -> Check + Sync,
{
    let t0 = Instant::now();
    let workers = n_workers().max(1);
    let next = AtomicU64::new(0);
    let chunk: u64 = (n / (workers as u64 * 64)).clamp(1, 4096);
    std::thread::scope(|sc| {
        for _ in 0..workers {
            let test = &test;
            let next = &next;
            std::thread::Builder::new()
                .stack_size(stack_size())
                .spawn_scoped(sc, move || {
                    let mut local = Local::new();
                    let mut fails = 0;
                    loop {
                        let start = next.fetch_add(chunk, AO::Relaxed);
                        if start >= n {
                            break;
                        }
                        let end = (start + chunk).min(n);
                        for i in start..end {
                            match guard(|| test(i, &mut local)) {
                                Ok(Ok(())) => {}
                                Ok(Err(f)) => {
                                    fails += 1;
                                    if fails < 50 {
                                        rep.fail(f);
                                    }
                                }
                                Err(p) => rep.inconclusive(&format!("{family}: harness panic {p}")),
                            }
                        }
                    }
                    rep.merge(local);
                })
                .unwrap();
        }
    });
    rep.family_done(family, n, t0, exhaustive);
}

// ---------------------------------------------------------------------------------------------
// engine helpers

#[derive(Debug, Clone, PartialEq)]
pub enum Out {
    Ok(String),
    Err(String),
    Panic(String),
}
impl Out {
    pub fn is_ok(&self) -> bool {
        matches!(self, Out::Ok(_))
    }
    pub fn is_err(&self) -> bool {
        matches!(self, Out::Err(_))
    }
    pub fn to_json(&self) -> J {
        match self {
            Out::Ok(s) => json!({"ok": s}),
            Out::Err(s) => json!({"err": s}),
            Out::Panic(s) => json!({"panic": s}),
        }
    }
}

pub fn err_text(e: &tera::Error) -> String {
    // Display must never panic (C12); guarded by the callers' catch_unwind
    let s = e.to_string();
    s
}

/// Render `{{ expr }}`-style one-off sources through `render_str` with autoescape off.
pub fn render_one(src: &str, ctx: &tera::Context) -> Out {
    match guard(|| {
        let mut t = tera::Tera::new();
        t.render_str(src, ctx, false).map_err(|e| err_text(&e))
    }) {
        Ok(Ok(s)) => Out::Ok(s),
        Ok(Err(e)) => Out::Err(e),
        Err(p) => Out::Panic(p),
    }
}

pub fn render_one_with(t: &mut tera::Tera, src: &str, ctx: &tera::Context, autoescape: bool) -> Out {
    match guard(|| t.render_str(src, ctx, autoescape).map_err(|e| err_text(&e))) {
        Ok(Ok(s)) => Out::Ok(s),
        Ok(Err(e)) => Out::Err(e),
        Err(p) => Out::Panic(p),
    }
}

/// Generic case: add templates, render the entry.
pub fn render_set(templates: &[(String, String)], entry: &str, ctx: &tera::Context, setup: impl FnOnce(&mut tera::Tera)) -> (Option<String>, Out) {
    match guard(|| {
        let mut t = tera::Tera::new();
        setup(&mut t);
        if let Err(e) = t.add_raw_templates(templates.iter().map(|(a, b)| (a.clone(), b.clone()))) {
            return (Some(err_text(&e)), Out::Err("add failed".into()));
        }
        match t.render(entry, ctx) {
            Ok(s) => (None, Out::Ok(s)),
            Err(e) => (None, Out::Err(err_text(&e))),
        }
    }) {
        Ok(x) => x,
        Err(p) => (None, Out::Panic(p)),
    }
}

pub fn first_line(s: &str) -> String {
    s.lines().next().unwrap_or("").chars().take(200).collect()
}

// ---------------------------------------------------------------------------------------------
// crash-isolated families: the binary re-executes itself as a worker (`tvh <ID> --worker ...`)

pub struct WorkerArgs {
    pub family: String,
    pub shard: u64,
    pub nshards: u64,
    pub seed: u64,
    pub tier: Tier,
    /// write every case to this file before executing it (used to pinpoint a crashing case)
    pub trace: Option<PathBuf>,
    pub out: PathBuf,
}
impl WorkerArgs {
    pub fn parse(args: &[String]) -> Option<WorkerArgs> {
        let mut it = args.iter();
        let family = it.next()?.clone();
        let shard = it.next()?.parse().ok()?;
        let nshards = it.next()?.parse().ok()?;
        let seed = it.next()?.parse().ok()?;
        let tier = if it.next()? == "thorough" { Tier::Thorough } else { Tier::Quick };
        let out = PathBuf::from(it.next()?);
        let trace = it.next().map(PathBuf::from);
        Some(WorkerArgs { family, shard, nshards, seed, tier, trace, out })
    }
    /// record the case about to be executed (only in trace mode)
    pub fn trace_case(&self, case: impl FnOnce() -> J) {
        if let Some(p) = &self.trace {
            let _ = std::fs::write(p, serde_json::to_string(&case()).unwrap_or_default());
        }
    }
}

/// What a worker reports back through its output file.
pub fn write_worker_result(out: &Path, l: &Local, fails: &[Fail]) {
    let j = json!({
        "evals": l.evals,
        "labels": l.labels,
        "samples": l.samples,
        "excluded": l.excluded_known,
        "discarded": l.discarded,
        "nontrivial": l.nontrivial.iter().map(|h| format!("{:x}", h)).collect::<Vec<_>>(),
        "fails": fails.iter().map(|f| json!({"signature": f.signature, "what": f.what, "case": f.case})).collect::<Vec<_>>(),
    });
    let _ = std::fs::write(out, j.to_string());
}

pub enum WorkerEnd {
    /// worker finished and wrote its result file
    Done,
    /// died by a signal / abnormal exit code: (description, last traced case if any)
    Crashed(String, Option<J>),
    TimedOut(Option<J>),
    /// the worker could not be started or waited for: says nothing about the code under test
    Infra(String),
}

fn spawn_worker(prop: &str, family: &str, shard: u64, nshards: u64, seed: u64, tier: Tier, out: &Path, trace: Option<&Path>, timeout_s: u64) -> WorkerEnd {
    use std::process::{Command, Stdio};
    let exe = std::env::current_exe().expect("current exe");
    let mut cmd = Command::new(exe);
    cmd.arg(prop).arg("--worker").arg(family).arg(shard.to_string()).arg(nshards.to_string()).arg(seed.to_string()).arg(tier.name()).arg(out);
    if let Some(t) = trace {
        cmd.arg(t);
    }
    cmd.stdout(Stdio::null()).stderr(Stdio::null());
    let _ = std::fs::remove_file(out);
    let mut child = match cmd.spawn() {
        Ok(c) => c,
        Err(e) => return WorkerEnd::Infra(format!("cannot spawn worker: {e}")),
    };
    let t0 = Instant::now();
    let traced = |trace: Option<&Path>| trace.and_then(|t| std::fs::read_to_string(t).ok()).and_then(|s| serde_json::from_str::<J>(&s).ok());
    loop {
        match child.try_wait() {
            Ok(Some(st)) => {
                use std::os::unix::process::ExitStatusExt;
                if st.success() && out.exists() {
                    return WorkerEnd::Done;
                }
                let desc = match (st.signal(), st.code()) {
                    (Some(s), _) => format!("killed by signal {s}{}", if s == 11 || s == 6 { " (stack overflow / abort)" } else { "" }),
                    (_, Some(c)) => format!("exit code {c}"),
                    _ => "unknown exit".to_string(),
                };
                return WorkerEnd::Crashed(desc, traced(trace));
            }
            Ok(None) => {
                if t0.elapsed().as_secs() > timeout_s {
                    let _ = child.kill();
                    let _ = child.wait();
                    return WorkerEnd::TimedOut(traced(trace));
                }
                std::thread::sleep(std::time::Duration::from_millis(20));
            }
            Err(e) => return WorkerEnd::Infra(format!("wait failed: {e}")),
        }
    }
}

/// Runs `family` in `nshards` worker subprocesses (in parallel). A shard that crashes or times out is
/// re-run alone in trace mode so that the offending case is known; `on_abnormal` turns it into a
/// violation / known finding / inconclusive note.
pub fn run_in_workers(rep: &Report, family: &str, nshards: u64, timeout_s: u64, on_abnormal: impl Fn(&Report, u64, &str, Option<J>, bool) + Sync) {
    let t0 = Instant::now();
    let dir = Path::new(VERIF_DIR).join("work");
    let _ = std::fs::create_dir_all(&dir);
    let par = n_workers() as u64;
    let next = AtomicU64::new(0);
    let total = AtomicU64::new(0);
    std::thread::scope(|sc| {
        for _ in 0..par.min(nshards) {
            let next = &next;
            let total = &total;
            let dir = &dir;
            let on_abnormal = &on_abnormal;
            sc.spawn(move || loop {
                let shard = next.fetch_add(1, AO::Relaxed);
                if shard >= nshards {
                    break;
                }
                let out = dir.join(format!("w_{}_{}_{}_{}.json", rep.prop, family, shard, std::process::id()));
                let mut end = spawn_worker(&rep.prop, family, shard, nshards, rep.seed, rep.tier, &out, None, timeout_s);
                if !matches!(end, WorkerEnd::Done | WorkerEnd::Infra(_)) {
                    // pinpoint: same shard, trace mode (generation is a pure function of the seed)
                    let tr = dir.join(format!("t_{}_{}_{}_{}.json", rep.prop, family, shard, std::process::id()));
                    let _ = std::fs::remove_file(&tr);
                    end = spawn_worker(&rep.prop, family, shard, nshards, rep.seed, rep.tier, &out, Some(&tr), timeout_s * 3);
                    let _ = std::fs::remove_file(&tr);
                }
                match end {
                    WorkerEnd::Done => {
                        if let Ok(txt) = std::fs::read_to_string(&out) {
                            if let Ok(j) = serde_json::from_str::<J>(&txt) {
                                let mut l = Local::new();
                                l.evals = j["evals"].as_u64().unwrap_or(0);
                                total.fetch_add(l.evals, AO::Relaxed);
                                l.excluded_known = j["excluded"].as_u64().unwrap_or(0);
                                l.discarded = j["discarded"].as_u64().unwrap_or(0);
                                if let Some(o) = j["labels"].as_object() {
                                    for (k, v) in o {
                                        l.labels.insert(k.clone(), v.as_u64().unwrap_or(0));
                                    }
                                }
                                for h in j["nontrivial"].as_array().cloned().unwrap_or_default() {
                                    if let Some(h) = h.as_str().and_then(|s| u64::from_str_radix(s, 16).ok()) {
                                        l.nontrivial.insert(h);
                                    }
                                }
                                l.samples = j["samples"].as_array().cloned().unwrap_or_default();
                                for f in j["fails"].as_array().cloned().unwrap_or_default() {
                                    rep.fail(Fail::new(f["signature"].as_str().unwrap_or("?"), f["what"].as_str().unwrap_or(""), f["case"].clone()));
                                }
                                rep.merge(l);
                            } else {
                                rep.inconclusive(&format!("{family}: worker {shard} wrote an unreadable result"));
                            }
                        }
                    }
                    WorkerEnd::Infra(why) => rep.inconclusive(&format!("{family}: worker {shard}: {why}")),
                    WorkerEnd::Crashed(desc, case) => on_abnormal(rep, shard, &desc, case, false),
                    WorkerEnd::TimedOut(case) => on_abnormal(rep, shard, "timed out", case, true),
                }
                let _ = std::fs::remove_file(&out);
            });
        }
    });
    rep.family_done(family, total.load(AO::Relaxed), t0, false);
}
