//! proptest strategies for statement trees over a small shared name pool, and the observation-point
//! instrumentation (DESIGN.md 1.3).
use crate::expr::*;
use crate::mval::*;
use crate::stmt::*;
use proptest::prelude::*;
use proptest::strategy::Union;

pub const NAMES: &[&str] = &["a", "b", "x", "i", "k", "g"];
pub fn name() -> impl Strategy<Value = String> {
    prop::sample::select(NAMES).prop_map(|s| s.to_string())
}
fn bx(e: E) -> Box<E> {
    Box::new(e)
}

/// small expressions over the name pool
pub fn simple_e(in_loop: bool) -> BoxedStrategy<E> {
    let loopf: BoxedStrategy<E> = if in_loop { prop::sample::select(vec!["index", "index0", "first", "last", "length"]).prop_map(E::Loop).boxed() } else { name().prop_map(E::Var).boxed() };
    let leaf = prop_oneof![
        5 => name().prop_map(E::Var),
        2 => (0i64..4).prop_map(E::Int),
        2 => prop::sample::select(vec!["<q>", "", "é", "xy", "a&b"]).prop_map(|s| E::Str(s.to_string())),
        1 => any::<bool>().prop_map(E::Bool),
        3 => loopf,
        1 => Just(E::Array(vec![Item::One(E::Int(1)), Item::One(E::Int(2))])),
        1 => Just(E::Array(vec![])),
        1 => Just(E::None),
    ];
    leaf.prop_recursive(2, 8, 2, |inner| {
        prop_oneof![
            2 => (inner.clone(), inner.clone()).prop_map(|(a, b)| E::Bin(Bin::Concat, bx(E::Filter(bx(a), "default".into(), vec![("value".into(), E::Str("-".into()))])), bx(E::Filter(bx(b), "str".into(), vec![])))),
            2 => (inner.clone(), inner.clone()).prop_map(|(a, b)| E::Bin(Bin::Add, bx(a), bx(b))),
            2 => (inner.clone(), inner.clone(), prop::sample::select(vec![Bin::Eq, Bin::Lt, Bin::Ge, Bin::Ne])).prop_map(|(a, b, op)| E::Bin(op, bx(E::Filter(bx(a), "default".into(), vec![("value".into(), E::Int(0))])), bx(E::Filter(bx(b), "default".into(), vec![("value".into(), E::Int(1))])))),
            1 => (inner.clone(), inner.clone(), any::<bool>()).prop_map(|(a, b, and)| E::Bin(if and { Bin::And } else { Bin::Or }, bx(a), bx(b))),
            2 => (inner.clone(), inner.clone()).prop_map(|(a, d)| E::Filter(bx(a), "default".into(), vec![("value".into(), d)])),
            1 => inner.clone().prop_map(|a| E::Test(bx(a), "defined".into(), vec![], false)),
            1 => inner.clone().prop_map(|a| E::Not(bx(a))),
            1 => inner.clone().prop_map(|a| E::Filter(bx(a), "safe".into(), vec![])),
            1 => inner.clone().prop_map(|a| E::Filter(bx(a), "length".into(), vec![])),
            1 => (inner.clone(), inner.clone(), inner.clone()).prop_map(|(c, a, b)| E::Ternary(bx(c), bx(a), bx(b))),
            1 => (inner.clone(), 0i64..3).prop_map(|(a, i)| E::Index(bx(a), bx(E::Int(i)), false)),
            1 => (name(), prop::sample::select(vec!["p", "q", "zz"])).prop_map(|(n, f)| E::Attr(bx(E::Var(n)), f.to_string(), false)),
        ]
    })
    .boxed()
}

fn text() -> impl Strategy<Value = S> {
    prop_oneof![3 => "[A-Z]{1,2}".prop_map(S::Text), 1 => Just(S::Text(" ".into())), 1 => Just(S::Text("<t>".into()))]
}
fn filter_name() -> impl Strategy<Value = (String, Kwargs)> {
    prop_oneof![
        3 => Just(("upper".to_string(), vec![])),
        2 => Just(("str".to_string(), vec![])),
        2 => Just(("length".to_string(), vec![])),
        2 => Just(("trim".to_string(), vec![])),
        1 => Just(("safe".to_string(), vec![])),
        1 => Just(("lower".to_string(), vec![])),
        2 => name().prop_map(|n| ("replace".to_string(), vec![("from".to_string(), E::Str("A".into())), ("to".to_string(), E::Filter(bx(E::Var(n)), "default".into(), vec![("value".into(), E::Str("<r>".into()))]))])),
        1 => Just(("escape_html".to_string(), vec![])),
    ]
}

#[derive(Debug, Clone, Copy)]
pub struct SOpts {
    /// names of templates that may be included from here
    pub includes: &'static [&'static str],
}

pub fn body(depth: u32, in_loop: bool, cap: bool, o: SOpts) -> BoxedStrategy<Vec<S>> {
    prop::collection::vec(stmt(depth, in_loop, cap, o), 0..4).boxed()
}

/// `cap_in_loop`: we are inside a capture that is itself inside the innermost loop (break/continue are illegal here)
pub fn stmt(depth: u32, in_loop: bool, cap_in_loop: bool, o: SOpts) -> BoxedStrategy<S> {
    let e = simple_e(in_loop);
    let mut opts: Vec<(u32, BoxedStrategy<S>)> = vec![
        (3, text().boxed()),
        (4, e.clone().prop_map(S::Print).boxed()),
        (3, (name(), e.clone(), prop::bool::weighted(0.3)).prop_map(|(n, e, g)| S::Set { name: n, e, global: g }).boxed()),
        (1, Just(S::Comment("note".into())).boxed()),
    ];
    if !o.includes.is_empty() {
        opts.push((2, prop::sample::select(o.includes).prop_map(|n| S::Include(n.to_string())).boxed()));
    }
    if in_loop && !cap_in_loop {
        opts.push((2, prop_oneof![Just(S::Break), Just(S::Continue)].boxed()));
    }
    if depth > 0 {
        opts.push((3, (prop::collection::vec((e.clone(), body(depth - 1, in_loop, cap_in_loop, o)), 1..3), prop::option::of(body(depth - 1, in_loop, cap_in_loop, o))).prop_map(|(a, b)| S::If(a, b)).boxed()));
        // loops: a fresh loop context (captures outside do not matter any more)
        opts.push((4, (name(), simple_e(in_loop), body(depth - 1, true, false, o), prop::option::of(body(depth - 1, in_loop, cap_in_loop, o))).prop_map(|(v, t, b, e)| S::For { key: None, val: v, target: t, body: b, els: e.filter(|x| !x.is_empty()) }).boxed()));
        // key/value loops over the map-valued names
        opts.push((1, (name(), name(), name(), body(depth - 1, true, false, o)).prop_filter("distinct names", |(k, v, _, _)| k != v).prop_map(|(k, v, t, b)| S::For { key: Some(k), val: v, target: E::Var(t), body: b, els: None }).boxed()));
        opts.push((2, (name(), prop::collection::vec(filter_name(), 0..3), body(depth - 1, in_loop, in_loop, o), prop::bool::weighted(0.3)).prop_map(|(n, f, b, g)| S::SetBlock { name: n, filters: f, body: b, global: g }).boxed()));
        opts.push((2, (filter_name(), body(depth - 1, in_loop, in_loop, o)).prop_map(|((n, k), b)| S::Filter { name: n, kwargs: k, body: b }).boxed()));
    }
    Union::new_weighted(opts).boxed()
}

/// observation point: prints every name of the pool (or a marker when undefined) and, inside a loop, the loop fields
pub fn obs(in_loop: bool) -> Vec<S> {
    let mut v = vec![S::Text("[".into())];
    for n in NAMES {
        v.push(S::Text(format!("{}=", n)));
        v.push(S::Print(E::Filter(bx(E::Var(n.to_string())), "default".into(), vec![("value".into(), E::Str("~".into()))])));
        v.push(S::Text(",".into()));
    }
    if in_loop {
        v.push(S::Text("L".into()));
        for f in ["index", "index0", "first", "last", "length"] {
            v.push(S::Print(E::Loop(f)));
            v.push(S::Text("/".into()));
        }
    }
    v.push(S::Text("]".into()));
    v
}

/// inserts an observation point at the start of every body and after every statement (except break/continue)
pub fn with_obs(b: Vec<S>, in_loop: bool) -> Vec<S> {
    let mut o = obs(in_loop);
    for s in b {
        let s = match s {
            S::If(a, e) => S::If(a.into_iter().map(|(c, b)| (c, with_obs(b, in_loop))).collect(), e.map(|b| with_obs(b, in_loop))),
            S::For { key, val, target, body, els } => S::For { key, val, target, body: with_obs(body, true), els: els.map(|b| with_obs(b, in_loop)) },
            S::SetBlock { name, filters, body, global } => S::SetBlock { name, filters, body: with_obs(body, in_loop), global },
            S::Filter { name, kwargs, body } => S::Filter { name, kwargs, body: with_obs(body, in_loop) },
            S::Block { name, body } => S::Block { name, body: with_obs(body, in_loop) },
            S::Comp { name, args, body } => S::Comp { name, args, body: body.map(|b| with_obs(b, in_loop)) },
            x => x,
        };
        let brk = matches!(s, S::Break | S::Continue);
        o.push(s);
        if !brk {
            o.extend(obs(in_loop));
        }
    }
    o
}

pub fn ctx_value() -> BoxedStrategy<MVal> {
    prop_oneof![
        4 => (0i128..4).prop_map(MVal::Int),
        3 => prop::sample::select(vec!["<c>", "", "ab", "日本", "A&A"]).prop_map(MVal::s),
        2 => Just(MVal::Array(vec![MVal::Int(7), MVal::s("<z>"), MVal::Int(9)])),
        1 => Just(MVal::Array(vec![])),
        1 => Just(MVal::Array(vec![MVal::Array(vec![MVal::Int(1)]), MVal::s("é")])),
        1 => Just(MVal::Str("<safe>".into(), true)),
        1 => Just(MVal::None),
        1 => Just(MVal::smap(vec![("p", MVal::Int(5))])),
        1 => Just(MVal::smap(vec![])),
        1 => Just(MVal::smap(vec![("p", MVal::s("<m>")), ("q", MVal::Int(2)), ("r", MVal::None)])),
        1 => Just(MVal::Float(1.5)),
        1 => Just(MVal::Bool(true)),
    ]
    .boxed()
}
pub fn ctxs() -> impl Strategy<Value = (Ctx, Ctx)> {
    (prop::collection::btree_map(name(), ctx_value(), 0..5), prop::collection::btree_map(name(), ctx_value(), 0..4))
}

/// Are there loops over a map with >= 2 entries somewhere (iteration order unspecified)? The model
/// cannot know statically, so the interpreter flags it at run time; this helper is for generators
/// that want to avoid order-sensitive bodies.
pub fn has_kv_loop(b: &[S]) -> bool {
    b.iter().any(|s| match s {
        S::For { key, body, els, .. } => key.is_some() || has_kv_loop(body) || els.as_ref().map_or(false, |e| has_kv_loop(e)),
        S::If(a, e) => a.iter().any(|(_, b)| has_kv_loop(b)) || e.as_ref().map_or(false, |e| has_kv_loop(e)),
        S::SetBlock { body, .. } | S::Filter { body, .. } | S::Block { body, .. } => has_kv_loop(body),
        _ => false,
    })
}
