//! C06 — Registering any source text ends in Ok or Err: no panic, hang or stack overflow.
//! Every family runs in worker subprocesses so that an abort (stack overflow) is observed, pinpointed
//! and reported instead of killing the check.
use crate::core::*;
use proptest::prelude::*;
use serde_json::json;

use super::c08::{delims_strategy, Delims};

const KEYWORDS: &[&str] = &["if", "elif", "else", "endif", "for", "in", "endfor", "set", "set_global", "endset", "filter", "endfilter", "block", "endblock", "extends", "include", "raw", "endraw", "component", "endcomponent", "break", "continue", "is", "not", "and", "or", "none", "true", "false", "loop", "super", "body", "self", "null", "True", "None"];
const OPERATORS: &[&str] = &["+", "-", "*", "/", "//", "%", "**", "~", "|", "==", "!=", "<", "<=", ">", ">=", "=", "!", ".", "?.", "?[", "[", "]", "(", ")", "{", "}", ",", ":", "...", "</", "/>", "<", ">", "?", ";", "@", "$", "\\", "&&", "||", "::", ".."];
const LITERALS: &[&str] = &["0", "1", "42", "007", "1.5", "1.", ".5", "1.2.3", "1e5", "99999999999999999999", "9223372036854775807", "9223372036854775808", "0x1f", "1_000", "\"", "'", "`", "\"a\"", "'b'", "`c`", "\"\\n\"", "\"\\q\"", "\"\\", "'}}'", "\"{%\"", "a", "b", "x", "_", "a1", "é", "日本", "😀", "e\u{301}", "\u{a0}", "\u{200b}", "\u{feff}", "\0", "\r", "\u{2028}", "Ａ", "ﬁ"];

fn lexeme(d: &Delims) -> BoxedStrategy<String> {
    let ds: Vec<String> = d.all().iter().map(|s| s.to_string()).collect();
    let mut delims: Vec<String> = ds.clone();
    for s in &ds {
        delims.push(format!("{s}-"));
        delims.push(format!("-{s}"));
        let c: Vec<char> = s.chars().collect();
        if c.is_empty() {
            continue;
        }
        delims.push(c[0].to_string());
        if c.len() > 1 {
            delims.push(c[1].to_string());
        } else {
            // half of a two-byte character cannot be spelled in valid UTF-8: use a neighbour instead
            let b = s.as_bytes();
            if b.len() == 2 {
                if let Ok(n) = String::from_utf8(vec![b[0], b[1] ^ 1]) {
                    delims.push(n);
                }
            }
        }
    }
    prop_oneof![
        8 => prop::sample::select(delims),
        6 => prop::sample::select(KEYWORDS).prop_map(|s| s.to_string()),
        6 => prop::sample::select(OPERATORS).prop_map(|s| s.to_string()),
        5 => prop::sample::select(LITERALS).prop_map(|s| s.to_string()),
        3 => prop::sample::select(vec![" ", "  ", "\n", "\t", "\r\n", ""]).prop_map(|s| s.to_string()),
        1 => any::<char>().prop_map(|c| c.to_string()),
        1 => "[a-z]{1,8}",
        2 => prop::sample::select(vec!["{% if a %}", "{% endif %}", "{% for x in y %}", "{% endfor %}", "{{ a }}", "{% raw %}", "{% endraw %}", "{# c #}", "{% set a = 1 %}", "{% block b %}", "{% endblock %}", "{% extends \"p\" %}", "{% include \"i\" %}", "{% component c(a, b=1) %}", "{% endcomponent %}", "{{ <C a=1 /> }}", "{% <C> %}", "{% </C> %}", "{% filter upper %}", "{% endfilter %}", "{% set a %}", "{% endset %}", "{% else %}", "{% elif a %}", "{% break %}", "{% continue %}", "{{ super() }}", "[x for x in y if z]", "a if b else c", "{...m, \"k\": 1}", "f(a=1, b=2)"]).prop_map(|s| s.to_string()),
    ]
    .boxed()
}
pub fn soup(d: Delims) -> BoxedStrategy<String> {
    // most inputs open a tag or an expression so that they get past the lexer into the parser
    (prop::collection::vec(lexeme(&d), 0..40), any::<u8>()).prop_map(move |(v, mode)| {
        let body = v.join(if mode % 3 == 0 { "" } else { " " });
        match mode % 7 {
            0 | 1 => format!("{} {} {}", d.vs, body, d.ve),
            2 | 3 => format!("{} {} {}", d.bs, body, d.be),
            4 => format!("{} {}", d.vs, body),
            _ => body,
        }
    }).boxed()
}

#[derive(Debug, Clone, PartialEq)]
enum Outcome {
    Ok,
    Syntax,
    Other,
}
/// the oracle: registration returns; the error formats; a one-off render returns too
fn register(name: &str, src: &str, d: Option<&Delims>) -> Result<Outcome, String> {
    guard(|| {
        let mut t = tera::Tera::new();
        if let Some(d) = d {
            if let Err(e) = t.set_delimiters(d.tera()) {
                let _ = e.to_string();
                return Outcome::Other;
            }
        }
        let out = match t.add_raw_template(name, src) {
            Ok(()) => Outcome::Ok,
            Err(e) => {
                let _ = e.to_string();
                let _ = format!("{:?}", e);
                match e.kind() {
                    tera::ErrorKind::SyntaxError(_) => Outcome::Syntax,
                    _ => Outcome::Other,
                }
            }
        };
        // one-off rendering parses the same way; only run it when no loop can make a legitimate render long
        if !src.contains("for") && !src.contains("range") && src.len() < 2000 {
            if let Err(e) = t.render_str(src, &tera::Context::new(), true) {
                let _ = e.to_string();
            }
        }
        out
    })
}
pub fn check_source(name: &str, src: &str, d: Option<&Delims>, family: &str, l: &mut Local) -> Check {
    l.eval();
    match register(name, src, d) {
        Ok(o) => {
            l.label(match o {
                Outcome::Ok => "outcome:accepted",
                Outcome::Syntax => "outcome:syntax-error",
                Outcome::Other => "outcome:other-error",
            });
            let dd = Delims::default();
            let dl = d.unwrap_or(&dd);
            if dl.starts().iter().any(|s| src.contains(s)) {
                l.nontrivial(hash_str(src));
            }
            if !src.is_ascii() {
                l.label("input:multibyte");
            }
            l.sample(|| json!({"family": family, "source": src.chars().take(200).collect::<String>(), "outcome": format!("{:?}", o)}));
            Ok(())
        }
        Err(p) => Err(Fail::new("C06/panic", format!("registering {:?} panicked: {p}", src.chars().take(300).collect::<String>()), json!({"kind": "register", "name": name, "source": src, "delimiters": d.map(|d| d.json())}))),
    }
}

pub fn seed_sources() -> Vec<String> {
    fn walk(p: &std::path::Path, out: &mut Vec<String>) {
        if let Ok(rd) = std::fs::read_dir(p) {
            let mut es: Vec<_> = rd.flatten().map(|e| e.path()).collect();
            es.sort();
            for e in es {
                if e.is_dir() {
                    walk(&e, out);
                } else if e.extension().map_or(false, |x| x == "txt" || x == "html") {
                    if let Ok(s) = std::fs::read_to_string(&e) {
                        out.push(s);
                    }
                }
            }
        }
    }
    let mut v = vec![];
    walk(std::path::Path::new("/repo/tera/src/snapshot_tests"), &mut v);
    v.retain(|s| s.len() < 6000);
    v
}

/// splits on character boundaries into "tokens" (runs of alphanumerics, single other characters)
fn tokens(s: &str) -> Vec<&str> {
    let mut out = vec![];
    let mut start = 0;
    let mut prev_word = false;
    for (i, c) in s.char_indices() {
        let w = c.is_alphanumeric() || c == '_';
        if i > start && !(w && prev_word) {
            out.push(&s[start..i]);
            start = i;
        }
        prev_word = w;
    }
    if start < s.len() {
        out.push(&s[start..]);
    }
    out
}
pub fn mutate(src: &str, other: &str, ops: &[(u8, u16, u16)]) -> String {
    let mut toks: Vec<String> = tokens(src).into_iter().map(|s| s.to_string()).collect();
    let o: Vec<&str> = tokens(other);
    for (op, a, b) in ops {
        if toks.is_empty() {
            break;
        }
        let i = (*a as usize * toks.len()) >> 16;
        let j = (*b as usize * toks.len()) >> 16;
        match op % 7 {
            0 => {
                toks.remove(i);
            }
            1 => {
                let t = toks[i].clone();
                toks.insert(i, t);
            }
            2 => toks.swap(i, j),
            3 => {
                // splice a slice of the other source
                if !o.is_empty() {
                    let x = (*b as usize * o.len()) >> 16;
                    let y = (x + 1 + (*a as usize % 8)).min(o.len());
                    for (k, t) in o[x..y].iter().enumerate() {
                        toks.insert((i + k).min(toks.len()), t.to_string());
                    }
                }
            }
            4 => toks.truncate(i),
            5 => {
                toks[i] = ["{{", "}}", "{%", "%}", "{#", "#}", "-", "\"", "(", "[", "é", "", "0", "...", "<", "/>"][*b as usize % 16].to_string();
            }
            _ => {
                let (lo, hi) = (i.min(j), i.max(j));
                let seg: Vec<String> = toks[lo..hi.min(lo + 6)].to_vec();
                for (k, t) in seg.into_iter().enumerate() {
                    toks.insert(hi + k, t);
                }
            }
        }
    }
    toks.concat()
}

// ------------------------------------------------------------------------------------------
// deep / flat / chain shapes

#[derive(Debug, Clone)]
pub struct Shape {
    pub kind: &'static str,
    pub form: String,
    pub n: usize,
}
fn rep_s(s: &str, n: usize) -> String {
    s.repeat(n)
}
pub fn shape_source(s: &Shape) -> String {
    let n = s.n;
    let e = |x: String| format!("{{{{ {x} }}}}");
    match (s.kind, s.form.as_str()) {
        ("nest", "parens") => e(format!("{}1{}", rep_s("(", n), rep_s(")", n))),
        ("nest", "arrays") => e(format!("{}1{}", rep_s("[", n), rep_s("]", n))),
        ("nest", "maps") => e(format!("{}1{}", rep_s("{\"a\": ", n), rep_s(" }", n))),
        ("nest", "subscripts") => e(format!("{}0{}", rep_s("a[", n), rep_s("]", n))),
        ("nest", "opt-subscripts") => e(format!("{}0{}", rep_s("a?[", n), rep_s("]", n))),
        ("nest", "slices") => e(format!("{}0{}", rep_s("a[1:", n), rep_s("]", n))),
        ("nest", "ternary-then") => e(format!("{}1{}", rep_s("(", n), rep_s(" if 1 else 2)", n))),
        ("nest", "ternary-cond") => e(format!("1{}", rep_s(" if 1", n)) + &rep_s(" else 2", n)),
        ("nest", "ternary-else") => e(format!("{}3", rep_s("1 if 0 else ", n))),
        ("nest", "unary-minus") => e(format!("{}1", rep_s("-", n))),
        ("nest", "unary-not") => e(format!("{}1", rep_s("not ", n))),
        ("nest", "unary-minus-parens") => e(format!("{}1{}", rep_s("-(", n), rep_s(")", n))),
        ("nest", "not-minus-alternating") => e(format!("{}1", rep_s("not - ", n))),
        ("nest", "fn-kwargs") => e(format!("{}1{}", rep_s("range(end=", n), rep_s(")", n))),
        ("nest", "filter-kwargs") => e(format!("{}1{}", rep_s("1 | default(value=", n), rep_s(")", n))),
        ("nest", "test-kwargs") => e(format!("{}1{}", rep_s("1 is divisible_by(divisor=", n), rep_s(")", n))),
        ("nest", "comprehension-target") => e(format!("{}[]{}", rep_s("[x for x in ", n), rep_s("]", n))),
        ("nest", "comprehension-element") => e(format!("{}1{}", rep_s("[", n), rep_s(" for x in []]", n))),
        ("nest", "spread-arrays") => e(format!("{}[]{}", rep_s("[...", n), rep_s("]", n))),
        ("nest", "spread-maps") => e(format!("{}a{}", rep_s("{...", n), rep_s(" }", n))),
        ("nest", "if-tags") => format!("{}x{}", rep_s("{% if a %}", n), rep_s("{% endif %}", n)),
        ("nest", "for-tags") => format!("{}x{}", rep_s("{% for i in a %}", n), rep_s("{% endfor %}", n)),
        ("nest", "filter-tags") => format!("{}x{}", rep_s("{% filter upper %}", n), rep_s("{% endfilter %}", n)),
        ("nest", "set-block-tags") => format!("{}x{}", rep_s("{% set a %}", n), rep_s("{% endset %}", n)),
        ("nest", "block-tags") => (0..n).map(|i| format!("{{% block b{i} %}}")).collect::<String>() + "x" + &rep_s("{% endblock %}", n),
        ("nest", "component-call-bodies") => format!("{{% component c() %}}{{{{ body }}}}{{% endcomponent %}}{}x{}", rep_s("{% <c> %}", n), rep_s("{% </c> %}", n)),
        ("nest", "inline-component-args") => format!("{{% component c(a=1) %}}y{{% endcomponent %}}{{{{ {}1{} }}}}", rep_s("<c a={", n), rep_s("} />", n)),
        ("nest", "else-if-tags") => format!("{}x{}", rep_s("{% if a %}y{% else %}", n), rep_s("{% endif %}", n)),
        ("nest", "for-else-tags") => format!("{}x{}", rep_s("{% for i in a %}y{% else %}", n), rep_s("{% endfor %}", n)),
        ("nest", "mixed-brackets") => e(format!("{}1{}", rep_s("([{\"k\": (", n), rep_s(")}])", n))),
        ("flat", "expressions") => rep_s("{{ 1 }}", n),
        ("flat", "assignments") => rep_s("{% set a = 1 %}", n),
        ("flat", "blocks") => (0..n).map(|i| format!("{{% block b{i} %}}x{{% endblock %}}")).collect(),
        ("flat", "component-definitions") => (0..n).map(|i| format!("{{% component c{i}(a=1) %}}x{{% endcomponent %}}")).collect(),
        ("flat", "comments") => rep_s("{# c #}", n),
        ("flat", "raw-blocks") => rep_s("{% raw %}{{ x }}{% endraw %}", n),
        ("flat", "array-literal") => e(format!("[{}]", rep_s("1, ", n))),
        ("flat", "map-literal") => e(format!("{{{} }}", (0..n).map(|i| format!("\"k{i}\": 1, ")).collect::<String>())),
        ("flat", "kwargs") => e(format!("range({})", (0..n).map(|i| format!("a{i}=1, ")).collect::<String>() + "end=1")),
        ("flat", "long-string") => e(format!("\"{}\"", rep_s("ab", n))),
        ("flat", "long-text") => rep_s("text é ", n),
        ("flat", "long-identifier") => e(rep_s("a", n)),
        ("flat", "long-number") => e(rep_s("9", n.min(5000))),
        ("flat", "ifs") => rep_s("{% if a %}x{% endif %}", n),
        ("flat", "includes") => rep_s("{% include \"x\" %}", n),
        ("flat", "unknown-filters") => rep_s("{{ 1 | nope }}", n),
        ("flat", "component-calls") => format!("{{% component c(a=1) %}}x{{% endcomponent %}}{}", rep_s("{{ <c a=2 /> }}", n)),
        ("flat", "unterminated-tags") => rep_s("{% if a %}", n),
        ("flat", "stray-ends") => format!("{{% if a %}}{}", rep_s("{% else %}", n)),
        ("chain", "binary") => e(format!("1{}", rep_s(" + 1", n))),
        ("chain", "logic") => e(format!("a{}", rep_s(" and a", n))),
        ("chain", "concat") => e(format!("a{}", rep_s(" ~ a", n))),
        ("chain", "comparison") => e(format!("a{}", rep_s(" == a", n))),
        ("chain", "in") => e(format!("a{}", rep_s(" in a", n))),
        ("chain", "power") => e(format!("1{}", rep_s(" ** 1", n))),
        ("chain", "filter") => e(format!("a{}", rep_s(" | str", n))),
        ("chain", "test") => e(format!("a{}", rep_s(" is defined", n))),
        ("chain", "subscript") => e(format!("a{}", rep_s("[0]", n))),
        ("chain", "attr") => e(format!("a{}", rep_s(".b", n))),
        ("chain", "opt-attr") => e(format!("a{}", rep_s("?.b", n))),
        ("chain", "elif") => format!("{{% if a %}}x{}{{% endif %}}", rep_s("{% elif a %}x", n)),
        _ => String::new(),
    }
}
pub fn all_shapes(tier: Tier) -> Vec<Shape> {
    let mut v = vec![];
    let depths: &[usize] = if tier == Tier::Thorough { &[3, 10, 39, 40, 41, 42, 100, 1000, 10_000, 100_000, 1_000_000] } else { &[3, 10, 39, 40, 41, 42, 100, 1000, 10_000, 100_000] };
    for f in ["parens", "arrays", "maps", "subscripts", "opt-subscripts", "slices", "ternary-then", "ternary-cond", "ternary-else", "unary-minus", "unary-not", "unary-minus-parens", "not-minus-alternating", "fn-kwargs", "filter-kwargs", "test-kwargs", "comprehension-target", "comprehension-element", "spread-arrays", "spread-maps", "if-tags", "for-tags", "filter-tags", "set-block-tags", "block-tags", "component-call-bodies", "inline-component-args", "else-if-tags", "for-else-tags", "mixed-brackets"] {
        for d in depths {
            v.push(Shape { kind: "nest", form: f.to_string(), n: *d });
        }
    }
    for f in ["expressions", "assignments", "blocks", "component-definitions", "comments", "raw-blocks", "array-literal", "map-literal", "kwargs", "long-string", "long-text", "long-identifier", "long-number", "ifs", "includes", "unknown-filters", "component-calls", "unterminated-tags", "stray-ends"] {
        for n in [1000usize, 100_000] {
            // many unknown references on one line: excluded at large sizes (known finding F17, probed separately)
            if n > 1000 && matches!(f, "includes" | "unknown-filters") {
                continue;
            }
            v.push(Shape { kind: "flat", form: f.to_string(), n });
        }
    }
    for f in ["binary", "logic", "concat", "comparison", "in", "power", "filter", "test", "subscript", "attr", "opt-attr", "elif"] {
        for n in [24usize, 100, 1000, 4000, 20_000, 100_000] {
            v.push(Shape { kind: "chain", form: f.to_string(), n });
        }
    }
    v
}

// ------------------------------------------------------------------------------------------
// worker side

const INPROC: &[&str] = &["soup", "soup_custom_delimiters", "any_delimiters", "mutate", "truncate", "names"];
/// delimiter candidates of every length and shape: whatever `set_delimiters` accepts must then be safe to use
const DELIM_CANDIDATES: &[&str] = &["", "#", "{", "}", "%", "{{", "}}", "{%", "%}", "{#", "#}", "<<", ">>", "[[", "]]", "\u{e9}", "\u{e9}\u{e9}", "\u{65e5}", "ab", "abc", "  ", "--", "{-", "-}", "\u{a0}\u{a0}", "<!--", "-->", "$$", "\u{1f600}", "{{{", "#}}"];

pub fn worker(w: &WorkerArgs) -> i32 {
    std::env::set_var("VERIF_WORKERS", "1");
    let mut rep = Report::new("C06", w.tier, w.seed);
    rep.strict = true; // never writes evidence, known findings handled by the supervisor
    let fam = format!("{}#{}", w.family, w.shard);
    let quick = |n: u64| w.tier.scale(n, 20) / w.nshards.max(1);
    match w.family.as_str() {
        "soup" => run_family(&rep, &fam, quick(1_200_000), || soup(Delims::default()), |s, l| {
            w.trace_case(|| json!({"source": s}));
            check_source("t.html", s, None, "soup", l)
        }),
        "soup_custom_delimiters" => run_family(&rep, &fam, quick(400_000), || delims_strategy().prop_flat_map(|d| (soup(d.clone()), Just(d))), |(s, d), l| {
            w.trace_case(|| json!({"source": s, "delimiters": d.json()}));
            l.label("delims:custom");
            check_source("t", s, Some(d), "soup_custom_delimiters", l)
        }),
        "any_delimiters" => run_family(&rep, &fam, quick(300_000), || prop::collection::vec(prop_oneof![4 => prop::sample::select(DELIM_CANDIDATES.iter().copied().filter(|c| c.len() == 2).collect::<Vec<_>>()), 1 => prop::sample::select(DELIM_CANDIDATES)], 6).prop_map(|v| Delims { bs: v[0].into(), be: v[1].into(), vs: v[2].into(), ve: v[3].into(), cs: v[4].into(), ce: v[5].into() }).prop_flat_map(|d| (soup(d.clone()), prop::sample::select(vec!["", "x", " {# c #} ", "{# c #}{{ a }}{% if a %}b{% endif %}", "\u{e9}{#-c-#}\u{65e5}"]), Just(d))), |(s, extra, d), l| {
            // the comment/tag spellings of `extra` are re-spelled with the candidate delimiters
            let extra = extra.replace("{#", &d.cs).replace("#}", &d.ce).replace("{{", &d.vs).replace("}}", &d.ve).replace("{%", &d.bs).replace("%}", &d.be);
            let src = format!("{s}{extra}");
            w.trace_case(|| json!({"source": src, "delimiters": d.json()}));
            let accepted = guard(|| tera::Tera::new().set_delimiters(d.tera()).is_ok()).unwrap_or(false);
            l.label(if accepted { "delims:arbitrary-accepted" } else { "delims:arbitrary-refused" });
            check_source("t", &src, Some(d), "any_delimiters", l)
        }),
        "mutate" => {
            let seeds = seed_sources();
            if seeds.is_empty() {
                return 3;
            }
            let n = seeds.len();
            run_family(&rep, &fam, quick(800_000), || (0..n, 0..n, prop::collection::vec((any::<u8>(), any::<u16>(), any::<u16>()), 1..4)), |(i, j, ops), l| {
                let s = mutate(&seeds[*i], &seeds[*j], ops);
                w.trace_case(|| json!({"source": s}));
                check_source("m.html", &s, None, "mutate", l)
            })
        }
        "truncate" => {
            // exhaustive: every prefix (on a character boundary) of every seed file; sharded by file index
            let seeds = seed_sources();
            let mine: Vec<&String> = seeds.iter().enumerate().filter(|(i, _)| *i as u64 % w.nshards == w.shard).map(|(_, s)| s).collect();
            let cases: Vec<(usize, usize)> = mine.iter().enumerate().flat_map(|(fi, s)| s.char_indices().map(move |(i, _)| (fi, i)).chain(std::iter::once((fi, s.len())))).collect();
            run_enum(&rep, &fam, &cases, |(fi, cut), l| {
                let s = &mine[*fi][..*cut];
                w.trace_case(|| json!({"source": s}));
                l.label("prefix");
                check_source("p.html", s, None, "truncate", l)
            });
        }
        "names" => run_family(&rep, &fam, quick(100_000), || (prop_oneof![Just(String::new()), "[a-z./]{0,12}", any::<String>(), Just("a.html".to_string()), Just("日本.xml".to_string()), Just("../x".to_string()), Just("\0".to_string())], soup(Delims::default())), |(name, s), l| {
            w.trace_case(|| json!({"name": name, "source": s}));
            l.label("name:generated");
            check_source(name, s, None, "names", l)
        }),
        "deep" => {
            // one shape per worker process, on a thread with the reference stack of 8 MiB
            let shapes = all_shapes(w.tier);
            let Some(sh) = shapes.get(w.shard as usize).cloned() else { return 2 };
            let src = shape_source(&sh);
            let h = std::thread::Builder::new().stack_size(8 << 20).spawn(move || {
                let mut l = Local::new();
                let r = check_source("d.html", &src, None, "deep", &mut l);
                // accepted shapes of moderate size are rendered too (must terminate with text or an error)
                if r.is_ok() && sh.n <= 1000 {
                    let _ = guard(|| {
                        let mut t = tera::Tera::new();
                        if t.add_raw_template("d.html", &src).is_ok() {
                            let mut c = tera::Context::new();
                            c.insert("a", &vec![1]);
                            let _ = t.render("d.html", &c).map_err(|e| e.to_string());
                        }
                    });
                }
                l.label(&format!("shape:{}", sh.kind));
                l.nontrivial(hash_of(&(sh.kind, sh.form.clone(), sh.n)));
                (l, r)
            });
            let (l, r) = match h.unwrap().join() {
                Ok(x) => x,
                Err(_) => return 101,
            };
            let fails: Vec<Fail> = r.err().into_iter().collect();
            write_worker_result(&w.out, &l, &fails);
            return 0;
        }
        _ => return 2,
    }
    // collect what the in-process families accumulated
    let mut l = Local::new();
    l.evals = rep.evals.load(std::sync::atomic::Ordering::Relaxed);
    l.labels = rep.labels.lock().unwrap().clone();
    l.nontrivial = rep.nontrivial.lock().unwrap().clone();
    l.samples = rep.samples.lock().unwrap().iter().take(2).cloned().collect();
    l.discarded = rep.discarded.load(std::sync::atomic::Ordering::Relaxed);
    l.excluded_known = rep.excluded_known.load(std::sync::atomic::Ordering::Relaxed);
    let fails: Vec<Fail> = rep.violations.lock().unwrap().clone();
    if !rep.inconclusive.lock().unwrap().is_empty() {
        return 4;
    }
    write_worker_result(&w.out, &l, &fails);
    0
}

// ------------------------------------------------------------------------------------------
// supervisor side

pub fn run(rep: &Report) {
    rep.set_rule("inputs: (1) token soup — sequences of <= 40 lexemes (the six delimiters with and without `-`, half delimiters, every keyword, operators, brackets, `...`, `?.`, `?[`, `</`, `/>`, string openers of the three kinds with escapes, numbers incl. 20-digit and `1.2.3`, identifiers, 2-/3-/4-byte and combining characters, whole tags) mostly wrapped in an open expression or tag; (2) the same under generated accepted delimiter sets; (3) token-level mutations and splices of the repository's snapshot inputs; (4) every prefix of every snapshot input (exhaustive); (5) generated template names; (6) deep/flat/chain shapes: 30 nesting forms at depths 3..100000, 18 flat shapes of size 1000 and 100000, 12 chain forms at lengths 24..100000, each in its own process on an 8 MiB stack. Oracle: registration (and a one-off render when no loop is present) returns Ok or Err, the error formats, no panic; a worker killed by a signal or timing out is pinpointed by re-running its shard in trace mode. Non-trivial: the input contains a start delimiter; distinct by source.");
    rep.assume("reference environment for crash-class claims: optimised build, 8 MiB stack (deep family) / 256 MiB stacks (random families, whose chains are bounded by the 40-lexeme limit), 60 s per worker shard; a timeout is reported as inconclusive, never as a violation");
    // known findings with a fixed probe
    for k in rep.known.iter().filter(|k| k.status == "open") {
        if k.signature == "C06/resource-exhaustion/quadratic-reference-report" {
            // 3000 missing includes on one line: the error text quotes the whole line once per occurrence
            let src = "{% include \"x\" %}".repeat(3000);
            let len = guard(|| tera::Tera::new().add_raw_template("a", &src).err().map(|e| e.to_string().len()).unwrap_or(0)).unwrap_or(0);
            rep.extra("f17_probe_error_text_bytes", json!(len));
            rep.excluded_known.fetch_add(2, std::sync::atomic::Ordering::Relaxed);
            if len > 50 * src.len() {
                rep.fail(Fail::new(k.signature.clone(), format!("registering {} bytes with 3000 unknown includes on one line builds an error text of {} bytes", src.len(), len), json!({"kind": "probe", "what": "f17"})));
            }
        }
    }
    let nshards = 16;
    let generic = |family: &'static str| {
        move |rep: &Report, shard: u64, desc: &str, case: Option<serde_json::Value>, timed_out: bool| {
            if timed_out {
                rep.inconclusive(&format!("{family} shard {shard} timed out (last case: {})", case.map(|c| c.to_string().chars().take(300).collect::<String>()).unwrap_or_default()));
                return;
            }
            let mut c = case.unwrap_or(json!({}));
            c["kind"] = json!("register");
            rep.fail(Fail::new("C06/crash", format!("{family} shard {shard}: worker {desc} while registering {}", c.to_string().chars().take(400).collect::<String>()), c));
        }
    };
    for fam in INPROC {
        let f: &'static str = fam;
        run_in_workers(rep, f, nshards, 300, generic(f));
    }
    // cost growth of registering layered acyclic include graphs (judged by growth, see c11::check_layered_growth):
    // registration must not take a number of steps exponential in the depth of an acyclic set
    {
        let mut l = Local::new();
        if let Err(f) = super::c11::check_layered_growth(&mut l) {
            rep.fail(Fail::new(f.signature.replace("C11/", "C06/"), f.what, f.case));
        }
        rep.merge(l);
    }
    // deep shapes: one process per shape
    let shapes = all_shapes(rep.tier);
    rep.extra("shapes", json!(shapes.len()));
    let shapes_ref = &shapes;
    run_in_workers(rep, "deep", shapes.len() as u64, 120, move |rep: &Report, shard: u64, desc: &str, _case, timed_out: bool| {
        let sh = &shapes_ref[shard as usize];
        let case = json!({"kind": "shape", "shape_kind": sh.kind, "form": sh.form, "n": sh.n});
        if timed_out {
            rep.inconclusive(&format!("deep shape {}:{} n={} timed out", sh.kind, sh.form, sh.n));
            return;
        }
        let sig = if sh.kind == "chain" { format!("C06/stack-overflow/chain:{}", sh.form) } else { format!("C06/crash/{}:{}", sh.kind, sh.form) };
        rep.fail(Fail::new(sig, format!("registering the {} shape `{}` of size {} : worker {desc}", sh.kind, sh.form, sh.n), case));
    });
    for (lab, min) in [("outcome:accepted", 50_000), ("outcome:syntax-error", 500_000), ("input:multibyte", 200_000), ("delims:custom", 100_000), ("delims:arbitrary-accepted", 5_000), ("delims:arbitrary-refused", 50_000), ("prefix", 20_000), ("shape:nest", 200), ("shape:flat", 30), ("shape:chain", 12)] {
        rep.floor(lab, min);
    }
}

pub fn replay(_rep: &Report, case: &serde_json::Value) -> Option<Check> {
    if case.get("kind").and_then(|x| x.as_str()) == Some("layered") {
        let mut l = Local::new();
        return Some(super::c11::check_layered_growth(&mut l).map_err(|f| Fail::new(f.signature.replace("C11/", "C06/"), f.what, f.case)));
    }
    // replays run in this process: a crash-class case will kill the replay, which the exit status shows
    let mut l = Local::new();
    match case.get("kind")?.as_str()? {
        "register" => {
            let d = case.get("delimiters").and_then(Delims::from_json);
            Some(check_source(case.get("name").and_then(|x| x.as_str()).unwrap_or("t.html"), case.get("source")?.as_str()?, d.as_ref(), "replay", &mut l))
        }
        "shape" => {
            let kind: &'static str = match case.get("shape_kind")?.as_str()? {
                "nest" => "nest",
                "flat" => "flat",
                _ => "chain",
            };
            let sh = Shape { kind, form: case.get("form")?.as_str()?.to_string(), n: case.get("n")?.as_u64()? as usize };
            let src = shape_source(&sh);
            let h = std::thread::Builder::new().stack_size(8 << 20).spawn(move || {
                let mut l = Local::new();
                check_source("d.html", &src, None, "replay", &mut l)
            });
            Some(h.ok()?.join().unwrap_or_else(|_| Err(Fail::new("C06/panic", "panic", case.clone()))))
        }
        _ => None,
    }
}
