//! C13 — Integer arithmetic is exact or an error; mixed comparisons are exact.
use crate::core::*;
use crate::mval::*;
use proptest::prelude::*;
use serde_json::json;
use std::cmp::Ordering;

pub const ARITH: [&str; 7] = ["+", "-", "*", "/", "//", "%", "**"];
pub const CMP: [&str; 6] = ["==", "!=", "<", "<=", ">", ">="];

/// a number together with the encoding it is handed to the engine in
#[derive(Debug, Clone, PartialEq)]
pub enum Num {
    /// value, encoding 0=I64 1=U64 2=I128 3=U128
    I(i128, u8),
    Big(u128),
    F(f64),
}
impl Num {
    pub fn mval(&self) -> MVal {
        match self {
            Num::I(i, _) => MVal::Int(*i),
            Num::Big(b) => MVal::Big(*b),
            Num::F(f) => MVal::Float(*f),
        }
    }
    pub fn tera(&self) -> tera::Value {
        match self {
            Num::I(i, e) => int_to_tera(*i, *e),
            Num::Big(b) => tera::Value::from(*b),
            Num::F(f) => tera::Value::from(*f),
        }
    }
    pub fn json(&self) -> serde_json::Value {
        match self {
            Num::I(i, e) => {
                let en = ["i64", "u64", "i128", "u128"][*e as usize];
                json!({"int": i.to_string(), "enc": en})
            }
            Num::Big(b) => json!({"int": b.to_string(), "enc": "u128"}),
            Num::F(f) => json!({"float": format!("{:?}", f), "bits": format!("{:016x}", f.to_bits())}),
        }
    }
    pub fn from_json(j: &serde_json::Value) -> Option<Num> {
        if let Some(s) = j.get("int").and_then(|x| x.as_str()) {
            let enc = match j.get("enc")?.as_str()? {
                "i64" => 0,
                "u64" => 1,
                "i128" => 2,
                _ => 3,
            };
            return Some(match s.parse::<i128>() {
                Ok(i) => Num::I(i, enc),
                Err(_) => Num::Big(s.parse().ok()?),
            });
        }
        Some(Num::F(f64::from_bits(u64::from_str_radix(j.get("bits")?.as_str()?, 16).ok()?)))
    }
    fn boundary(&self) -> bool {
        match self {
            Num::I(i, e) => i.unsigned_abs() >= (1u128 << 31) || *e != 0,
            Num::Big(_) => true,
            Num::F(f) => !f.is_finite() || f.fract() != 0.0 || f.abs() >= 9007199254740992.0 || *f == 0.0,
        }
    }
}

pub fn encodings_for(v: i128) -> Vec<u8> {
    let mut ok = vec![];
    if v >= i64::MIN as i128 && v <= i64::MAX as i128 {
        ok.push(0u8);
    }
    if v >= 0 && v <= u64::MAX as i128 {
        ok.push(1);
    }
    ok.push(2);
    if v >= 0 {
        ok.push(3);
    }
    ok
}

#[derive(Debug, Clone, PartialEq)]
pub enum Exp {
    Text(String),
    Err,
    /// either of two outcomes is acceptable (the statement does not settle it)
    TextOrErr(String),
}

fn float_of(v: &MVal) -> Option<f64> {
    match v {
        MVal::Float(f) => Some(*f),
        MVal::Int(i) => Some(*i as f64),
        MVal::Big(b) => Some(*b as f64),
        _ => None,
    }
}
fn is_zero(v: &MVal) -> bool {
    match v {
        MVal::Int(i) => *i == 0,
        MVal::Float(f) => *f == 0.0,
        _ => false,
    }
}

/// 128x128 -> 256 bit unsigned multiplication (hi, lo)
fn umul(a: u128, b: u128) -> (u128, u128) {
    let (a1, a0) = (a >> 64, a & u64::MAX as u128);
    let (b1, b0) = (b >> 64, b & u64::MAX as u128);
    let p00 = a0 * b0;
    let p01 = a0 * b1;
    let p10 = a1 * b0;
    let p11 = a1 * b1;
    let mid = (p00 >> 64) + (p01 & u64::MAX as u128) + (p10 & u64::MAX as u128);
    let lo = (p00 & u64::MAX as u128) | (mid << 64);
    let hi = p11 + (p01 >> 64) + (p10 >> 64) + (mid >> 64);
    (hi, lo)
}

/// exact check of `q*b + r == a && 0 <= r < |b|`
pub fn euclid_valid(a: i128, b: i128, q: i128, r: i128) -> bool {
    if r < 0 || (r as u128) >= b.unsigned_abs() {
        return false;
    }
    // q*b as sign + 256-bit magnitude; a - r as sign + magnitude (fits in u128 + 1 bit)
    let (hi, lo) = umul(q.unsigned_abs(), b.unsigned_abs());
    let prod_neg = (q < 0) != (b < 0) && (hi != 0 || lo != 0);
    // a - r: r >= 0
    let (d_neg, d_mag_hi, d_mag_lo): (bool, u128, u128) = if a >= 0 {
        let au = a as u128;
        let ru = r as u128;
        if au >= ru {
            (false, 0, au - ru)
        } else {
            (true, 0, ru - au)
        }
    } else {
        // a negative: |a - r| = |a| + r, may need 129 bits
        let (s, c) = a.unsigned_abs().overflowing_add(r as u128);
        (true, c as u128, s)
    };
    let d_neg = d_neg && (d_mag_hi != 0 || d_mag_lo != 0);
    prod_neg == d_neg && hi == d_mag_hi && lo == d_mag_lo
}

fn exact_pow(a: i128, e: u128) -> Option<i128> {
    match a {
        0 => return Some(if e == 0 { 1 } else { 0 }),
        1 => return Some(1),
        -1 => return Some(if e % 2 == 0 { 1 } else { -1 }),
        _ => {}
    }
    if e > 127 {
        return None;
    }
    let mut acc: i128 = 1;
    for _ in 0..e {
        acc = acc.checked_mul(a)?;
    }
    Some(acc)
}

pub fn fmt_f(f: f64) -> String {
    format!("{:?}", f)
}

/// reference semantics of `a OP b` for arithmetic operators on numbers
pub fn ref_arith(op: &str, a: &MVal, b: &MVal) -> Exp {
    let any_float = matches!(a, MVal::Float(_)) || matches!(b, MVal::Float(_));
    let any_big = matches!(a, MVal::Big(_)) || matches!(b, MVal::Big(_));
    if op == "/" {
        if is_zero(b) {
            return Exp::Err;
        }
        let r = float_of(a).unwrap() / float_of(b).unwrap();
        // integers that do not fit in the signed 128-bit range: the statement only says `/` yields the
        // floating point quotient; an "operand out of range" error is accepted as well
        return if any_big { Exp::TextOrErr(fmt_f(r)) } else { Exp::Text(fmt_f(r)) };
    }
    if any_float {
        if matches!(op, "//" | "%") && is_zero(b) {
            return Exp::Err;
        }
        let (x, y) = (float_of(a).unwrap(), float_of(b).unwrap());
        let r = match op {
            "+" => x + y,
            "-" => x - y,
            "*" => x * y,
            "//" => x.div_euclid(y),
            "%" => x.rem_euclid(y),
            "**" => x.powf(y),
            _ => unreachable!(),
        };
        return if any_big { Exp::TextOrErr(fmt_f(r)) } else { Exp::Text(fmt_f(r)) };
    }
    if any_big {
        // operand outside the signed 128-bit range
        return Exp::Err;
    }
    let (MVal::Int(x), MVal::Int(y)) = (a, b) else { unreachable!() };
    let (x, y) = (*x, *y);
    let r: Option<i128> = match op {
        "+" => x.checked_add(y),
        "-" => x.checked_sub(y),
        "*" => x.checked_mul(y),
        "//" => {
            if y == 0 {
                return Exp::Err;
            }
            let q = x.checked_div_euclid(y);
            if let Some(q) = q {
                let r = x.wrapping_rem_euclid(y);
                assert!(euclid_valid(x, y, q, r), "reference self-check");
            }
            q
        }
        "%" => {
            if y == 0 {
                return Exp::Err;
            }
            Some(x.wrapping_rem_euclid(y))
        }
        "**" => {
            if y < 0 {
                // negative integer exponent: outside the exactness claim (float or error)
                let r = (x as f64).powf(y as f64);
                return Exp::TextOrErr(fmt_f(r));
            }
            exact_pow(x, y as u128)
        }
        _ => unreachable!(),
    };
    match r {
        Some(v) => Exp::Text(v.to_string()),
        None => Exp::Err,
    }
}

pub fn ref_cmp(op: &str, a: &MVal, b: &MVal) -> Exp {
    let o = num_cmp(a, b).unwrap();
    let r = match op {
        "==" => o == Ordering::Equal,
        "!=" => o != Ordering::Equal,
        "<" => o == Ordering::Less,
        "<=" => o != Ordering::Greater,
        ">" => o == Ordering::Greater,
        ">=" => o != Ordering::Less,
        _ => unreachable!(),
    };
    Exp::Text(r.to_string())
}

pub fn ref_neg(a: &MVal) -> Exp {
    match a {
        MVal::Int(i) => i.checked_neg().map(|v| Exp::Text(v.to_string())).unwrap_or(Exp::Err),
        MVal::Big(_) => Exp::Err,
        MVal::Float(f) => Exp::Text(fmt_f(-f)),
        _ => Exp::Err,
    }
}

pub fn agrees(exp: &Exp, got: &Out) -> bool {
    match (exp, got) {
        (_, Out::Panic(_)) => false,
        (Exp::Text(t), Out::Ok(s)) => t == s,
        (Exp::Err, Out::Err(_)) => true,
        (Exp::TextOrErr(t), Out::Ok(s)) => t == s,
        (Exp::TextOrErr(_), Out::Err(_)) => true,
        _ => false,
    }
}

pub struct Engine {
    pub tera: tera::Tera,
}
impl Engine {
    pub fn new() -> Engine {
        let mut tera = tera::Tera::new();
        let mut v = vec![];
        for op in ARITH.iter().chain(CMP.iter()) {
            v.push((format!("op{}", op), format!("{{{{ a {} b }}}}", op)));
        }
        v.push(("neg".to_string(), "{{ -a }}".to_string()));
        tera.add_raw_templates(v).expect("operator templates must register");
        Engine { tera }
    }
    pub fn run(&self, tpl: &str, a: &Num, b: Option<&Num>) -> Out {
        let mut c = tera::Context::new();
        c.insert_value("a", a.tera());
        if let Some(b) = b {
            c.insert_value("b", b.tera());
        }
        match guard(|| self.tera.render(tpl, &c).map_err(|e| err_text(&e))) {
            Ok(Ok(s)) => Out::Ok(s),
            Ok(Err(e)) => Out::Err(e),
            Err(p) => Out::Panic(p),
        }
    }
}

thread_local! {
    static ENGINE: Engine = Engine::new();
}

fn signature(op: &str, a: &Num, b: Option<&Num>, got: &Out) -> String {
    // known findings are keyed on exact shapes
    if let (Num::I(x, _), Some(Num::I(y, _))) = (a, b) {
        if op == "%" && *x == i128::MIN && *y == -1 {
            return "C13/rem/min-by-minus-one".into();
        }
        if op == "**" && matches!(*x, -1 | 0 | 1) && *y > u32::MAX as i128 {
            return "C13/pow/unit-base-large-exponent".into();
        }
    }
    if matches!(got, Out::Panic(_)) {
        return format!("C13/panic/{op}");
    }
    format!("C13/wrong-result/{op}")
}

pub fn check_pair(op: &str, a: &Num, b: &Num, l: &mut Local) -> Check {
    let (ma, mb) = (a.mval(), b.mval());
    let exp = if ARITH.contains(&op) { ref_arith(op, &ma, &mb) } else { ref_cmp(op, &ma, &mb) };
    let got = ENGINE.with(|e| e.run(&format!("op{}", op), a, Some(b)));
    l.eval();
    match &exp {
        Exp::Err => l.label("expect:err"),
        _ => l.label("expect:value"),
    }
    if a.boundary() || b.boundary() {
        l.nontrivial(hash_of(&(op, a.json().to_string(), b.json().to_string())));
    }
    if !agrees(&exp, &got) {
        return Err(Fail::new(
            signature(op, a, Some(b), &got),
            format!("{:?} {} {:?}: expected {:?}, engine gave {:?}", a, op, b, exp, got),
            json!({"kind": "num_binop", "op": op, "a": a.json(), "b": b.json(), "expected": format!("{:?}", exp), "observed": got.to_json()}),
        ));
    }
    l.sample(|| json!({"template": format!("{{{{ a {} b }}}}", op), "a": a.json(), "b": b.json(), "expected": format!("{:?}", exp), "observed": got.to_json()}));
    Ok(())
}

pub fn check_neg(a: &Num, l: &mut Local) -> Check {
    let exp = ref_neg(&a.mval());
    let got = ENGINE.with(|e| e.run("neg", a, None));
    l.eval();
    if !agrees(&exp, &got) {
        return Err(Fail::new(
            signature("neg", a, None, &got),
            format!("-{:?}: expected {:?}, engine gave {:?}", a, exp, got),
            json!({"kind": "num_neg", "a": a.json(), "expected": format!("{:?}", exp), "observed": got.to_json()}),
        ));
    }
    Ok(())
}

pub fn grid_values() -> Vec<Num> {
    let mut ints: Vec<i128> = vec![0, 1, 2, 3, 7, 10, 127, 128, 255, 256];
    for p in [31u32, 32, 52, 53, 54, 62, 63, 64, 65, 100, 126] {
        for d in -2i128..=2 {
            ints.push((1i128 << p) + d);
        }
    }
    ints.extend([i128::MAX, i128::MAX - 1, i128::MAX - 2]);
    let mut all: Vec<i128> = vec![];
    for i in ints {
        all.push(i);
        all.push(-i);
    }
    all.extend([i128::MIN, i128::MIN + 1, i64::MIN as i128, i64::MAX as i128, u64::MAX as i128]);
    all.sort();
    all.dedup();
    let mut out = vec![];
    for v in &all {
        for e in encodings_for(*v) {
            out.push(Num::I(*v, e));
        }
    }
    for b in [i128::MAX as u128 + 1, i128::MAX as u128 + 2, (1u128 << 127) + (1u128 << 75), u128::MAX - 1, u128::MAX] {
        out.push(Num::Big(b));
    }
    let mut floats: Vec<f64> = vec![0.0, -0.0, 0.5, -0.5, 1.0, -1.0, 1.5, 2.0, -2.0, 2.5, 3.0, 7.0, -7.0, 10.0, 0.1, -0.1, 1e-300, 5e-324, -5e-324, 1e300, f64::MAX, f64::MIN, f64::INFINITY, f64::NEG_INFINITY, f64::NAN, f64::EPSILON];
    for p in [31i32, 32, 52, 53, 54, 62, 63, 64, 65, 100, 126, 127, 128] {
        let b = 2f64.powi(p);
        for x in [b, -b, f64::from_bits(b.to_bits() - 1), f64::from_bits(b.to_bits() + 1), -f64::from_bits(b.to_bits() - 1), -f64::from_bits(b.to_bits() + 1)] {
            floats.push(x);
        }
        if p <= 52 {
            floats.push(b + 0.5);
            floats.push(-(b + 0.5));
        }
    }
    floats.push(9007199254740993.0); // rounds to 2^53
    floats.push(1.7014118346046923e38); // 2^127
    floats.push(3.4028236692093846e38); // 2^128
    for f in floats {
        out.push(Num::F(f));
    }
    out
}

fn num_strategy() -> impl Strategy<Value = Num> {
    let near = |p: u32| (-3i128..=3).prop_map(move |d| if p == 127 { i128::MAX.wrapping_add(d.min(0)) } else { (1i128 << p) + d });
    let int = prop_oneof![
        3 => (-20i128..20),
        2 => any::<i64>().prop_map(|x| x as i128),
        2 => any::<i128>(),
        2 => (0u32..127).prop_flat_map(move |p| near(p)),
        1 => (0u32..127).prop_flat_map(move |p| near(p)).prop_map(|x| x.wrapping_neg()),
        1 => any::<u64>().prop_map(|x| x as i128),
        1 => (any::<i64>(), 0u32..64).prop_map(|(x, s)| (x as i128) << s),
    ];
    prop_oneof![
        6 => (int, 0usize..4).prop_map(|(v, ei)| { let e = encodings_for(v); Num::I(v, e[(ei * e.len()) / 4]) }),
        1 => any::<u128>().prop_map(|b| if b > i128::MAX as u128 { Num::Big(b) } else { Num::I(b as i128, 3) }),
        3 => prop_oneof![
            2 => any::<f64>(),
            2 => (-100i32..100).prop_map(|x| x as f64 / 4.0),
            2 => any::<i64>().prop_map(|x| x as f64),
            1 => (any::<i128>()).prop_map(|x| x as f64),
            1 => (0i32..130, -2i64..=2).prop_map(|(p, d)| f64::from_bits((2f64.powi(p).to_bits() as i64 + d) as u64)),
            1 => prop_oneof![Just(f64::NAN), Just(f64::INFINITY), Just(f64::NEG_INFINITY), Just(-0.0), Just(0.0)],
        ].prop_map(Num::F),
    ]
}

/// operands spelled as literals in the source
fn check_literal(op: &str, a: i64, b: i64, fa: Option<f64>, l: &mut Local) -> Check {
    let (sa, ma) = match fa {
        Some(f) => (format!("{:?}", f), MVal::Float(f)),
        None => (a.to_string(), MVal::Int(a as i128)),
    };
    let src = format!("{{{{ {} {} {} }}}}", if sa.starts_with('-') { format!("({})", sa) } else { sa.clone() }, op, if b < 0 { format!("({})", b) } else { b.to_string() });
    let mb = MVal::Int(b as i128);
    let exp = if ARITH.contains(&op) { ref_arith(op, &ma, &mb) } else { ref_cmp(op, &ma, &mb) };
    let got = render_one(&src, &tera::Context::new());
    l.eval();
    l.label("literal");
    if !agrees(&exp, &got) {
        return Err(Fail::new(format!("C13/literal/{op}"), format!("{src}: expected {:?}, engine gave {:?}", exp, got), json!({"kind": "render_expect", "templates": [["t", src]], "entry": "t", "context": {}, "expected": format!("{:?}", exp), "observed": got.to_json()})));
    }
    Ok(())
}

pub fn run(rep: &Report) {
    rep.set_rule("cases = (operator, a, b) with a, b numbers in a given engine encoding (i64/u64/i128/u128/f64) rendered as `{{ a OP b }}` from context values; grid family enumerates all ordered pairs of the boundary grid x 13 operators exhaustively, random family draws pairs from proptest strategies; non-trivial = at least one operand touches a representation boundary (|v| >= 2^31, non-default encoding, u128 above i128::MAX, non-integral/huge/special float); distinct by (operator, a, enc(a), b, enc(b))");
    rep.assume("floating point reference results are computed with Rust std f64 arithmetic (div_euclid, rem_euclid, powf for //, %, **), integer references with checked i128 arithmetic plus an exact 256-bit validity predicate for // and %");
    rep.assume("operations with an integer operand above i128::MAX and a float operand accept either the IEEE result or an out-of-range error (the statement does not settle which)");
    let grid = grid_values();
    rep.extra("grid_values", json!(grid.len()));
    // known findings: run fixed repros first
    for k in rep.known.clone() {
        if k.status != "open" {
            continue;
        }
        if let (Some(op), Some(a), Some(b)) = (k.repro.get("op").and_then(|x| x.as_str()), k.repro.get("a").and_then(Num::from_json), k.repro.get("b").and_then(Num::from_json)) {
            let mut l = Local::new();
            if let Err(f) = check_pair(op, &a, &b, &mut l) {
                rep.fail(f);
            }
        }
    }
    let n = grid.len() as u64;
    let ops: Vec<&str> = ARITH.iter().chain(CMP.iter()).copied().collect();
    run_indexed(rep, "grid", n * n, true, |i, l| {
        let (a, b) = (&grid[(i / n) as usize], &grid[(i % n) as usize]);
        for op in &ops {
            check_pair(op, a, b, l)?;
        }
        Ok(())
    });
    run_indexed(rep, "grid_neg", n, true, |i, l| check_neg(&grid[i as usize], l));
    // literals
    let lits: Vec<i64> = vec![0, 1, 2, 3, 7, -1, -2, -7, 10, 63, 64, 127, i64::MAX, i64::MAX - 1, 1 << 62, 1 << 32, 4294967295, 4294967296];
    let flits: Vec<f64> = vec![0.5, 1.0, 2.5, 7.0, 0.1, 1e15];
    let nl = lits.len() as u64;
    run_indexed(rep, "literals", nl * nl, true, |i, l| {
        let (a, b) = (lits[(i / nl) as usize], lits[(i % nl) as usize]);
        for op in &ops {
            check_literal(op, a, b, None, l)?;
        }
        if (i / nl) < flits.len() as u64 {
            for op in &ops {
                check_literal(op, 0, b, Some(flits[(i / nl) as usize]), l)?;
            }
        }
        Ok(())
    });
    let cases = rep.tier.scale(1_600_000, 12);
    run_family(
        rep,
        "random_pairs",
        cases,
        || (num_strategy(), num_strategy()),
        |(a, b), l| {
            for op in &ops {
                check_pair(op, a, b, l)?;
            }
            check_neg(a, l)?;
            // metamorphic: re-encoding an integer operand never changes the outcome
            if let Num::I(v, e) = a {
                for e2 in encodings_for(*v) {
                    if e2 != *e {
                        l.label("reencoded");
                        for op in &ops {
                            check_pair(op, &Num::I(*v, e2), b, l)?;
                        }
                        break;
                    }
                }
            }
            Ok(())
        },
    );
    rep.floor("expect:err", 1000);
    rep.floor("expect:value", 100000);
    rep.floor("reencoded", 1000);
}

pub fn replay(rep: &Report, case: &serde_json::Value) -> Option<Check> {
    let kind = case.get("kind")?.as_str()?;
    let mut l = Local::new();
    match kind {
        "num_binop" => {
            let a = Num::from_json(case.get("a")?)?;
            let b = Num::from_json(case.get("b")?)?;
            let _ = rep;
            Some(check_pair(case.get("op")?.as_str()?, &a, &b, &mut l))
        }
        "num_neg" => Some(check_neg(&Num::from_json(case.get("a")?)?, &mut l)),
        _ => None,
    }
}
