use crate::core::*;

pub mod c13;
pub mod c14;
pub mod c20;

pub const ALL: &[&str] = &["C13", "C14", "C20"];

pub fn run(prop: &str, rep: &Report) -> bool {
    match prop {
        "C13" => c13::run(rep),
        "C14" => c14::run(rep),
        "C20" => c20::run(rep),
        _ => return false,
    }
    true
}

/// Re-execute one saved case in strict mode. None = this replay kind is not known.
pub fn replay(prop: &str, rep: &Report, case: &serde_json::Value) -> Option<Check> {
    match prop {
        "C13" => c13::replay(rep, case),
        "C14" => c14::replay(rep, case),
        "C20" => c20::replay(rep, case),
        _ => None,
    }
}

/// subprocess worker entry (crash-isolated families); returns the process exit code
pub fn worker(_prop: &str, _args: &[String]) -> i32 {
    2
}
