use crate::core::*;

pub mod c13;

pub const ALL: &[&str] = &["C13"];

pub fn run(prop: &str, rep: &Report) -> bool {
    match prop {
        "C13" => c13::run(rep),
        _ => return false,
    }
    true
}

/// Re-execute one saved case in strict mode. None = this replay kind is not known.
pub fn replay(prop: &str, rep: &Report, case: &serde_json::Value) -> Option<Check> {
    match prop {
        "C13" => c13::replay(rep, case),
        _ => None,
    }
}

/// subprocess worker entry (crash-isolated families); returns the process exit code
pub fn worker(_prop: &str, _args: &[String]) -> i32 {
    2
}
