use crate::core::*;

macro_rules! props {
    ($( $id:literal => $m:ident ),* $(,)?) => {
        $( pub mod $m; )*
        pub const ALL: &[&str] = &[$($id),*];
        pub fn run(prop: &str, rep: &Report) -> bool {
            match prop {
                $( $id => $m::run(rep), )*
                _ => return false,
            }
            // coverage-guided campaigns over the same generators and oracles (thorough tier)
            if rep.tier == Tier::Thorough && std::env::var("VERIF_NO_FUZZ").is_err() && !rep.has_violation() {
                for (target, props) in crate::fuzz::TARGETS {
                    if props.contains(&prop) {
                        let (runs, max_len) = crate::fuzz::budget(target, prop);
                        crate::fuzz::campaign(rep, target, runs, max_len);
                    }
                }
            }
            true
        }
        /// Re-execute one saved case in strict mode. None = this replay kind is not known.
        pub fn replay(prop: &str, rep: &Report, case: &serde_json::Value) -> Option<Check> {
            if let Some(r) = crate::fuzz::replay_bytes(prop, case) {
                return Some(r);
            }
            match prop {
                $( $id => $m::replay(rep, case), )*
                _ => None,
            }
        }
    };
}

props! {
    "C01" => c01,
    "C02" => c02,
    "C03" => c03,
    "C04" => c04,
    "C05" => c05,
    "C06" => c06,
    "C07" => c07,
    "C08" => c08,
    "C09" => c09,
    "C10" => c10,
    "C11" => c11,
    "C12" => c12,
    "C13" => c13,
    "C14" => c14,
    "C15" => c15,
    "C16" => c16,
    "C17" => c17,
    "C18" => c18,
    "C19" => c19,
    "C20" => c20,
}

/// subprocess worker entry (crash-isolated families); returns the process exit code
pub fn worker(prop: &str, args: &[String]) -> i32 {
    install_panic_hook();
    let Some(w) = WorkerArgs::parse(args) else { return 2 };
    match prop {
        "C05" => c05::worker(&w),
        "C06" => c06::worker(&w),
        "C07" => c07::worker(&w),
        "C11" => c11::worker(&w),
        _ => 2,
    }
}
