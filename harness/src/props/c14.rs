//! C14 — Indexing and slicing follow Python semantics and respect character boundaries.
use crate::core::*;
use crate::mval::*;
use proptest::prelude::*;
use serde_json::json;

/// CPython `PySlice_AdjustIndices` + element selection, transcribed; all values as i128 with the
/// saturations CPython gets from arbitrary-precision clamping (`_PyEval_SliceIndex`).
pub fn py_slice(len: usize, start: Option<i128>, stop: Option<i128>, step: i128) -> Vec<usize> {
    assert!(step != 0);
    let len = len as i128;
    let adj = |v: Option<i128>, is_start: bool| -> i128 {
        match v {
            None => {
                if is_start {
                    if step < 0 {
                        len - 1
                    } else {
                        0
                    }
                } else if step < 0 {
                    -1
                } else {
                    len
                }
            }
            Some(mut s) => {
                if s < 0 {
                    s = s.saturating_add(len);
                    if s < 0 {
                        s = if step < 0 { -1 } else { 0 };
                    }
                } else if s >= len {
                    s = if step < 0 { len - 1 } else { len };
                }
                s
            }
        }
    };
    let (start, stop) = (adj(start, true), adj(stop, false));
    let mut out = vec![];
    let mut i = start;
    if step > 0 {
        while i < stop {
            out.push(i as usize);
            match i.checked_add(step) {
                Some(v) => i = v,
                None => break,
            }
        }
    } else {
        while i > stop {
            out.push(i as usize);
            match i.checked_add(step) {
                Some(v) => i = v,
                None => break,
            }
        }
    }
    out
}

/// a slice/index parameter
#[derive(Debug, Clone, PartialEq)]
pub enum P {
    Absent,
    None,
    Int(i128, u8),
    Big(u128),
    Float(f64),
    Str(String),
    Bool(bool),
    Unbound,
}
impl P {
    fn tera(&self) -> Option<tera::Value> {
        Some(match self {
            P::Absent | P::Unbound => return None,
            P::None => tera::Value::none(),
            P::Int(i, e) => int_to_tera(*i, *e),
            P::Big(b) => tera::Value::from(*b),
            P::Float(f) => tera::Value::from(*f),
            P::Str(s) => tera::Value::from(s.as_str()),
            P::Bool(b) => tera::Value::from(*b),
        })
    }
    /// Ok(None) = absent/none, Ok(Some(i)) = integer (saturated), Err = must be rejected
    fn as_bound(&self) -> Result<Option<i128>, ()> {
        match self {
            P::Absent | P::None => Ok(None),
            P::Int(i, _) => Ok(Some(*i)),
            P::Big(_) => Ok(Some(i128::MAX)),
            _ => Err(()),
        }
    }
    fn json(&self) -> serde_json::Value {
        match self {
            P::Absent => json!("absent"),
            P::None => json!("none"),
            P::Unbound => json!("unbound"),
            P::Int(i, e) => json!({"int": i.to_string(), "enc": e}),
            P::Big(b) => json!({"int": b.to_string(), "enc": 3}),
            P::Float(f) => json!({"float": f}),
            P::Str(s) => json!({"str": s}),
            P::Bool(b) => json!({"bool": b}),
        }
    }
    fn from_json(j: &serde_json::Value) -> Option<P> {
        if let Some(s) = j.as_str() {
            return Some(match s {
                "absent" => P::Absent,
                "none" => P::None,
                _ => P::Unbound,
            });
        }
        if let Some(s) = j.get("int").and_then(|x| x.as_str()) {
            return Some(match s.parse::<i128>() {
                Ok(i) => P::Int(i, j.get("enc")?.as_u64()? as u8),
                Err(_) => P::Big(s.parse().ok()?),
            });
        }
        if let Some(f) = j.get("float").and_then(|x| x.as_f64()) {
            return Some(P::Float(f));
        }
        if let Some(s) = j.get("str").and_then(|x| x.as_str()) {
            return Some(P::Str(s.to_string()));
        }
        Some(P::Bool(j.get("bool")?.as_bool()?))
    }
}

#[derive(Debug, Clone, PartialEq)]
pub enum Seq {
    Arr(usize),
    Str(String),
}
impl Seq {
    fn len(&self) -> usize {
        match self {
            Seq::Arr(n) => *n,
            Seq::Str(s) => s.chars().count(),
        }
    }
    fn tera(&self) -> tera::Value {
        match self {
            Seq::Arr(n) => tera::Value::from((0..*n as i64).map(|i| tera::Value::from(i * 11)).collect::<Vec<_>>()),
            Seq::Str(s) => tera::Value::from(s.as_str()),
        }
    }
    fn select(&self, idx: &[usize]) -> String {
        match self {
            Seq::Arr(_) => format!("[{}]", idx.iter().map(|i| (i * 11).to_string()).collect::<Vec<_>>().join(", ")),
            Seq::Str(s) => {
                let cs: Vec<char> = s.chars().collect();
                idx.iter().map(|i| cs[*i]).collect()
            }
        }
    }
    fn elem(&self, i: usize) -> String {
        match self {
            Seq::Arr(_) => (i * 11).to_string(),
            Seq::Str(s) => s.chars().nth(i).unwrap().to_string(),
        }
    }
    fn json(&self) -> serde_json::Value {
        match self {
            Seq::Arr(n) => json!({"array_len": n}),
            Seq::Str(s) => json!({"string": s}),
        }
    }
    fn from_json(j: &serde_json::Value) -> Option<Seq> {
        if let Some(n) = j.get("array_len").and_then(|x| x.as_u64()) {
            return Some(Seq::Arr(n as usize));
        }
        Some(Seq::Str(j.get("string")?.as_str()?.to_string()))
    }
}

struct Engine {
    tera: tera::Tera,
}
impl Engine {
    fn new() -> Engine {
        let mut tera = tera::Tera::new();
        let mut v: Vec<(String, String)> = vec![];
        for mask in 0..8u8 {
            for opt in [false, true] {
                let p = if mask & 1 != 0 { "p" } else { "" };
                let q = if mask & 2 != 0 { "q" } else { "" };
                let r = if mask & 4 != 0 { ":r" } else { "" };
                // the optional form is consumed by `default`, which tolerates undefined: an error must stay an error
                v.push((format!("sl{}{}", mask, if opt { "o" } else { "" }), format!("{{{{ x{}{}:{}{}]{} }}}}", if opt { "?[" } else { "[" }, p, q, r, if opt { " | default(value=\"~undefined~\")" } else { "" })));
            }
        }
        // a slice with two parameters but an explicit empty third position is not valid syntax; mask 4 alone = `x[::r]`
        v.push(("idx".into(), "{{ x[p] }}".into()));
        v.push(("idxdef".into(), "{{ x[p] is defined }}".into()));
        v.push(("idxo".into(), "{{ x?[p] is defined }}".into()));
        v.push(("len".into(), "{{ x | length }}".into()));
        v.push(("rev".into(), "{{ x | reverse }}".into()));
        v.push(("trunc".into(), "{{ x | truncate(length=p, end=\"\") }}".into()));
        v.push(("trunc_end".into(), "{{ x | truncate(length=p) }}".into()));
        v.push(("iter".into(), "{% for c in x %}{{ loop.index0 }}/{{ loop.length }}={{ c }};{% endfor %}".into()));
        v.push(("first".into(), "{{ x[0] | default(value=\"~\") }}|{{ x[-1] | default(value=\"~\") }}".into()));
        tera.add_raw_templates(v).expect("C14 templates register");
        Engine { tera }
    }
    fn run(&self, tpl: &str, x: &Seq, ps: &[(&str, &P)]) -> Out {
        let mut c = tera::Context::new();
        c.insert_value("x", x.tera());
        for (n, p) in ps {
            if let Some(v) = p.tera() {
                c.insert_value(n.to_string(), v);
            }
        }
        match guard(|| self.tera.render(tpl, &c).map_err(|e| err_text(&e))) {
            Ok(Ok(s)) => Out::Ok(s),
            Ok(Err(e)) => Out::Err(e),
            Err(p) => Out::Panic(p),
        }
    }
}
thread_local! {
    static ENGINE: Engine = Engine::new();
}

fn sig(kind: &str, got: &Out, ps: &[&P]) -> String {
    if matches!(got, Out::Panic(_)) {
        return format!("C14/panic/{kind}");
    }
    if kind == "slice" && ps.iter().any(|p| matches!(p, P::Big(_))) && matches!(got, Out::Err(_)) {
        return "C14/slice/u128-bound-rejected".into();
    }
    format!("C14/wrong-result/{kind}")
}

pub fn check_slice(x: &Seq, p: &P, q: &P, r: &P, l: &mut Local) -> Check {
    let mask = (!matches!(p, P::Absent) as u8) | ((!matches!(q, P::Absent) as u8) << 1) | ((!matches!(r, P::Absent) as u8) << 2);
    let exp: Result<String, ()> = (|| {
        let (s, e, st) = (p.as_bound()?, q.as_bound()?, r.as_bound()?);
        let st = st.unwrap_or(1);
        if st == 0 {
            return Err(());
        }
        Ok(x.select(&py_slice(x.len(), s, e, st)))
    })();
    let got = ENGINE.with(|e| e.run(&format!("sl{}", mask), x, &[("p", p), ("q", q), ("r", r)]));
    l.eval();
    // `?[` only changes what happens on a none / undefined base: on a defined sequence it is the same operation
    let got_opt = ENGINE.with(|e| e.run(&format!("sl{}o", mask), x, &[("p", p), ("q", q), ("r", r)]));
    l.eval();
    let same = match (&got, &got_opt) {
        (Out::Ok(a), Out::Ok(b)) => a == b,
        (Out::Err(_), Out::Err(_)) => true,
        _ => false,
    };
    if !same {
        return Err(Fail::new("C14/optional-slice-differs", format!("{:?}: x[..] gives {:?} but x?[..] gives {:?} (p={:?} q={:?} r={:?})", x, got, got_opt, p, q, r), json!({"kind": "slice", "x": x.json(), "p": p.json(), "q": q.json(), "r": r.json()})));
    }
    l.label(if exp.is_ok() { "slice:ok" } else { "slice:err" });
    if let Seq::Str(s) = x {
        if s.len() != s.chars().count() {
            l.label("slice:multibyte");
        }
    }
    let far = |p: &P| matches!(p, P::Big(_)) || matches!(p, P::Int(i, _) if i.unsigned_abs() > 1 << 62);
    if far(p) || far(q) || far(r) {
        l.label("slice:extreme-bound");
    }
    let nontrivial = x.len() >= 2 && (matches!(p, P::Int(..) | P::Big(_)) as u8 + matches!(q, P::Int(..) | P::Big(_)) as u8 + matches!(r, P::Int(..) | P::Big(_)) as u8) >= 2;
    if nontrivial {
        l.nontrivial(hash_of(&format!("{:?}{:?}{:?}{:?}", x, p, q, r)));
    }
    let ok = match (&exp, &got) {
        (Ok(t), Out::Ok(s)) => t == s && std::str::from_utf8(s.as_bytes()).is_ok(),
        (Err(()), Out::Err(_)) => true,
        _ => false,
    };
    if !ok {
        return Err(Fail::new(
            sig("slice", &got, &[p, q, r]),
            format!("{:?}[{:?}:{:?}:{:?}] expected {:?}, engine gave {:?}", x, p, q, r, exp, got),
            json!({"kind": "slice", "x": x.json(), "p": p.json(), "q": q.json(), "r": r.json(), "expected": format!("{:?}", exp), "observed": got.to_json()}),
        ));
    }
    l.sample(|| json!({"template": format!("x[p:q:r] mask={mask}"), "x": x.json(), "p": p.json(), "q": q.json(), "r": r.json(), "expected": format!("{:?}", exp)}));
    Ok(())
}

pub fn check_index(x: &Seq, p: &P, l: &mut Local) -> Check {
    // expected: Ok(Some(elem)) / Ok(None)=undefined / Err
    let exp: Result<Option<String>, ()> = match p {
        P::Int(i, _) => {
            let len = x.len() as i128;
            let n = if *i < 0 { i.checked_add(len) } else { Some(*i) };
            Ok(match n {
                Some(n) if n >= 0 && n < len => Some(x.elem(n as usize)),
                _ => None,
            })
        }
        P::Big(_) => Ok(None),
        _ => Err(()),
    };
    let got_def = ENGINE.with(|e| e.run("idxdef", x, &[("p", p)]));
    let got_val = ENGINE.with(|e| e.run("idx", x, &[("p", p)]));
    l.evals_n(2);
    l.label(match &exp {
        Ok(Some(_)) => "index:element",
        Ok(None) => "index:undefined",
        Err(()) => "index:error",
    });
    if x.len() >= 1 {
        l.nontrivial(hash_of(&format!("idx{:?}{:?}", x, p)));
    }
    let ok = match &exp {
        Ok(Some(e)) => got_def == Out::Ok("true".into()) && got_val == Out::Ok(e.clone()),
        Ok(None) => got_def == Out::Ok("false".into()) && got_val.is_err(),
        Err(()) => got_def.is_err() && got_val.is_err(),
    };
    if !ok {
        let got = if matches!(got_def, Out::Panic(_)) { &got_def } else { &got_val };
        return Err(Fail::new(
            sig("index", got, &[p]),
            format!("{:?}[{:?}] expected {:?}, engine gave defined={:?} value={:?}", x, p, exp, got_def, got_val),
            json!({"kind": "index", "x": x.json(), "p": p.json(), "expected": format!("{:?}", exp), "observed_defined": got_def.to_json(), "observed_value": got_val.to_json()}),
        ));
    }
    Ok(())
}

/// length / reverse / truncate / iteration / first / last agree character-wise
pub fn check_chars(s: &str, n: usize, l: &mut Local) -> Check {
    let x = Seq::Str(s.to_string());
    let cs: Vec<char> = s.chars().collect();
    let fail = |what: &str, exp: String, got: Out| Err(Fail::new(if matches!(got, Out::Panic(_)) { format!("C14/panic/{what}") } else { format!("C14/chars/{what}") }, format!("{what} of {:?}: expected {:?}, got {:?}", s, exp, got), json!({"kind": "chars", "s": s, "n": n, "what": what, "expected": exp, "observed": got.to_json()})));
    let none = P::Absent;
    let e = |tpl: &str, p: &P| ENGINE.with(|e| e.run(tpl, &x, &[("p", p)]));
    l.evals_n(6);
    l.label("chars");
    if s.len() != cs.len() {
        l.label("chars:multibyte");
        l.nontrivial(hash_of(&format!("chars{s}{n}")));
    }
    let exp = cs.len().to_string();
    let got = e("len", &none);
    if got != Out::Ok(exp.clone()) {
        return fail("length", exp, got);
    }
    let exp: String = cs.iter().rev().collect();
    let got = e("rev", &none);
    if got != Out::Ok(exp.clone()) {
        return fail("reverse", exp, got);
    }
    let pn = P::Int(n as i128, 1);
    let exp: String = cs.iter().take(n).collect();
    let got = e("trunc", &pn);
    if got != Out::Ok(exp.clone()) {
        return fail("truncate", exp, got);
    }
    let exp: String = if cs.len() <= n { s.to_string() } else { cs.iter().take(n).collect::<String>() + "…" };
    let got = e("trunc_end", &pn);
    if got != Out::Ok(exp.clone()) {
        return fail("truncate_end", exp, got);
    }
    let exp: String = cs.iter().enumerate().map(|(i, c)| format!("{}/{}={};", i, cs.len(), c)).collect();
    let got = e("iter", &none);
    if got != Out::Ok(exp.clone()) {
        return fail("iterate", exp, got);
    }
    let exp = if cs.is_empty() { "~|~".to_string() } else { format!("{}|{}", cs[0], cs[cs.len() - 1]) };
    let got = e("first", &none);
    if got != Out::Ok(exp.clone()) {
        return fail("first_last", exp, got);
    }
    Ok(())
}

fn grid_params() -> Vec<P> {
    let mut v = vec![P::None];
    for i in [-9i128, -7, -6, -5, -4, -3, -2, -1, 0, 1, 2, 3, 4, 5, 6, 7, 9] {
        v.push(P::Int(i, 0));
    }
    v.push(P::Int(3, 1));
    v.push(P::Int(-2, 2));
    v.push(P::Int(i64::MIN as i128, 0));
    v.push(P::Int(i64::MAX as i128, 0));
    v.push(P::Int(u64::MAX as i128, 1));
    v.push(P::Int(-(1i128 << 64), 2));
    v.push(P::Int(1i128 << 64, 3));
    v.push(P::Int(i128::MIN, 2));
    v.push(P::Int(i128::MIN + 1, 2));
    v.push(P::Int(i128::MAX, 2));
    v.push(P::Big(i128::MAX as u128 + 1));
    v.push(P::Big(u128::MAX));
    v
}
fn grid_seqs() -> Vec<Seq> {
    let mut v: Vec<Seq> = (0..=6).map(Seq::Arr).collect();
    for s in ["", "a", "é", "日本", "a😀b", "e\u{301}x🦀", "añ日😀z", "ßΩ≈ç√∫"] {
        v.push(Seq::Str(s.to_string()));
    }
    v
}

fn param_strategy() -> impl Strategy<Value = P> {
    prop_oneof![
        2 => Just(P::Absent),
        1 => Just(P::None),
        8 => (-50i128..50, 0u8..4).prop_map(|(i, e)| { let es = super::c13::encodings_for(i); P::Int(i, es[(e as usize * es.len()) / 4]) }),
        1 => any::<i128>().prop_map(|i| P::Int(i, 2)),
        1 => any::<i64>().prop_map(|i| P::Int(i as i128, 0)),
        1 => any::<u128>().prop_map(|b| if b > i128::MAX as u128 { P::Big(b) } else { P::Int(b as i128, 3) }),
    ]
}
fn string_strategy(max: usize) -> impl Strategy<Value = String> {
    prop::collection::vec(prop_oneof![Just('a'), Just('Z'), Just(' '), Just('é'), Just('ß'), Just('日'), Just('😀'), Just('\u{301}'), Just('🦀'), Just('\u{200d}'), Just('\n'), any::<char>()], 0..max).prop_map(|v| v.into_iter().collect())
}
fn seq_strategy() -> impl Strategy<Value = Seq> {
    prop_oneof![(0usize..40).prop_map(Seq::Arr), string_strategy(40).prop_map(Seq::Str)]
}

pub fn run(rep: &Report) {
    rep.set_rule("cases = (sequence, start, stop, step) rendered as `{{ x[p:q:r] }}` (every presence mask) and (sequence, index) rendered as `{{ x[p] }}` / `{{ x[p] is defined }}`, parameters bound from the context in every integer encoding, compared with a transcription of CPython's PySlice_AdjustIndices; plus character-wise agreement of length/reverse/truncate/iteration/index on multi-byte strings. Non-trivial: slice on a sequence of >= 2 elements with >= 2 integer parameters; index on a non-empty sequence; character law on a string with multi-byte characters. Distinct by full case.");
    rep.assume("u128 parameters above i128::MAX behave like any other far-out-of-range integer (clamped for slices, undefined for an index), as Python's arbitrary precision integers do");
    // fixed repros of findings
    for k in rep.known.clone() {
        if let Some(c) = replay(rep, &k.repro) {
            if let Err(f) = c {
                if k.status == "open" {
                    rep.fail(f);
                } else {
                    rep.fail(Fail::new(format!("{}/regressed", f.signature), format!("fixed finding {} is back: {}", k.id, f.what), f.case));
                }
            }
        }
    }
    let ps = grid_params();
    let seqs = grid_seqs();
    let np = ps.len() as u64;
    let total = seqs.len() as u64 * np * np * np;
    rep.extra("grid_params", json!(ps.len()));
    rep.extra("grid_sequences", json!(seqs.len()));
    run_indexed(rep, "slice_grid", total, true, |i, l| {
        let x = &seqs[(i / (np * np * np)) as usize];
        let r = i % (np * np * np);
        let (p, q, st) = (&ps[(r / (np * np)) as usize], &ps[((r / np) % np) as usize], &ps[(r % np) as usize]);
        check_slice(x, p, q, st, l)
    });
    // presence masks + invalid parameter kinds, exhaustive over a smaller set
    let small: Vec<P> = vec![P::Absent, P::None, P::Int(-3, 0), P::Int(-1, 0), P::Int(0, 0), P::Int(1, 0), P::Int(2, 0), P::Int(5, 0), P::Big(u128::MAX), P::Float(1.0), P::Float(f64::NAN), P::Str("1".into()), P::Bool(true), P::Unbound];
    let ns = small.len() as u64;
    run_indexed(rep, "slice_masks_and_kinds", seqs.len() as u64 * ns * ns * ns, true, |i, l| {
        let x = &seqs[(i / (ns * ns * ns)) as usize];
        let r = i % (ns * ns * ns);
        check_slice(x, &small[(r / (ns * ns)) as usize], &small[((r / ns) % ns) as usize], &small[(r % ns) as usize], l)
    });
    let mut idx_params = ps.clone();
    idx_params.extend([P::Float(0.0), P::Float(1.5), P::Str("0".into()), P::Bool(false), P::Unbound]);
    let ni = idx_params.len() as u64;
    run_indexed(rep, "index_grid", seqs.len() as u64 * ni, true, |i, l| check_index(&seqs[(i / ni) as usize], &idx_params[(i % ni) as usize], l));
    run_family(rep, "random_slices", rep.tier.scale(1_500_000, 8), || (seq_strategy(), param_strategy(), param_strategy(), param_strategy()), |(x, p, q, r), l| {
        check_slice(x, p, q, r, l)?;
        if !matches!(p, P::Absent) {
            check_index(x, p, l)?;
        }
        Ok(())
    });
    run_family(rep, "char_laws", rep.tier.scale(500_000, 8), || (string_strategy(24), 0usize..30), |(s, n), l| check_chars(s, *n, l));
    rep.floor("slice:ok", 100_000);
    rep.floor("slice:err", 5_000);
    rep.floor("slice:multibyte", 50_000);
    rep.floor("slice:extreme-bound", 10_000);
    rep.floor("index:undefined", 100);
    rep.floor("index:element", 100);
    rep.floor("chars:multibyte", 10_000);
}

pub fn replay(_rep: &Report, case: &serde_json::Value) -> Option<Check> {
    let mut l = Local::new();
    match case.get("kind")?.as_str()? {
        "slice" => Some(check_slice(&Seq::from_json(case.get("x")?)?, &P::from_json(case.get("p")?)?, &P::from_json(case.get("q")?)?, &P::from_json(case.get("r")?)?, &mut l)),
        "index" => Some(check_index(&Seq::from_json(case.get("x")?)?, &P::from_json(case.get("p")?)?, &mut l)),
        "chars" => Some(check_chars(case.get("s")?.as_str()?, case.get("n")?.as_u64()? as usize, &mut l)),
        _ => None,
    }
}
