//! C20 — tera-contrib codecs are lossless and emit only their target alphabet.
use crate::core::*;
use crate::mval::*;
use proptest::prelude::*;
use serde_json::json;
use std::collections::BTreeMap;

fn engine() -> tera::Tera {
    let mut t = tera::Tera::new();
    t.register_filter("b64_encode", tera_contrib::base64::b64_encode);
    t.register_filter("b64_decode", tera_contrib::base64::b64_decode);
    t.register_filter("urlencode", tera_contrib::urlencode::urlencode);
    t.register_filter("urlencode_strict", tera_contrib::urlencode::urlencode_strict);
    t.register_filter("json_encode", tera_contrib::json::json_encode);
    t.register_filter("slug", tera_contrib::slug::slug);
    let mut v: Vec<(String, String)> = vec![];
    for (u, p) in [(false, false), (false, true), (true, false), (true, true)] {
        v.push((format!("enc{}{}", u as u8, p as u8), format!("{{{{ s | b64_encode(url_safe={u}, padded={p}) }}}}")));
        v.push((format!("rt{}{}", u as u8, p as u8), format!("{{{{ s | b64_encode(url_safe={u}, padded={p}) | b64_decode(url_safe={u}) }}}}")));
    }
    v.push(("dec0".into(), "{{ s | b64_decode }}".into()));
    v.push(("dec1".into(), "{{ s | b64_decode(url_safe=true) }}".into()));
    v.push(("encd".into(), "{{ s | b64_encode }}".into()));
    v.push(("rtd".into(), "{{ s | b64_encode | b64_decode }}".into()));
    v.push(("url".into(), "{{ s | urlencode }}".into()));
    v.push(("urls".into(), "{{ s | urlencode_strict }}".into()));
    v.push(("json".into(), "{{ v | json_encode }}".into()));
    v.push(("jsonp".into(), "{{ v | json_encode(pretty=true) }}".into()));
    v.push(("slug".into(), "{{ s | slug }}".into()));
    t.add_raw_templates(v).expect("C20 templates");
    t
}
thread_local! {
    static ENGINE: tera::Tera = engine();
}
fn run_t(tpl: &str, key: &str, val: tera::Value) -> Out {
    let mut c = tera::Context::new();
    c.insert_value(key.to_string(), val);
    ENGINE.with(|t| match guard(|| t.render(tpl, &c).map_err(|e| err_text(&e))) {
        Ok(Ok(s)) => Out::Ok(s),
        Ok(Err(e)) => Out::Err(e),
        Err(p) => Out::Panic(p),
    })
}
fn run_s(tpl: &str, s: &str) -> Out {
    run_t(tpl, "s", tera::Value::from(s))
}

fn fail(sig: &str, what: String, tpl: &str, s: &str, got: &Out) -> Check {
    let sig = if matches!(got, Out::Panic(_)) { format!("C20/panic/{sig}") } else { format!("C20/{sig}") };
    Err(Fail::new(sig, what, json!({"kind": "codec_string", "template": tpl, "s": s, "observed": got.to_json()})))
}

/// independent base64 reference (RFC 4648)
fn ref_b64(data: &[u8], url: bool, pad: bool) -> String {
    let alpha: Vec<char> = if url { "ABCDEFGHIJKLMNOPQRSTUVWXYZabcdefghijklmnopqrstuvwxyz0123456789-_" } else { "ABCDEFGHIJKLMNOPQRSTUVWXYZabcdefghijklmnopqrstuvwxyz0123456789+/" }.chars().collect();
    let mut o = String::new();
    for ch in data.chunks(3) {
        let b = [ch[0], *ch.get(1).unwrap_or(&0), *ch.get(2).unwrap_or(&0)];
        let n = ((b[0] as u32) << 16) | ((b[1] as u32) << 8) | b[2] as u32;
        o.push(alpha[(n >> 18) as usize & 63]);
        o.push(alpha[(n >> 12) as usize & 63]);
        if ch.len() > 1 {
            o.push(alpha[(n >> 6) as usize & 63]);
        } else if pad {
            o.push('=');
        }
        if ch.len() > 2 {
            o.push(alpha[n as usize & 63]);
        } else if pad {
            o.push('=');
        }
    }
    o
}

pub fn check_b64(s: &str, l: &mut Local) -> Check {
    for (u, p) in [(false, false), (false, true), (true, false), (true, true)] {
        let et = format!("enc{}{}", u as u8, p as u8);
        let enc = run_s(&et, s);
        l.evals_n(2);
        let Out::Ok(e) = &enc else { return fail("b64/encode-failed", format!("b64_encode(url_safe={u},padded={p}) of {:?} gave {:?}", s, enc), &et, s, &enc) };
        // alphabet + padding + length rules
        let body = e.trim_end_matches('=');
        let npad = e.len() - body.len();
        let alpha_ok = body.chars().all(|c| c.is_ascii_alphanumeric() || if u { c == '-' || c == '_' } else { c == '+' || c == '/' });
        let len_ok = if p { e.len() % 4 == 0 && npad <= 2 && e.len() == (s.len() + 2) / 3 * 4 } else { npad == 0 && e.len() == (s.len() * 4 + 2) / 3 };
        if !alpha_ok || !len_ok || *e != ref_b64(s.as_bytes(), u, p) {
            return fail("b64/alphabet-or-shape", format!("b64_encode(url_safe={u},padded={p}) of {:?} = {:?} (reference {:?})", s, e, ref_b64(s.as_bytes(), u, p)), &et, s, &enc);
        }
        let rt = format!("rt{}{}", u as u8, p as u8);
        let back = run_s(&rt, s);
        if back != Out::Ok(s.to_string()) {
            return fail("b64/roundtrip", format!("b64_decode(b64_encode({:?}, url_safe={u}, padded={p})) = {:?}", s, back), &rt, s, &back);
        }
        // decoding is padding-indifferent: the other padding form of the same text decodes too
        let other = if p { body.to_string() } else { ref_b64(s.as_bytes(), u, true) };
        let dt = if u { "dec1" } else { "dec0" };
        let back2 = run_s(dt, &other);
        l.eval();
        if back2 != Out::Ok(s.to_string()) {
            return fail("b64/decode-padding-indifferent", format!("b64_decode({:?}, url_safe={u}) = {:?}, expected {:?}", other, back2, s), dt, &other, &back2);
        }
    }
    // defaults: url_safe=false, padded=true
    let d = run_s("encd", s);
    if d != Out::Ok(ref_b64(s.as_bytes(), false, true)) {
        return fail("b64/defaults", format!("default b64_encode of {:?} = {:?}", s, d), "encd", s, &d);
    }
    let d = run_s("rtd", s);
    if d != Out::Ok(s.to_string()) {
        return fail("b64/roundtrip", format!("default round trip of {:?} = {:?}", s, d), "rtd", s, &d);
    }
    l.evals_n(2);
    l.label("b64");
    match s.len() % 3 {
        0 => l.label("b64:len%3=0"),
        1 => l.label("b64:len%3=1"),
        _ => l.label("b64:len%3=2"),
    }
    Ok(())
}

/// invalid decoder input must be an error
pub fn check_b64_invalid(s: &str, url: bool, l: &mut Local) -> Check {
    // decide validity independently: strip padding, alphabet check, length%4 != 1, trailing bits zero, payload utf-8
    let body = s.trim_end_matches('=');
    let npad = s.len() - body.len();
    let val = |c: char| -> Option<u32> {
        Some(match c {
            'A'..='Z' => c as u32 - 'A' as u32,
            'a'..='z' => c as u32 - 'a' as u32 + 26,
            '0'..='9' => c as u32 - '0' as u32 + 52,
            '+' if !url => 62,
            '/' if !url => 63,
            '-' if url => 62,
            '_' if url => 63,
            _ => return None,
        })
    };
    let vals: Option<Vec<u32>> = body.chars().map(val).collect();
    let mut definitely_invalid = vals.is_none() || body.len() % 4 == 1;
    let mut definitely_valid = false;
    if let Some(v) = &vals {
        if body.len() % 4 != 1 {
            let mut bytes = vec![];
            let mut acc = 0u32;
            let mut bits = 0;
            for x in v {
                acc = (acc << 6) | x;
                bits += 6;
                if bits >= 8 {
                    bits -= 8;
                    bytes.push((acc >> bits) as u8);
                    acc &= (1 << bits) - 1;
                }
            }
            let trailing_zero = acc == 0;
            let pad_canon = npad == 0 || (body.len() + npad) % 4 == 0 && npad <= 2;
            match String::from_utf8(bytes) {
                Err(_) => definitely_invalid = true,
                Ok(_) => definitely_valid = trailing_zero && pad_canon,
            }
        }
    }
    let dt = if url { "dec1" } else { "dec0" };
    let got = run_s(dt, s);
    l.eval();
    if matches!(got, Out::Panic(_)) {
        return fail("b64/decode", format!("b64_decode({:?}) panicked", s), dt, s, &got);
    }
    if definitely_invalid {
        l.label("b64:invalid-input");
        if !got.is_err() {
            return fail("b64/invalid-accepted", format!("b64_decode({:?}, url_safe={url}) = {:?}, expected an error", s, got), dt, s, &got);
        }
    } else if definitely_valid {
        l.label("b64:valid-input");
        if !got.is_ok() {
            return fail("b64/valid-rejected", format!("b64_decode({:?}, url_safe={url}) = {:?}, expected text", s, got), dt, s, &got);
        }
    }
    Ok(())
}

fn pct_decode(s: &str) -> Option<Vec<u8>> {
    let b = s.as_bytes();
    let mut o = vec![];
    let mut i = 0;
    while i < b.len() {
        if b[i] == b'%' {
            if i + 3 > b.len() {
                return None;
            }
            let h = std::str::from_utf8(&b[i + 1..i + 3]).ok()?;
            if !h.chars().all(|c| c.is_ascii_hexdigit()) {
                return None;
            }
            o.push(u8::from_str_radix(h, 16).ok()?);
            i += 3;
        } else {
            o.push(b[i]);
            i += 1;
        }
    }
    Some(o)
}

pub fn check_url(s: &str, l: &mut Local) -> Check {
    for (tpl, strict) in [("url", false), ("urls", true)] {
        let got = run_s(tpl, s);
        l.eval();
        let Out::Ok(e) = &got else { return fail("urlencode/failed", format!("{tpl} of {:?} gave {:?}", s, got), tpl, s, &got) };
        // alphabet
        let mut ok = true;
        let cs: Vec<char> = e.chars().collect();
        let mut i = 0;
        while i < cs.len() {
            let c = cs[i];
            if c == '%' {
                if i + 3 > cs.len() || !(cs[i + 1].is_ascii_hexdigit() && cs[i + 2].is_ascii_hexdigit()) {
                    ok = false;
                    break;
                }
                i += 3;
                continue;
            }
            let allowed = c.is_ascii_alphanumeric() || (!strict && matches!(c, '-' | '.' | '_' | '~' | '/'));
            if !allowed {
                ok = false;
                break;
            }
            i += 1;
        }
        if !ok {
            return fail("urlencode/alphabet", format!("{tpl} of {:?} = {:?} contains a character outside its target alphabet", s, e), tpl, s, &got);
        }
        if pct_decode(e).as_deref() != Some(s.as_bytes()) {
            return fail("urlencode/roundtrip", format!("percent-decoding {tpl}({:?}) = {:?} does not give the input back", s, e), tpl, s, &got);
        }
    }
    l.label("urlencode");
    Ok(())
}

pub fn check_slug(s: &str, l: &mut Local) -> Check {
    let got = run_s("slug", s);
    l.eval();
    let Out::Ok(e) = &got else { return fail("slug/failed", format!("slug of {:?} gave {:?}", s, got), "slug", s, &got) };
    // ^([a-z0-9]+(-[a-z0-9]+)*)?$
    let ok = e.is_empty() || (e.split('-').all(|part| !part.is_empty() && part.chars().all(|c| c.is_ascii_lowercase() || c.is_ascii_digit())));
    if !ok {
        return fail("slug/shape", format!("slug of {:?} = {:?}", s, e), "slug", s, &got);
    }
    l.label(if e.contains('-') { "slug:with-hyphen" } else { "slug:plain" });
    Ok(())
}

// ------------------------------------------------------------------------------------------
// JSON: minimal exact reader

#[derive(Debug, Clone, PartialEq)]
pub enum JV {
    Null,
    Bool(bool),
    /// exact text of the number
    Num(String),
    Str(String),
    Arr(Vec<JV>),
    Obj(Vec<(String, JV)>),
}
struct JP<'a> {
    b: &'a [u8],
    i: usize,
}
impl<'a> JP<'a> {
    fn ws(&mut self) {
        while self.i < self.b.len() && matches!(self.b[self.i], b' ' | b'\n' | b'\r' | b'\t') {
            self.i += 1;
        }
    }
    fn lit(&mut self, s: &str) -> Option<()> {
        if self.b[self.i..].starts_with(s.as_bytes()) {
            self.i += s.len();
            Some(())
        } else {
            None
        }
    }
    fn string(&mut self) -> Option<String> {
        if self.b.get(self.i) != Some(&b'"') {
            return None;
        }
        self.i += 1;
        let mut out: Vec<u16> = vec![];
        let mut s = String::new();
        let flush = |out: &mut Vec<u16>, s: &mut String| -> Option<()> {
            if !out.is_empty() {
                s.push_str(&String::from_utf16(out).ok()?);
                out.clear();
            }
            Some(())
        };
        loop {
            let c = *self.b.get(self.i)?;
            self.i += 1;
            match c {
                b'"' => {
                    flush(&mut out, &mut s)?;
                    return Some(s);
                }
                b'\\' => {
                    let e = *self.b.get(self.i)?;
                    self.i += 1;
                    let ch = match e {
                        b'"' => '"',
                        b'\\' => '\\',
                        b'/' => '/',
                        b'b' => '\u{8}',
                        b'f' => '\u{c}',
                        b'n' => '\n',
                        b'r' => '\r',
                        b't' => '\t',
                        b'u' => {
                            let h = std::str::from_utf8(self.b.get(self.i..self.i + 4)?).ok()?;
                            self.i += 4;
                            out.push(u16::from_str_radix(h, 16).ok()?);
                            continue;
                        }
                        _ => return None,
                    };
                    flush(&mut out, &mut s)?;
                    s.push(ch);
                }
                c if c < 0x20 => return None,
                _ => {
                    flush(&mut out, &mut s)?;
                    // copy one UTF-8 character
                    let start = self.i - 1;
                    let len = if c < 0x80 {
                        1
                    } else if c >> 5 == 0b110 {
                        2
                    } else if c >> 4 == 0b1110 {
                        3
                    } else {
                        4
                    };
                    s.push_str(std::str::from_utf8(self.b.get(start..start + len)?).ok()?);
                    self.i = start + len;
                }
            }
        }
    }
    fn value(&mut self) -> Option<JV> {
        self.ws();
        let c = *self.b.get(self.i)?;
        let v = match c {
            b'n' => {
                self.lit("null")?;
                JV::Null
            }
            b't' => {
                self.lit("true")?;
                JV::Bool(true)
            }
            b'f' => {
                self.lit("false")?;
                JV::Bool(false)
            }
            b'"' => JV::Str(self.string()?),
            b'[' => {
                self.i += 1;
                let mut v = vec![];
                self.ws();
                if self.b.get(self.i) == Some(&b']') {
                    self.i += 1;
                    return Some(JV::Arr(v));
                }
                loop {
                    v.push(self.value()?);
                    self.ws();
                    match *self.b.get(self.i)? {
                        b',' => self.i += 1,
                        b']' => {
                            self.i += 1;
                            break;
                        }
                        _ => return None,
                    }
                }
                JV::Arr(v)
            }
            b'{' => {
                self.i += 1;
                let mut v = vec![];
                self.ws();
                if self.b.get(self.i) == Some(&b'}') {
                    self.i += 1;
                    return Some(JV::Obj(v));
                }
                loop {
                    self.ws();
                    let k = self.string()?;
                    self.ws();
                    if *self.b.get(self.i)? != b':' {
                        return None;
                    }
                    self.i += 1;
                    let val = self.value()?;
                    v.push((k, val));
                    self.ws();
                    match *self.b.get(self.i)? {
                        b',' => self.i += 1,
                        b'}' => {
                            self.i += 1;
                            break;
                        }
                        _ => return None,
                    }
                }
                JV::Obj(v)
            }
            b'-' | b'0'..=b'9' => {
                let st = self.i;
                while self.i < self.b.len() && matches!(self.b[self.i], b'-' | b'+' | b'.' | b'e' | b'E' | b'0'..=b'9') {
                    self.i += 1;
                }
                JV::Num(std::str::from_utf8(&self.b[st..self.i]).ok()?.to_string())
            }
            _ => return None,
        };
        Some(v)
    }
}
pub fn parse_json(s: &str) -> Option<JV> {
    let mut p = JP { b: s.as_bytes(), i: 0 };
    let v = p.value()?;
    p.ws();
    if p.i == s.len() {
        Some(v)
    } else {
        None
    }
}

/// does the decoded JSON equal the model value under the documented normalisation?
fn json_matches(j: &JV, v: &MVal) -> bool {
    match (j, v) {
        (JV::Null, MVal::None | MVal::Undefined) => true,
        (JV::Bool(a), MVal::Bool(b)) => a == b,
        (JV::Num(t), MVal::Int(i)) => !t.contains(['.', 'e', 'E']) && t.parse::<i128>().ok() == Some(*i),
        (JV::Num(t), MVal::Big(i)) => !t.contains(['.', 'e', 'E']) && t.parse::<u128>().ok() == Some(*i),
        (JV::Num(t), MVal::Float(f)) => t.parse::<f64>().map(|g| g.to_bits() == f.to_bits()).unwrap_or(false) && (t.contains(['.', 'e', 'E'])),
        (JV::Str(a), MVal::Str(b, _)) => a == b,
        (JV::Arr(a), MVal::Bytes(b)) => a.len() == b.len() && a.iter().zip(b).all(|(x, y)| matches!(x, JV::Num(t) if t.parse::<u8>().ok() == Some(*y))),
        (JV::Arr(a), MVal::Array(b)) => a.len() == b.len() && a.iter().zip(b).all(|(x, y)| json_matches(x, y)),
        (JV::Obj(a), MVal::Map(b)) => {
            if a.len() != b.len() {
                return false;
            }
            let mut want: BTreeMap<String, &MVal> = BTreeMap::new();
            for (k, v) in b {
                want.insert(key_to_val(k).display(), v);
            }
            if want.len() != b.len() {
                return false; // colliding keys are excluded by the generator
            }
            a.iter().all(|(k, x)| want.get(k).map_or(false, |y| json_matches(x, y)))
        }
        _ => false,
    }
}
fn has_key_collision(v: &MVal) -> bool {
    match v {
        MVal::Array(a) => a.iter().any(has_key_collision),
        MVal::Map(m) => {
            let ks: std::collections::BTreeSet<String> = m.keys().map(|k| key_to_val(k).display()).collect();
            ks.len() != m.len() || m.values().any(has_key_collision)
        }
        _ => false,
    }
}

pub fn check_json(v: &MVal, salt: u64, l: &mut Local) -> Check {
    if v.contains_kind(&|x| matches!(x, MVal::Float(f) if !f.is_finite())) || has_key_collision(v) {
        l.discard();
        return Ok(());
    }
    let tv = to_tera_enc(v, &Enc::new(salt));
    for tpl in ["json", "jsonp"] {
        let got = run_t(tpl, "v", tv.clone());
        l.eval();
        let mk = |sig: &str, what: String| Err(Fail::new(if matches!(got, Out::Panic(_)) { format!("C20/panic/json") } else { format!("C20/json/{sig}") }, what, json!({"kind": "codec_json", "template": tpl, "v": to_json(v), "salt": salt, "observed": got.to_json()})));
        let Out::Ok(text) = &got else { return mk("failed", format!("{tpl} of {} gave {:?}", canon(v), got)) };
        if serde_json::from_str::<serde_json::Value>(text).is_err() {
            return mk("invalid", format!("{tpl} output is not valid JSON: {:?}", text));
        }
        let Some(j) = parse_json(text) else { return mk("invalid", format!("{tpl} output not accepted by the exact reader: {:?}", text)) };
        if !json_matches(&j, v) {
            return mk("data-differs", format!("{tpl} of {} decodes to different data: {:?}", canon(v), text));
        }
        if tpl == "json" && text.contains(['\n']) {
            return mk("compact-has-newline", format!("compact output contains a newline: {:?}", text));
        }
        if tpl == "jsonp" && matches!(v, MVal::Array(a) if !a.is_empty()) && !text.contains('\n') {
            return mk("pretty-ignored", format!("pretty output of a non-empty array has no newline: {:?}", text));
        }
    }
    l.label("json");
    if matches!(v, MVal::Array(_) | MVal::Map(_)) {
        l.label("json:container");
        l.nontrivial(hash_str(&canon(v)));
    }
    l.sample(|| json!({"filter": "json_encode", "value": to_json(v)}));
    Ok(())
}

// ------------------------------------------------------------------------------------------
// generators

pub fn any_string(max: usize) -> impl Strategy<Value = String> {
    let ch = prop_oneof![
        4 => (0x20u8..0x7f).prop_map(|b| b as char),
        2 => prop_oneof![Just('é'), Just('ß'), Just('日'), Just('😀'), Just('\u{301}'), Just('\u{a0}'), Just('İ'), Just('ǆ'), Just('Ω')],
        1 => (0u8..0x20).prop_map(|b| b as char),
        1 => any::<char>(),
        1 => prop_oneof![Just('-'), Just('_'), Just('+'), Just('/'), Just('='), Just('%'), Just(' '), Just('~'), Just('.')],
    ];
    prop::collection::vec(ch, 0..max).prop_map(|v| v.into_iter().collect())
}

pub fn value_strategy() -> impl Strategy<Value = MVal> {
    let leaf = prop_oneof![
        Just(MVal::None),
        Just(MVal::Undefined),
        any::<bool>().prop_map(MVal::Bool),
        (-5i128..5).prop_map(MVal::Int),
        any::<i64>().prop_map(|i| MVal::Int(i as i128)),
        any::<i128>().prop_map(MVal::Int),
        any::<u128>().prop_map(MVal::uint),
        any::<f64>().prop_map(MVal::Float),
        (-100i32..100).prop_map(|i| MVal::Float(i as f64 / 8.0)),
        prop_oneof![Just(0.0), Just(-0.0), Just(f64::MAX), Just(f64::MIN_POSITIVE), Just(5e-324), Just(1e21), Just(1e-7), Just(f64::NAN), Just(f64::INFINITY)].prop_map(MVal::Float),
        any_string(12).prop_map(|s| MVal::Str(s, false)),
        any_string(6).prop_map(|s| MVal::Str(s, true)),
        prop::collection::vec(any::<u8>(), 0..6).prop_map(MVal::Bytes),
    ];
    let key = prop_oneof![
        3 => any_string(6).prop_map(MKey::Str),
        1 => any::<bool>().prop_map(MKey::Bool),
        2 => (-3i128..3).prop_map(MKey::Int),
        1 => any::<i128>().prop_map(MKey::Int),
        1 => any::<u128>().prop_map(|b| if b > i128::MAX as u128 { MKey::Big(b) } else { MKey::Int(b as i128) }),
    ];
    leaf.prop_recursive(3, 24, 5, move |inner| prop_oneof![prop::collection::vec(inner.clone(), 0..5).prop_map(MVal::Array), prop::collection::vec((key.clone(), inner), 0..5).prop_map(|v| MVal::Map(v.into_iter().collect())),])
}

pub fn run(rep: &Report) {
    rep.set_rule("strings drawn from printable ASCII (every punctuation character), control characters, multi-byte and arbitrary Unicode, lengths 0..4096, pushed through `{{ s | b64_encode(url_safe=U, padded=P) | b64_decode(url_safe=U) }}` (4 option combinations + defaults), urlencode, urlencode_strict, slug; model values of every kind (integers in random encodings, i128/u128, safe strings, bytes, maps with integer/bool keys) through json_encode compact and pretty, decoded with serde_json and an exact-number JSON reader. Non-trivial: string with >= 1 character outside [A-Za-z0-9]; JSON value with >= 1 container. Distinct by input.");
    rep.assume("json_encode: values containing non-finite floats and maps whose keys collide once stringified (1 and \"1\") are outside the statement and are discarded (counted under discarded_budget)");
    rep.assume("base64 decoder validity oracle is three-valued: inputs that are certainly invalid (foreign symbol, length%4==1, payload not UTF-8) must be rejected, canonical inputs must be accepted, non-canonical trailing bits/padding are not judged");
    for k in rep.known.clone() {
        if let Some(Err(f)) = replay(rep, &k.repro) {
            rep.fail(f);
        }
    }
    // exhaustive: every ASCII byte alone and in context, every length 0..=9 (all padding cases)
    let mut fixed: Vec<String> = vec![];
    for b in 0u8..128 {
        fixed.push((b as char).to_string());
        fixed.push(format!("a{}b", b as char));
        fixed.push(format!("{}{}", b as char, b as char));
    }
    for n in 0..=9 {
        fixed.push("x".repeat(n));
        fixed.push("é".repeat(n));
        fixed.push("?>".repeat(n));
    }
    fixed.push("a".repeat(4096));
    fixed.push("日本語".repeat(700));
    run_enum(rep, "fixed_strings", &fixed, |s, l| {
        check_b64(s, l)?;
        check_url(s, l)?;
        check_slug(s, l)?;
        if !s.chars().all(|c| c.is_ascii_alphanumeric()) {
            l.nontrivial(hash_str(s));
        }
        Ok(())
    });
    run_family(rep, "random_strings", rep.tier.scale(150_000, 30), || prop_oneof![8 => any_string(40), 1 => any_string(600), 1 => any_string(4096)], |s, l| {
        check_b64(s, l)?;
        check_url(s, l)?;
        check_slug(s, l)?;
        if !s.chars().all(|c| c.is_ascii_alphanumeric()) {
            l.nontrivial(hash_str(s));
        }
        l.sample(|| json!({"string": s.chars().take(60).collect::<String>()}));
        Ok(())
    });
    // decoder inputs: mutate valid encodings and raw soup
    let soup = prop::collection::vec(prop_oneof![6 => "[A-Za-z0-9]", 2 => "[+/_=-]", 1 => "[ !.%\n]", 1 => any::<char>().prop_map(|c| c.to_string())], 0..24).prop_map(|v| v.concat());
    run_family(rep, "decoder_inputs", rep.tier.scale(150_000, 30), move || (soup.clone(), any::<bool>()), |(s, u), l| check_b64_invalid(s, *u, l));
    run_family(rep, "json_values", rep.tier.scale(150_000, 30), || (value_strategy(), any::<u64>()), |(v, salt), l| check_json(v, *salt, l));
    rep.floor("b64:len%3=0", 1000);
    rep.floor("b64:len%3=1", 1000);
    rep.floor("b64:len%3=2", 1000);
    rep.floor("b64:invalid-input", 10_000);
    rep.floor("b64:valid-input", 1000);
    rep.floor("json:container", 10_000);
    rep.floor("slug:with-hyphen", 10_000);
}

pub fn replay(_rep: &Report, case: &serde_json::Value) -> Option<Check> {
    let mut l = Local::new();
    match case.get("kind")?.as_str()? {
        "codec_string" => {
            let s = case.get("s")?.as_str()?;
            let tpl = case.get("template")?.as_str()?;
            Some(if tpl.starts_with("dec") {
                check_b64_invalid(s, tpl == "dec1", &mut l).and_then(|_| Ok(()))
            } else {
                check_b64(s, &mut l).and_then(|_| check_url(s, &mut l)).and_then(|_| check_slug(s, &mut l))
            })
        }
        "codec_json" => Some(check_json(&from_json(case.get("v")?)?, case.get("salt")?.as_u64()?, &mut l)),
        _ => None,
    }
}
