//! C01 — Autoescaping: data never reaches an autoescaped output unescaped.
use crate::core::*;
use crate::expr::*;
use crate::mval::*;
use crate::stmt::*;
use proptest::prelude::*;
use serde_json::json;
use std::collections::BTreeMap;
use tera::{Filter, Function, Kwargs, State};

use super::c02::R;

fn bx(e: E) -> Box<E> {
    Box::new(e)
}

pub const HOT: &[&str] = &["<", ">", "\"", "'", "&", "<b>", "a<b", "&amp;", "x'y\"z", "<é>", "&lt;", "'", "<<>>", "日<本", "&&", "<a href=\"x\">", "<script>alert('a string longer than twenty-one bytes')</script>", "a rather long key without anything special until here: <'\">"];

struct ZSafe;
impl Filter<tera::Value, String> for ZSafe {
    fn call(&self, v: tera::Value, _: Kwargs, _: &State) -> String {
        format!("{v}")
    }
    fn is_safe(&self) -> bool {
        true
    }
}
struct ZSafeFn;
impl Function<tera::TeraResult<String>> for ZSafeFn {
    fn call(&self, k: Kwargs, _: &State) -> tera::TeraResult<String> {
        Ok(format!("{}", k.must_get::<tera::Value>("v")?))
    }
    fn is_safe(&self) -> bool {
        true
    }
}
fn mark_escape(s: &str, w: &mut dyn std::io::Write) -> std::io::Result<()> {
    w.write_all("\u{e000}".as_bytes())?;
    w.write_all(s.as_bytes())?;
    w.write_all("\u{e001}".as_bytes())
}
fn mark_model(s: &str) -> String {
    format!("\u{e000}{s}\u{e001}")
}

// ------------------------------------------------------------------------------------------
// flows

#[derive(Debug, Clone, PartialEq)]
pub enum XHop {
    TernaryThen,
    TernaryElse,
    OrRight,
    AndRight,
    Default,
    ArrFirst,
    ArrLast,
    ArrIndex,
    ArrNth,
    MapIndex,
    MapGet,
    MapValuesFirst,
    Slice,
    Index0,
    ConcatL,
    ConcatR,
    ConcatBoth,
    Filter(&'static str),
    JoinArr,
    SplitJoin,
    Safe,
    ZSafe,
    ZPlain,
    ZSafeFn,
    ZPlainFn,
    ArrayLiteral,
    MapLiteral,
    Comprehension,
}
#[derive(Debug, Clone, PartialEq)]
pub enum Hop {
    Assign(bool),
    LoopArr,
    LoopStr,
    LoopMap(bool),
    Capture(Option<&'static str>),
    CaptureGlobal,
    FilterSection(&'static str),
    Include,
    CompArg(u8),
    CompBody,
    CompResult,
    Block,
    X(XHop),
}
#[derive(Debug, Clone, PartialEq)]
pub enum Source {
    CtxStr(usize),
    CtxSafeStr(usize),
    CtxArr(usize),
    CtxMapVal(usize),
    CtxMapKey(usize),
    CtxBytes,
    CtxNested(usize),
    Literal(usize),
    GlobalCtx(usize),
    TeraContext(usize),
}
#[derive(Debug, Clone)]
pub struct Flow {
    pub source: Source,
    pub hops: Vec<Hop>,
    /// 0 plain `{{ v }}`, 1 `{{ v }}` inside a set block printed afterwards, 2 inside a filter section, 3 as `{{ [v] }}` (container), 4 `{{ v | str }}`
    pub sink: u8,
}

const STR_FILTERS: &[&str] = &["str", "upper", "lower", "trim", "trim_start", "trim_end", "capitalize", "title", "reverse", "escape_html", "escape_xml", "newlines_to_br", "indent"];
fn xhop(allow_safe: bool) -> BoxedStrategy<XHop> {
    let mut v: Vec<(u32, BoxedStrategy<XHop>)> = vec![
        (8, prop::sample::select(vec![XHop::TernaryThen, XHop::TernaryElse, XHop::OrRight, XHop::AndRight, XHop::Default, XHop::ArrFirst, XHop::ArrLast, XHop::ArrIndex, XHop::ArrNth, XHop::MapIndex, XHop::MapGet, XHop::MapValuesFirst, XHop::Slice, XHop::Index0, XHop::ConcatL, XHop::ConcatR, XHop::ConcatBoth, XHop::JoinArr, XHop::SplitJoin, XHop::ZPlain, XHop::ZPlainFn, XHop::ArrayLiteral, XHop::MapLiteral, XHop::Comprehension]).boxed()),
        (6, prop::sample::select(STR_FILTERS).prop_map(XHop::Filter).boxed()),
        (1, prop::sample::select(vec!["truncate", "replace"]).prop_map(XHop::Filter).boxed()),
    ];
    if allow_safe {
        v.push((2, prop::sample::select(vec![XHop::Safe, XHop::ZSafe, XHop::ZSafeFn]).boxed()));
    }
    proptest::strategy::Union::new_weighted(v).boxed()
}
fn hop(allow_safe: bool) -> BoxedStrategy<Hop> {
    prop_oneof![
        3 => any::<bool>().prop_map(Hop::Assign),
        2 => Just(Hop::LoopArr),
        1 => Just(Hop::LoopStr),
        1 => any::<bool>().prop_map(Hop::LoopMap),
        2 => prop::option::of(prop::sample::select(vec!["upper", "trim", "str", "escape_html"])).prop_map(Hop::Capture),
        1 => Just(Hop::CaptureGlobal),
        2 => prop::sample::select(vec!["upper", "trim", "str", "lower", "title"]).prop_map(Hop::FilterSection),
        2 => Just(Hop::Include),
        2 => (0u8..3).prop_map(Hop::CompArg),
        1 => Just(Hop::CompBody),
        1 => Just(Hop::CompResult),
        1 => Just(Hop::Block),
        10 => xhop(allow_safe).prop_map(Hop::X),
    ]
    .boxed()
}
fn source() -> BoxedStrategy<Source> {
    let i = 0..HOT.len();
    prop_oneof![5 => i.clone().prop_map(Source::CtxStr), 1 => i.clone().prop_map(Source::CtxSafeStr), 2 => i.clone().prop_map(Source::CtxArr), 2 => i.clone().prop_map(Source::CtxMapVal), 1 => i.clone().prop_map(Source::CtxMapKey), 1 => Just(Source::CtxBytes), 1 => i.clone().prop_map(Source::CtxNested), 3 => i.clone().prop_map(Source::Literal), 1 => i.clone().prop_map(Source::GlobalCtx), 1 => i.prop_map(Source::TeraContext)].boxed()
}
pub fn flow(max_hops: usize, allow_safe: bool) -> BoxedStrategy<Flow> {
    (source(), prop::collection::vec(hop(allow_safe), 0..=max_hops), 0u8..5).prop_map(|(source, hops, sink)| Flow { source, hops, sink }).boxed()
}

/// everything the flows of one program need: templates, components, context entries
pub struct Builder {
    pub templates: BTreeMap<String, Tpl>,
    pub comps: Vec<CompDef>,
    pub ctx: Ctx,
    pub glob: Ctx,
    counter: usize,
    pub labels: Vec<String>,
    auto_of_new_templates: bool,
}
impl Builder {
    fn fresh(&mut self, p: &str) -> String {
        self.counter += 1;
        format!("{p}{}", self.counter)
    }
    fn src_expr(&mut self, s: &Source) -> E {
        match s {
            Source::CtxStr(i) => {
                let n = self.fresh("cs");
                self.ctx.insert(n.clone(), MVal::s(HOT[*i]));
                E::Var(n)
            }
            Source::CtxSafeStr(i) => {
                let n = self.fresh("ch");
                self.ctx.insert(n.clone(), MVal::safe(HOT[*i]));
                E::Var(n)
            }
            Source::CtxArr(i) => {
                let n = self.fresh("ca");
                self.ctx.insert(n.clone(), MVal::Array(vec![MVal::s(HOT[*i]), MVal::Int(1), MVal::s("'")]));
                E::Var(n)
            }
            Source::CtxMapVal(i) => {
                let n = self.fresh("cm");
                self.ctx.insert(n.clone(), MVal::smap(vec![("k", MVal::s(HOT[*i])), ("n", MVal::Int(2))]));
                E::Attr(bx(E::Var(n)), "k".into(), false)
            }
            Source::CtxMapKey(i) => {
                let n = self.fresh("ck");
                self.ctx.insert(n.clone(), MVal::Map([(MKey::Str(HOT[*i].to_string()), MVal::Int(1))].into_iter().collect()));
                E::Filter(bx(E::Filter(bx(E::Var(n)), "keys".into(), vec![])), "first".into(), vec![])
            }
            Source::CtxBytes => {
                let n = self.fresh("cb");
                self.ctx.insert(n.clone(), MVal::Bytes(b"<by'tes>&".to_vec()));
                E::Var(n)
            }
            Source::CtxNested(i) => {
                let n = self.fresh("cn");
                self.ctx.insert(n.clone(), MVal::smap(vec![("a", MVal::smap(vec![("b", MVal::Array(vec![MVal::s(HOT[*i])]))]))]));
                E::Index(bx(E::Attr(bx(E::Attr(bx(E::Var(n)), "a".into(), false)), "b".into(), false)), bx(E::Int(0)), false)
            }
            Source::Literal(i) => E::Str(HOT[*i].to_string()),
            Source::GlobalCtx(i) => {
                let n = self.fresh("cg");
                self.glob.insert(n.clone(), MVal::s(HOT[*i]));
                E::Var(n)
            }
            Source::TeraContext(i) => {
                let n = self.fresh("ct");
                self.ctx.insert(n.clone(), MVal::s(HOT[*i]));
                E::Index(bx(E::Var("__tera_context".into())), bx(E::Str(n)), false)
            }
        }
    }
    fn xhop(&mut self, h: &XHop, cur: E) -> E {
        let s = |x: &str| E::Str(x.to_string());
        let one = |e: E| E::Array(vec![Item::One(e)]);
        match h {
            XHop::TernaryThen => E::Ternary(bx(E::Bool(true)), bx(cur), bx(s("no"))),
            XHop::TernaryElse => E::Ternary(bx(E::Int(0)), bx(s("no")), bx(cur)),
            XHop::OrRight => E::Bin(Bin::Or, bx(s("")), bx(cur)),
            XHop::AndRight => E::Bin(Bin::And, bx(E::Int(1)), bx(cur)),
            XHop::Default => E::Filter(bx(E::Var("zz_unbound".into())), "default".into(), vec![("value".into(), cur)]),
            XHop::ArrFirst => E::Filter(bx(one(cur)), "first".into(), vec![]),
            XHop::ArrLast => E::Filter(bx(E::Array(vec![Item::One(E::Int(0)), Item::One(cur)])), "last".into(), vec![]),
            XHop::ArrIndex => E::Index(bx(one(cur)), bx(E::Int(0)), false),
            XHop::ArrNth => E::Filter(bx(E::Array(vec![Item::One(E::Int(0)), Item::One(cur)])), "nth".into(), vec![("n".into(), E::Int(1))]),
            XHop::MapIndex => E::Index(bx(E::Map(vec![Entry::Kv(MKey::Str("k".into()), cur)])), bx(s("k")), false),
            XHop::MapGet => E::Filter(bx(E::Map(vec![Entry::Kv(MKey::Str("k".into()), cur)])), "get".into(), vec![("key".into(), s("k"))]),
            XHop::MapValuesFirst => E::Filter(bx(E::Filter(bx(E::Map(vec![Entry::Kv(MKey::Str("k".into()), cur)])), "values".into(), vec![])), "first".into(), vec![]),
            XHop::Slice => E::Slice(bx(cur), Some(bx(E::Int(0))), None, None, false),
            XHop::Index0 => E::Index(bx(cur), bx(E::Int(0)), false),
            XHop::ConcatL => E::Bin(Bin::Concat, bx(cur), bx(s("-t"))),
            XHop::ConcatR => E::Bin(Bin::Concat, bx(s("h-")), bx(cur)),
            XHop::ConcatBoth => E::Bin(Bin::Concat, bx(cur.clone()), bx(cur)),
            XHop::Filter("truncate") => E::Filter(bx(cur), "truncate".into(), vec![("length".into(), E::Int(100))]),
            XHop::Filter("replace") => E::Filter(bx(cur), "replace".into(), vec![("from".into(), s("zq")), ("to".into(), s("<r>"))]),
            XHop::Filter(f) => E::Filter(bx(cur), f.to_string(), vec![]),
            XHop::JoinArr => E::Filter(bx(E::Array(vec![Item::One(cur.clone()), Item::One(cur)])), "join".into(), vec![("sep".into(), s("'"))]),
            XHop::SplitJoin => E::Filter(bx(E::Filter(bx(cur), "split".into(), vec![("pat".into(), s("zq"))])), "join".into(), vec![]),
            XHop::Safe => E::Filter(bx(cur), "safe".into(), vec![]),
            XHop::ZSafe => E::Filter(bx(cur), "zsafe".into(), vec![]),
            XHop::ZPlain => E::Filter(bx(cur), "zplain".into(), vec![]),
            XHop::ZSafeFn => E::Call("zsafe_fn".into(), vec![("v".into(), cur)]),
            XHop::ZPlainFn => E::Call("zplain_fn".into(), vec![("v".into(), cur)]),
            XHop::ArrayLiteral => E::Array(vec![Item::One(cur), Item::One(E::Int(1))]),
            XHop::MapLiteral => E::Map(vec![Entry::Kv(MKey::Str("q'".into()), cur)]),
            XHop::Comprehension => E::Filter(bx(E::Comp { elem: bx(E::Var("zc".into())), key: None, val: "zc".into(), target: bx(one(cur)), cond: None }), "first".into(), vec![]),
        }
    }
    /// statements that carry `cur` through the remaining hops to the sink
    fn build(&mut self, hops: &[Hop], cur: E, sink: u8, in_loop: bool, can_block: bool) -> Vec<S> {
        let Some((h, rest)) = hops.split_first() else {
            self.labels.push(format!("sink:{}", if matches!(cur, E::Var(_) | E::Attr(..)) && is_chain(&cur) && sink % 5 == 0 { "write-path" } else { "write-top" }));
            return match sink % 5 {
                0 => vec![S::Text("(".into()), S::Print(cur), S::Text(")".into())],
                1 => {
                    let v = self.fresh("sk");
                    vec![S::SetBlock { name: v.clone(), filters: vec![], body: vec![S::Text("(".into()), S::Print(cur), S::Text(")".into())], global: false }, S::Print(E::Var(v))]
                }
                2 => vec![S::Filter { name: "trim".into(), kwargs: vec![], body: vec![S::Text(" (".into()), S::Print(cur), S::Text(") ".into())] }],
                3 => vec![S::Text("(".into()), S::Print(E::Array(vec![Item::One(cur)])), S::Text(")".into())],
                _ => vec![S::Text("(".into()), S::Print(E::Filter(bx(cur), "str".into(), vec![])), S::Text(")".into())],
            };
        };
        self.labels.push(format!("hop:{}", match h {
            Hop::X(XHop::Filter(f)) => format!("filter-{f}"),
            Hop::X(x) => format!("{:?}", x),
            Hop::Capture(f) => format!("Capture{}", if f.is_some() { "+filter" } else { "" }),
            Hop::FilterSection(_) => "FilterSection".into(),
            Hop::CompArg(f) => format!("CompArg{f}"),
            Hop::LoopMap(kv) => format!("LoopMap{}", if *kv { "KV" } else { "" }),
            other => format!("{:?}", other),
        }));
        match h {
            Hop::X(x) => {
                let e = self.xhop(x, cur.clone());
                // respect the parser's limits (2 array dimensions, 4 nested subscripts, depth): break the expression with an assignment
                if !crate::exprgen::within_limits(&E::Array(vec![Item::One(E::Array(vec![Item::One(e.clone())]))])) && !matches!(cur, E::Var(_)) {
                    let v = self.fresh("t");
                    let e2 = self.xhop(x, E::Var(v.clone()));
                    let mut out = vec![S::Set { name: v, e: cur, global: false }];
                    out.extend(self.build(rest, e2, sink, in_loop, can_block));
                    return out;
                }
                self.build(rest, e, sink, in_loop, can_block)
            }
            Hop::Assign(global) => {
                let v = self.fresh("v");
                let mut out = vec![S::Set { name: v.clone(), e: cur, global: *global }];
                out.extend(self.build(rest, E::Var(v), sink, in_loop, can_block));
                out
            }
            Hop::LoopArr => {
                let v = self.fresh("l");
                let body = self.build(rest, E::Var(v.clone()), sink, true, false);
                vec![S::For { key: None, val: v, target: E::Array(vec![Item::One(cur), Item::One(E::Str("&2".into()))]), body, els: None }]
            }
            Hop::LoopStr => {
                let v = self.fresh("c");
                let body = self.build(rest, E::Var(v.clone()), sink, true, false);
                vec![S::For { key: None, val: v, target: E::Filter(bx(cur), "str".into(), vec![]), body, els: None }]
            }
            Hop::LoopMap(kv) => {
                let v = self.fresh("m");
                let body = self.build(rest, E::Var(v.clone()), sink, true, false);
                vec![S::For { key: if *kv { Some("zk".into()) } else { None }, val: v, target: E::Map(vec![Entry::Kv(MKey::Str("o'k".into()), cur)]), body, els: None }]
            }
            Hop::Capture(f) => {
                let v = self.fresh("cap");
                let mut out = vec![S::SetBlock { name: v.clone(), filters: f.iter().map(|f| (f.to_string(), vec![])).collect(), body: vec![S::Text("[".into()), S::Print(cur), S::Text("]".into())], global: false }];
                out.extend(self.build(rest, E::Var(v), sink, in_loop, can_block));
                out
            }
            Hop::CaptureGlobal => {
                let v = self.fresh("gcap");
                let mut out = vec![S::SetBlock { name: v.clone(), filters: vec![], body: vec![S::Print(cur)], global: true }];
                out.extend(self.build(rest, E::Var(v), sink, in_loop, can_block));
                out
            }
            Hop::FilterSection(f) => {
                let body = self.build(rest, cur, sink, in_loop, can_block);
                vec![S::Filter { name: f.to_string(), kwargs: vec![], body }]
            }
            Hop::Include => {
                let v = self.fresh("iv");
                let name = self.fresh("inc");
                let name = format!("{name}{}", if self.auto_of_new_templates { ".html" } else { ".txt" });
                let body = self.build(rest, E::Var(v.clone()), sink, false, true);
                self.templates.insert(name.clone(), Tpl { body, autoescape: self.auto_of_new_templates, parent: None, components: vec![] });
                vec![S::Set { name: v, e: cur, global: false }, S::Include(name)]
            }
            Hop::CompArg(form) => {
                let cname = self.fresh("K");
                let body = self.build(rest, E::Var("p".into()), sink, false, false);
                self.comps.push(CompDef { name: cname.clone(), params: vec![CParam { name: "p".into(), ty: None, default: None }], rest: None, body });
                match form % 3 {
                    0 => vec![S::Comp { name: cname, args: vec![CArg::Named("p".into(), cur)], body: None }],
                    1 => {
                        // shorthand: a caller variable called p
                        vec![S::Set { name: "p".into(), e: cur, global: false }, S::Comp { name: cname, args: vec![CArg::Short("p".into())], body: None }]
                    }
                    _ => vec![S::Comp { name: cname, args: vec![CArg::Spread(E::Map(vec![Entry::Kv(MKey::Str("p".into()), cur)]))], body: None }],
                }
            }
            Hop::CompBody => {
                let cname = self.fresh("W");
                self.comps.push(CompDef { name: cname.clone(), params: vec![], rest: None, body: vec![S::Text("<w>".into()), S::Print(E::Var("body".into())), S::Text("</w>".into())] });
                // the wrapper writes literal markup: in the invariant family literal text must be clean, so use a clean wrapper there
                let body = self.build(rest, cur, sink, in_loop, false);
                vec![S::Comp { name: cname, args: vec![], body: Some(body) }]
            }
            Hop::CompResult => {
                let cname = self.fresh("R");
                let v = self.fresh("rv");
                self.comps.push(CompDef { name: cname.clone(), params: vec![CParam { name: "p".into(), ty: None, default: None }], rest: None, body: vec![S::Text("[".into()), S::Print(E::Var("p".into())), S::Text("]".into())] });
                let mut out = vec![S::Set { name: v.clone(), e: E::Var("zz_component_call".into()), global: false }];
                // `{% set v = <R p={cur} /> %}`: a component call is an expression; modelled as a capture of the call
                out[0] = S::SetBlock { name: v.clone(), filters: vec![], body: vec![S::Comp { name: cname, args: vec![CArg::Named("p".into(), cur)], body: None }], global: false };
                out.extend(self.build(rest, E::Var(v), sink, in_loop, can_block));
                out
            }
            Hop::Block => {
                if !can_block || in_loop {
                    return self.build(rest, cur, sink, in_loop, can_block);
                }
                let b = self.fresh("blk");
                let v = self.fresh("bv");
                let body = self.build(rest, E::Var(v.clone()), sink, false, true);
                vec![S::Set { name: v, e: cur, global: false }, S::Block { name: b, body }]
            }
        }
    }
}

#[derive(Debug, Clone, Copy, PartialEq)]
pub enum Cfg {
    /// every template escapes, default escaper: invariant + exact text
    AllOn,
    /// marking escaper
    Marking,
    /// entry escapes, includes do not (and vice versa); exact text only
    Mixed(bool),
    /// render through a child template that wraps the flow block with super()
    ChildSuper,
    /// custom suffix list set after the templates were added
    SuffixAfter,
    /// render_str with the flag
    RenderStr(bool),
}

pub fn check_program(flows: &[Flow], cfg: Cfg, salt: u64, l: &mut Local) -> Check {
    let entry_auto = !matches!(cfg, Cfg::Mixed(false) | Cfg::RenderStr(false));
    let inc_auto = match cfg {
        Cfg::Mixed(b) => !b,
        Cfg::RenderStr(b) => b, // includes keep their own suffix-based setting unless overridden: render_str overrides
        _ => true,
    };
    let mut b = Builder { templates: BTreeMap::new(), comps: vec![], ctx: Ctx::new(), glob: Ctx::new(), counter: 0, labels: vec![], auto_of_new_templates: inc_auto };
    let mut body = vec![];
    for f in flows {
        let cur = b.src_expr(&f.source);
        b.labels.push(format!("source:{}", format!("{:?}", f.source).split('(').next().unwrap()));
        let can_block = !matches!(cfg, Cfg::RenderStr(_));
        body.extend(b.build(&f.hops, cur, f.sink, false, can_block));
        body.push(S::Text(";".into()));
    }
    let main = if entry_auto { "main.html" } else { "main.txt" }.to_string();
    let mut entry = main.clone();
    match cfg {
        Cfg::ChildSuper => {
            b.templates.insert(main.clone(), Tpl { body: vec![S::Block { name: "wrap".into(), body }], autoescape: true, parent: None, components: vec![] });
            entry = "child.html".to_string();
            b.templates.insert(entry.clone(), Tpl { body: vec![S::Block { name: "wrap".into(), body: vec![S::Text("[".into()), S::Super, S::Text("|".into()), S::Super, S::Text("]".into())] }], autoescape: true, parent: Some(main.clone()), components: vec![] });
        }
        _ => {
            b.templates.insert(main.clone(), Tpl { body, autoescape: entry_auto, parent: None, components: vec![] });
        }
    }
    b.templates.insert("lib.txt".into(), Tpl { body: vec![], autoescape: false, parent: None, components: b.comps.clone() });
    let comps: BTreeMap<String, CompDef> = b.comps.iter().map(|c| (c.name.clone(), c.clone())).collect();
    let over = match cfg {
        Cfg::RenderStr(f) => Some(f),
        _ => None,
    };
    let w = World { templates: &b.templates, components: &comps, escape: if cfg == Cfg::Marking { mark_model } else { escape_html }, autoescape_override: over, sorted_map_loops: false };
    let model = match model_render(&w, &entry, &b.ctx, Some(&b.glob), None) {
        Some(m) => m.map(|(s, _)| s),
        None => {
            l.discard();
            return Ok(());
        }
    };
    // suffix spelling: in a share of the cases the escaping suffix `.html` of every template name is re-spelled
    // (upper case, mixed case, no dot, non-ASCII) and configured with autoescape_on; the model is unaffected
    const SUFFIXES: [&str; 5] = [".html", ".HTML", ".Tpl", "_Email.J2", ".html.\u{c9}x"];
    let suffix = if matches!(cfg, Cfg::SuffixAfter | Cfg::AllOn | Cfg::Mixed(_) | Cfg::ChildSuper) { SUFFIXES[[0, 0, 0, 1, 2, 3, 4, 1][(splitmix(salt ^ 0x5aff) % 8) as usize]] } else { ".html" };
    let respell = |x: &str| if suffix == ".html" { x.to_string() } else { x.replace(".html", suffix) };
    let sources: Vec<(String, String)> = b.templates.iter().map(|(n, t)| (respell(n), respell(&t.source()))).collect();
    let (entry, main) = (respell(&entry), respell(&main));
    let case = || json!({"kind": "autoescape", "templates": sources, "entry": entry, "context": ctx_to_json(&b.ctx), "global": ctx_to_json(&b.glob), "cfg": format!("{:?}", cfg), "salt": salt, "suffix": suffix});
    // engine
    let got = match guard(|| -> R {
        let mut t = tera::Tera::new();
        t.register_filter("zsafe", ZSafe);
        t.register_filter("zplain", |v: tera::Value, _: Kwargs, _: &State| format!("{v}"));
        t.register_function("zsafe_fn", ZSafeFn);
        t.register_function("zplain_fn", |k: Kwargs, _: &State| -> tera::TeraResult<String> { Ok(format!("{}", k.must_get::<tera::Value>("v")?)) });
        if cfg == Cfg::Marking {
            t.set_escape_fn(mark_escape);
        }
        let enc = Enc::new(salt);
        for (k, v) in &b.glob {
            t.global_context().insert_value(k.clone(), to_tera_enc(v, &enc));
        }
        let tc = ctx_to_tera_enc(&b.ctx, &enc);
        if let Cfg::RenderStr(flag) = cfg {
            // the main template is rendered as a one-off string; includes and components are registered
            let others: Vec<(String, String)> = sources.iter().filter(|s| s.0 != main).cloned().collect();
            if let Err(e) = t.add_raw_templates(others) {
                return R::Syntax(e.to_string());
            }
            let src = sources.iter().find(|s| s.0 == main).map(|s| s.1.clone()).unwrap_or_default();
            return match t.render_str(&src, &tc, flag) {
                Ok(s) => R::Ok(s),
                Err(e) => R::Err(e.to_string()),
            };
        }
        if cfg == Cfg::SuffixAfter {
            // start with escaping off everywhere, add the templates, then switch the suffix list on
            t.autoescape_on(Vec::<&str>::new());
        } else if suffix != ".html" {
            t.autoescape_on(vec![suffix]);
        }
        if let Err(e) = t.add_raw_templates(sources.clone()) {
            return R::Syntax(e.to_string());
        }
        if cfg == Cfg::SuffixAfter {
            t.autoescape_on(vec![suffix]);
        }
        match t.render(&entry, &tc) {
            Ok(s) => R::Ok(s),
            Err(e) => R::Err(e.to_string()),
        }
    }) {
        Ok(r) => r,
        Err(p) => R::Panic(p),
    };
    l.eval();
    let verdict = match (&model, &got) {
        (Ok(a), R::Ok(b)) if a == b => None,
        (Err(()), R::Err(_)) => None,
        (_, R::Panic(_)) => Some("C01/panic"),
        (_, R::Syntax(_)) => Some("C01/valid-program-rejected"),
        (Ok(_), R::Ok(_)) => Some(if cfg == Cfg::Marking { "C01/escape-function-application-differs" } else { "C01/wrong-output" }),
        (Ok(_), R::Err(_)) => Some("C01/expected-output-got-error"),
        (Err(()), R::Ok(_)) => Some("C01/expected-error-got-output"),
    };
    if let Some(sig) = verdict {
        let mut c = case();
        c["expected"] = json!(format!("{:?}", model));
        c["observed"] = got.json();
        return Err(Fail::new(sig, format!("{:?} [{:?}] ctx {}: model {:?}, engine {}", sources, cfg, ctx_to_json(&b.ctx), model, got.json()), c));
    }
    // invariant, independent of the model: with the default escaper, no `safe`, every template escaping
    let uses_safe = flows.iter().any(|f| f.hops.iter().any(|h| matches!(h, Hop::X(XHop::Safe | XHop::ZSafe | XHop::ZSafeFn) | Hop::CompBody)) || matches!(f.source, Source::CtxSafeStr(_)));
    if let (R::Ok(out), true) = (&got, matches!(cfg, Cfg::AllOn | Cfg::ChildSuper | Cfg::SuffixAfter | Cfg::RenderStr(true)) && !uses_safe) {
        let bad_char = out.chars().any(|c| matches!(c, '<' | '>' | '"' | '\''));
        // (the statement lists these four characters; `&` is not claimed: slicing an already escaped capture may cut an entity)
        if bad_char {
            let mut c = case();
            c["observed"] = got.json();
            return Err(Fail::new("C01/unescaped-character-in-output", format!("{:?} [{:?}] ctx {}: output {:?} contains an unescaped special character", sources, cfg, ctx_to_json(&b.ctx), out), c));
        }
        l.label("invariant-checked");
    }
    if let Ok(m) = &model {
        l.label("render:ok");
        for lab in &b.labels {
            l.label(lab);
        }
        l.label(&format!("cfg:{}", format!("{:?}", cfg).split('(').next().unwrap()));
        let hot_reached = m.contains("&lt;") || m.contains("&amp;") || m.contains("&#39;") || m.contains("&quot;") || m.contains("&gt;") || m.contains('\u{e000}') || m.contains('<') || m.contains('\'');
        if hot_reached {
            l.nontrivial(hash_of(&(sources.clone(), format!("{:?}", cfg))));
        }
        l.sample(|| json!({"main": sources.iter().find(|s| s.0 == main).map(|s| s.1.chars().take(500).collect::<String>()), "cfg": format!("{:?}", cfg), "output": m.chars().take(300).collect::<String>()}));
    } else {
        l.label("render:error");
    }
    Ok(())
}

fn cfg_strategy() -> BoxedStrategy<Cfg> {
    prop_oneof![6 => Just(Cfg::AllOn), 4 => Just(Cfg::Marking), 2 => any::<bool>().prop_map(Cfg::Mixed), 2 => Just(Cfg::ChildSuper), 1 => Just(Cfg::SuffixAfter), 2 => any::<bool>().prop_map(Cfg::RenderStr)].boxed()
}

/// render_component through the API with both autoescape flags
// ------------------------------------------------------------------------------------------
// data that enters through serde: enum variant names, struct field names, chars, tuples, options, newtypes

#[derive(serde::Serialize, Clone, Copy)]
enum HotUnit {
    #[serde(rename = "<b>")]
    A,
    #[serde(rename = "'q\"")]
    B,
    #[serde(rename = "a&<'")]
    C,
    Plain,
}
#[derive(serde::Serialize)]
struct HotNew(String);
#[derive(serde::Serialize)]
enum HotShape {
    #[serde(rename = "<n>")]
    N(String),
    #[serde(rename = "'t'")]
    T(String, char),
    #[serde(rename = "\"s\"")]
    S {
        #[serde(rename = "<f>")]
        f: String,
    },
}
#[derive(serde::Serialize)]
struct HotStruct {
    name: String,
    #[serde(rename = "<k>")]
    weird: String,
    e: HotUnit,
    o: Option<String>,
    c: char,
    t: (String, HotUnit),
    v: Vec<String>,
    m: BTreeMap<String, String>,
    nt: HotNew,
    sh: Vec<HotShape>,
    cow: std::borrow::Cow<'static, str>,
}
pub const SERDE_TEMPLATES: &[&str] = &[
    "{{ v }}", "{{ v.name }}", "{{ v.e }}", "{{ v.o }}", "{{ v.c }}", "{{ v.t }}", "{{ v.t[1] }}", "{{ v.v }}", "{{ v.m }}", "{{ v.nt }}", "{{ v.sh }}", "{{ v.cow }}",
    "{{ v.e ~ v.c }}", "{{ [v.e, v.c] }}", "{{ v.e | upper }}", "{{ v.e | default(value=1) }}", "{% set z = v.e %}{{ z }}{% set y %}{{ v.e }}{% endset %}{{ y }}",
    "{% for k, x in v.m %}{{ k }}={{ x }};{% endfor %}", "{% for k, x in v %}{{ k }}:{% endfor %}", "{% for x in v.sh %}{% for k, y in x %}{{ k }}={{ y }};{% endfor %}{% endfor %}",
    "{{ v.e if true else 1 }}", "{{ v.e or 1 }}", "{{ v.v | first }}{{ v.v | join(sep=v.c) }}", "{% for ch in v.name %}{{ ch }}{% endfor %}", "{{ u }}{{ [u] }}{{ u ~ u }}",
];
/// with the default escaper, no `safe` and an escaping template, nothing that came through serde reaches the output unescaped
pub fn check_serde_source(hi: usize, ti: usize, api: u8, l: &mut Local) -> Check {
    let hot = HOT[hi];
    let unit = [HotUnit::A, HotUnit::B, HotUnit::C, HotUnit::Plain][hi % 4];
    let v = HotStruct {
        name: hot.to_string(),
        weird: hot.to_string(),
        e: unit,
        o: Some(hot.to_string()),
        c: hot.chars().next().unwrap_or('<'),
        t: (hot.to_string(), unit),
        v: vec![hot.to_string(), "<".to_string()],
        m: [(hot.to_string(), hot.to_string()), ("'k".to_string(), "\"v".to_string())].into_iter().collect(),
        nt: HotNew(hot.to_string()),
        sh: vec![HotShape::N(hot.to_string()), HotShape::T(hot.to_string(), '>'), HotShape::S { f: hot.to_string() }],
        cow: std::borrow::Cow::Owned(hot.to_string()),
    };
    let case = || json!({"kind": "serde_source", "hot": hi, "template": ti, "api": api});
    let mut c = match api % 3 {
        0 => {
            let mut c = tera::Context::new();
            c.insert("v", &v);
            c
        }
        1 => {
            #[derive(serde::Serialize)]
            struct Top<'a> {
                v: &'a HotStruct,
            }
            match tera::Context::from_serialize(&Top { v: &v }) {
                Ok(c) => c,
                Err(e) => return Err(Fail::new("C01/serde-source", format!("from_serialize failed: {e}"), case())),
            }
        }
        _ => {
            let mut c = tera::Context::new();
            c.insert_value("v", tera::Value::from_serializable(&v));
            c
        }
    };
    c.insert("u", &unit);
    let mut t = tera::Tera::new();
    if let Err(e) = t.add_raw_template("s.html", SERDE_TEMPLATES[ti]) {
        return Err(Fail::new("C01/serde-source", format!("{}: {e}", SERDE_TEMPLATES[ti]), case()));
    }
    let r = guard(|| t.render("s.html", &c).map_err(|e| e.to_string()));
    l.eval();
    match r {
        Err(p) => Err(Fail::new("C01/panic", p, case())),
        Ok(Err(_)) => {
            l.label("serde-source:render-error");
            Ok(())
        }
        Ok(Ok(out)) => {
            l.label("serde-source:rendered");
            if let Some(ch) = out.chars().find(|c| "<>\"'".contains(*c)) {
                return Err(Fail::new("C01/unescaped-data-in-escaping-output", format!("`{}` with serde data built from {hot:?} (unit variant {:?}) renders {out:?}, which contains `{ch}`", SERDE_TEMPLATES[ti], serde_json::to_string(&unit).unwrap_or_default()), case()));
            }
            if out.contains("&lt;") || out.contains("&gt;") || out.contains("&quot;") || out.contains("&#39;") || out.contains("&#x27;") {
                l.nontrivial(hash_of(&(hi, ti, api, 0x5e)));
                l.label("serde-source:hot-reached-sink");
            }
            l.sample(|| json!({"template": SERDE_TEMPLATES[ti], "hot": hot, "output": out.chars().take(200).collect::<String>()}));
            Ok(())
        }
    }
}

pub fn check_component_api(i: usize, auto: bool, body: bool, l: &mut Local) -> Check {
    let hot = HOT[i];
    let mut t = tera::Tera::new();
    t.add_raw_template("lib.txt", "{% component C(p, q=\"d'q\") %}({{ p }})({{ q }})({{ body | default(value=\"\") }})({{ p | safe }})({{ p ~ q }}){% set c %}{{ p }}{% endset %}({{ c }})({{ <D r={ p } /> }}){% endcomponent C %}{% component D(r) %}[{{ r }}]{% endcomponent D %}").expect("component library");
    let mut c = tera::Context::new();
    c.insert("p", hot);
    let b = if body { Some("<body-html>") } else { None };
    let got = match guard(|| t.render_component("C", &c, b, auto).map_err(|e| e.to_string())) {
        Ok(r) => r,
        Err(p) => return Err(Fail::new("C01/panic", p, json!({"kind": "component_api", "hot": hot, "auto": auto, "body": body}))),
    };
    l.eval();
    let e = |s: &str| if auto { escape_html(s) } else { s.to_string() };
    let exp = format!("({})({})({})({})({})({})([{}])", e(hot), e("d'q"), b.unwrap_or(""), hot, e(&format!("{hot}d'q")), e(hot), e(hot));
    if got != Ok(exp.clone()) {
        return Err(Fail::new("C01/render_component-escaping", format!("render_component(p={:?}, autoescape={auto}, body={:?}): expected {:?}, got {:?}", hot, b, exp, got), json!({"kind": "component_api", "hot": i, "auto": auto, "body": body, "expected": exp})));
    }
    l.label("api:render_component");
    l.nontrivial(hash_of(&(i, auto, body)));
    Ok(())
}

pub fn run(rep: &Report) {
    rep.set_rule("programs = 1-3 directed flows: a hot value (strings made of < > \" ' & mixed with letters and multi-byte characters) is created at a source (context string, host-made safe string, array, map value, map KEY, bytes, nested path, string literal, global context, __tera_context) and forwarded through 0-5 (0-8 thorough) random hops — assignment, set_global, loop over an array / a string by character / a map value, set-block capture with or without a filter, global capture, filter section, include, block, component argument (named, shorthand, spread), component body, component result captured, ternary / or / and / default pass-through, first/last/nth/get/values/index/slice, ~ on either side, 15 string filters each with its own label, join/split, array/map literal wrapping, comprehension, host filters/functions registered safe and not safe — to a sink (`{{ v }}` compiled to WritePath, expression compiled to WriteTop, inside a capture, inside a filter section, inside a container, through str). Configurations: all templates escaping, a marking escaper installed with set_escape_fn, entry/includes with different settings, a child template wrapping the flow with super() twice, suffix list switched on after registration, render_str with either flag; render_component through the API with either flag. Oracles: (1) invariant independent of the model — default escaper, no safe anywhere, everything escaping: the output contains none of < > \" ' (what the statement lists); (2) marking escaper: the reference interpreter predicts the exact bracket structure, i.e. which output segments went through the configured function and how many times; (3) exact text. Non-trivial: a hot character reaches a sink; distinct by (sources, configuration).");
    rep.assume("all literal template text in generated programs is clean (letters, brackets, punctuation without special characters) except the <w> wrapper of the component-body hop, which is excluded from the invariant oracle");
    for k in rep.known.clone() {
        if let Some(Err(f)) = replay(rep, &k.repro) {
            rep.fail(f);
        }
    }
    let max_hops = if rep.tier == Tier::Thorough { 8 } else { 5 };
    let n = rep.tier.scale(600_000, 10);
    run_family(rep, "flows", n, move || (prop::collection::vec(flow(max_hops, true), 1..4), cfg_strategy(), any::<u64>()), |(flows, cfg, salt), l| check_program(flows, *cfg, *salt, l));
    run_family(rep, "flows_without_safe", n / 2, move || (prop::collection::vec(flow(max_hops, false), 1..3), prop_oneof![3 => Just(Cfg::AllOn), 1 => Just(Cfg::ChildSuper), 1 => Just(Cfg::SuffixAfter), 1 => Just(Cfg::RenderStr(true))], any::<u64>()), |(flows, cfg, salt), l| {
        // no safe sources in this family either
        let flows: Vec<Flow> = flows.iter().filter(|f| !matches!(f.source, Source::CtxSafeStr(_))).cloned().collect();
        if flows.is_empty() {
            return Ok(());
        }
        check_program(&flows, *cfg, *salt, l)
    });
    let api: Vec<(usize, bool, bool)> = (0..HOT.len()).flat_map(|i| [(i, true, true), (i, true, false), (i, false, true), (i, false, false)]).collect();
    run_enum(rep, "render_component_api", &api, |(i, a, b), l| check_component_api(*i, *a, *b, l));
    let serde_cases: Vec<(usize, usize, u8)> = (0..HOT.len()).flat_map(|h| (0..SERDE_TEMPLATES.len()).flat_map(move |t| (0u8..3).map(move |a| (h, t, a)))).collect();
    run_enum(rep, "serde_sources", &serde_cases, |(h, t, a), l| check_serde_source(*h, *t, *a, l));
    rep.floor("serde-source:hot-reached-sink", 600);
    for (lab, min) in [("render:ok", 150_000), ("invariant-checked", 50_000), ("cfg:Marking", 20_000), ("cfg:Mixed", 10_000), ("cfg:ChildSuper", 10_000), ("cfg:SuffixAfter", 5_000), ("cfg:RenderStr", 10_000), ("sink:write-path", 20_000), ("sink:write-top", 100_000), ("hop:Include", 10_000), ("hop:Block", 2_000), ("hop:CompArg0", 3_000), ("hop:CompArg1", 3_000), ("hop:CompArg2", 3_000), ("hop:CompBody", 3_000), ("hop:CompResult", 3_000), ("hop:Capture", 5_000), ("hop:Capture+filter", 5_000), ("hop:FilterSection", 10_000), ("hop:LoopStr", 5_000), ("hop:LoopMapKV", 2_000), ("hop:ConcatL", 3_000), ("hop:Safe", 2_000), ("hop:ZSafe", 2_000), ("hop:ZSafeFn", 2_000), ("source:CtxMapKey", 5_000), ("source:CtxBytes", 5_000), ("source:Literal", 20_000), ("source:TeraContext", 5_000), ("api:render_component", 64)] {
        rep.floor(lab, min);
    }
    for f in STR_FILTERS {
        rep.floor(&format!("hop:filter-{f}"), 2_000);
    }
}

pub fn replay(_rep: &Report, case: &serde_json::Value) -> Option<Check> {
    let mut l = Local::new();
    match case.get("kind")?.as_str()? {
        "serde_source" => Some(check_serde_source(case.get("hot")?.as_u64()? as usize % HOT.len(), case.get("template")?.as_u64()? as usize % SERDE_TEMPLATES.len(), case.get("api")?.as_u64()? as u8, &mut l)),
        "component_api" => Some(check_component_api(case.get("hot")?.as_u64()? as usize, case.get("auto")?.as_bool()?, case.get("body")?.as_bool()?, &mut l)),
        "autoescape" => {
            // source-level replay against the recorded expectation (default escaper and suffix-based configurations)
            let cfg = case.get("cfg")?.as_str()?;
            let sources: Vec<(String, String)> = case.get("templates")?.as_array()?.iter().map(|p| Some((p.get(0)?.as_str()?.to_string(), p.get(1)?.as_str()?.to_string()))).collect::<Option<_>>()?;
            let mut t = tera::Tera::new();
            t.register_filter("zsafe", ZSafe);
            t.register_filter("zplain", |v: tera::Value, _: Kwargs, _: &State| format!("{v}"));
            t.register_function("zsafe_fn", ZSafeFn);
            t.register_function("zplain_fn", |k: Kwargs, _: &State| -> tera::TeraResult<String> { Ok(format!("{}", k.must_get::<tera::Value>("v")?)) });
            if cfg == "Marking" {
                t.set_escape_fn(mark_escape);
            }
            if cfg.starts_with("RenderStr") {
                return None;
            }
            let salt = case.get("salt").and_then(|x| x.as_u64()).unwrap_or(0);
            let enc = Enc::new(salt);
            for (k, v) in &ctx_from_json(case.get("global")?)? {
                t.global_context().insert_value(k.clone(), to_tera_enc(v, &enc));
            }
            if cfg == "SuffixAfter" {
                t.autoescape_on(Vec::<&str>::new());
            }
            t.add_raw_templates(sources).ok()?;
            if cfg == "SuffixAfter" {
                t.autoescape_on(vec![".html"]);
            }
            let got = t.render(case.get("entry")?.as_str()?, &ctx_to_tera_enc(&ctx_from_json(case.get("context")?)?, &enc));
            let shown = match &got {
                Ok(s) => format!("Ok({:?})", s),
                Err(_) => "Err(())".to_string(),
            };
            let exp = case.get("expected")?.as_str()?;
            Some(if shown == exp { Ok(()) } else { Err(Fail::new("C01/replay", format!("expected {exp}, engine gave {shown}"), case.clone())) })
        }
        _ => None,
    }
}
