//! C12 — Errors identify the right template and source position and always display.
use crate::core::*;
use crate::expr::*;
use crate::exprgen;
use crate::mval::*;
use proptest::prelude::*;
use serde_json::json;

/// (line, col) of a byte offset: line = 1 + newlines before, col = characters since the line start
fn line_col(src: &str, off: usize) -> (usize, usize) {
    let before = &src[..off];
    let line = 1 + before.matches('\n').count();
    let ls = before.rfind('\n').map(|i| i + 1).unwrap_or(0);
    (line, src[ls..off].chars().count())
}
fn line_text(src: &str, line: usize) -> &str {
    src.split('\n').nth(line - 1).unwrap_or("").trim_end_matches('\r')
}

/// the span-validity oracle (applies to every syntax / rendering error)
pub fn span_problems(src: &str, span: &tera::Span) -> Vec<String> {
    let mut p = vec![];
    let (s, e) = (span.range.start, span.range.end);
    if s > e {
        p.push(format!("range start {s} > end {e}"));
        return p;
    }
    if e > src.len() {
        p.push(format!("range end {e} beyond the source length {}", src.len()));
        return p;
    }
    if !src.is_char_boundary(s) || !src.is_char_boundary(e) {
        p.push(format!("range {s}..{e} is not on character boundaries"));
        return p;
    }
    let (sl, sc) = line_col(src, s);
    if (sl, sc) != (span.start_line, span.start_col) {
        p.push(format!("start: byte {s} is line {sl} column {sc}, reported line {} column {}", span.start_line, span.start_col));
    }
    let (el, ec) = line_col(src, e);
    if (el, ec) != (span.end_line, span.end_col) {
        p.push(format!("end: byte {e} is line {el} column {ec}, reported line {} column {}", span.end_line, span.end_col));
    }
    p
}

pub struct Observed {
    pub kind: &'static str,
    pub filename: String,
    pub span: tera::Span,
    pub display: String,
    pub message: String,
}
pub fn observe(e: &tera::Error) -> Result<Option<Observed>, String> {
    // Display must never panic
    let display = guard(|| e.to_string())?;
    let _ = guard(|| format!("{:?}", e))?;
    Ok(match e.kind() {
        tera::ErrorKind::SyntaxError(r) => Some(Observed { kind: "syntax", filename: r.filename().to_string(), span: r.span().clone(), display, message: r.message().to_string() }),
        tera::ErrorKind::RenderingError(r) => Some(Observed { kind: "render", filename: r.filename().to_string(), span: r.span().clone(), display, message: r.message().to_string() }),
        _ => None,
    })
}

// ------------------------------------------------------------------------------------------
// scaffold

/// a fault snippet: source text with the faulty range marked by `⟦` `⟧`, whether it needs to sit in a block
pub struct Snip {
    pub label: &'static str,
    pub text: &'static str,
    pub needs_block: bool,
}
const RENDER_FAULTS: &[Snip] = &[
    Snip { label: "unbound-variable", text: "{{ ⟦zz_unbound⟧ }}", needs_block: false },
    Snip { label: "unbound-variable-in-operation", text: "{{ 1 + ⟦zz_unbound⟧ }}", needs_block: false },
    Snip { label: "missing-last-field-printed", text: "{{ ⟦m.a.zz⟧ }}", needs_block: false },
    Snip { label: "missing-middle-field", text: "{{ ⟦m.a.zz.q⟧ }}", needs_block: false },
    Snip { label: "missing-middle-field-in-test", text: "{{ ⟦m.zz.q⟧ is defined }}", needs_block: false },
    Snip { label: "field-of-unbound", text: "{{ ⟦zz_unbound.x⟧ }}", needs_block: false },
    Snip { label: "string-plus-number", text: "{{ ⟦\"a\" + 1⟧ }}", needs_block: false },
    Snip { label: "math-on-string", text: "{{ ⟦\"a\" * 2⟧ }}", needs_block: false },
    Snip { label: "division-by-zero", text: "{{ ⟦1 / 0⟧ }}", needs_block: false },
    Snip { label: "modulo-by-zero", text: "{{ ⟦7 % m.a.zero⟧ }}", needs_block: false },
    Snip { label: "integer-overflow", text: "{{ ⟦big * big⟧ }}", needs_block: false },
    Snip { label: "bad-index-type", text: "{{ ⟦xs[\"k\"]⟧ }}", needs_block: false },
    Snip { label: "bad-map-key-type", text: "{{ ⟦m[1.5]⟧ }}", needs_block: false },
    Snip { label: "undefined-index", text: "{{ ⟦xs[zz_unbound]⟧ }}", needs_block: false },
    Snip { label: "incomparable", text: "{{ ⟦1 < \"a\"⟧ }}", needs_block: false },
    Snip { label: "negate-string", text: "{{ ⟦-\"a\"⟧ }}", needs_block: false },
    Snip { label: "in-on-number", text: "{{ ⟦1 in 5⟧ }}", needs_block: false },
    Snip { label: "slice-bad-bound", text: "{{ ⟦xs[1:\"a\"]⟧ }}", needs_block: false },
    Snip { label: "slice-step-zero", text: "{{ ⟦\"abc\"[0:2:0]⟧ }}", needs_block: false },
    Snip { label: "filter-wrong-receiver", text: "{{ ⟦1 | upper⟧ }}", needs_block: false },
    Snip { label: "filter-missing-kwarg", text: "{{ ⟦\"a\" | truncate⟧ }}", needs_block: false },
    Snip { label: "filter-mistyped-kwarg", text: "{{ ⟦\"a\" | truncate(length=\"x\")⟧ }}", needs_block: false },
    Snip { label: "test-missing-kwarg", text: "{{ ⟦1 is divisible_by⟧ }}", needs_block: false },
    Snip { label: "test-wrong-receiver", text: "{{ ⟦\"a\" is odd⟧ }}", needs_block: false },
    Snip { label: "throw", text: "{{ ⟦throw(message=\"boom\")⟧ }}", needs_block: false },
    Snip { label: "range-step-zero", text: "{{ ⟦range(end=3, step_by=0)⟧ }}", needs_block: false },
    Snip { label: "iterate-number", text: "{% for q in ⟦5⟧ %}x{% endfor %}", needs_block: false },
    Snip { label: "key-value-iteration-on-array", text: "{% for k, q in ⟦xs⟧ %}x{% endfor %}", needs_block: false },
    Snip { label: "spread-non-array", text: "{{ ⟦[...5]⟧ }}", needs_block: false },
    Snip { label: "spread-non-map", text: "{{ ⟦{...xs }⟧ }}", needs_block: false },
    Snip { label: "component-missing-argument", text: "{{ ⟦<ui.Box />⟧ }}", needs_block: false },
    Snip { label: "component-unknown-argument", text: "{{ ⟦<ui.Box v={ 1 } zz={ 2 } />⟧ }}", needs_block: false },
    Snip { label: "component-argument-type", text: "{{ ⟦<ui.Typed n=\"s\" />⟧ }}", needs_block: false },
    Snip { label: "super-without-ancestor", text: "{{ ⟦super()⟧ }}", needs_block: true },
    Snip { label: "right-operand-of-minus", text: "{{ 10 - ⟦\"a\"⟧ }}", needs_block: false },
    Snip { label: "right-operand-of-times", text: "{{ 2 * ⟦none⟧ }}", needs_block: false },
    Snip { label: "right-operand-of-floor-division", text: "{{ 7 // ⟦\"x\"⟧ }}", needs_block: false },
    Snip { label: "right-operand-of-power", text: "{{ 2 ** ⟦\"x\"⟧ }}", needs_block: false },
    Snip { label: "right-operand-of-modulo", text: "{{ 7 % ⟦[1]⟧ }}", needs_block: false },
    Snip { label: "left-operand-of-minus", text: "{{ ⟦\"x\"⟧ - 1 }}", needs_block: false },
    Snip { label: "right-operand-of-division", text: "{{ 8 / ⟦m⟧ }}", needs_block: false },
    Snip { label: "multi-line-expression", text: "{{ ⟦zz_name +\n\t1⟧ }}", needs_block: false },
    Snip { label: "multi-line-filter-chain", text: "{{ ⟦\"a\"\n  | upper\n  | truncate⟧ }}", needs_block: false },
    Snip { label: "multi-line-component-call", text: "{{ ⟦<ui.Box\n   zz={ 1 }\n/>⟧ }}", needs_block: false },
    Snip { label: "in-if-condition", text: "{% if ⟦1 / 0⟧ %}x{% endif %}", needs_block: false },
    Snip { label: "in-elif-condition", text: "{% if false %}x{% elif ⟦zz_unbound.y⟧ %}y{% endif %}", needs_block: false },
    Snip { label: "in-set", text: "{% set v = ⟦\"a\" + 1⟧ %}", needs_block: false },
    Snip { label: "in-loop-body", text: "{% for q in [1, 2] %}{{ q }}{{ ⟦q.x.y⟧ }}{% endfor %}", needs_block: false },
    Snip { label: "in-filter-section", text: "{% filter upper %}a{{ ⟦1 / 0⟧ }}{% endfilter %}", needs_block: false },
    Snip { label: "in-set-block", text: "{% set v %}a{{ ⟦zz_unbound⟧ }}{% endset %}", needs_block: false },
    Snip { label: "filter-section-kwarg", text: "{% filter replace(from=\"a\", to=⟦zz_unbound.x⟧) %}a{% endfilter %}", needs_block: false },
    Snip { label: "in-kwarg", text: "{{ 1 | default(value=⟦1 / 0⟧) }}", needs_block: false },
    Snip { label: "in-comprehension", text: "{{ [⟦q.x.y⟧ for q in [1]] }}", needs_block: false },
    Snip { label: "in-ternary-branch", text: "{{ ⟦\"a\" + 1⟧ if true else 2 }}", needs_block: false },
    Snip { label: "in-component-attribute", text: "{{ <ui.Box v={ ⟦1 / 0⟧ } /> }}", needs_block: false },
    Snip { label: "in-component-call-body", text: "{% <ui.Wrap> %}a{{ ⟦zz_unbound⟧ }}{% </ui.Wrap> %}", needs_block: false },
];
const SYNTAX_FAULTS: &[(&str, &str, bool)] = &[
    // (label, text with marked range, position pinned by the snapshots: span must overlap or touch the range)
    ("unknown-tag", "{% ⟦zz_unknown_tag⟧ %}", true),
    ("unclosed-string", "{{ ⟦\"unclosed }} tail⟧", true),
    ("unclosed-comment", "⟦{# never closed⟧", true),
    ("unclosed-raw", "⟦{% raw %} never closed⟧", true),
    ("wrong-end-tag", "{% if a %}x{% ⟦endfor⟧ %}", true),
    ("wrong-endblock-name", "{% block bb %}x{% endblock ⟦cc⟧ %}", true),
    ("wrong-endcomponent-name", "{% component Q() %}x{% endcomponent ⟦R⟧ %}", true),
    ("end-of-input-in-tag", "{% if a⟦⟧", true),
    ("end-of-input-in-body", "{% if a %}x⟦⟧", true),
    ("end-of-input-in-expression", "{{ 1 +⟦⟧", true),
    ("missing-operand", "{{ 1 + ⟦}}⟧", false),
    ("two-operands", "{{ a ⟦b⟧ }}", false),
    ("empty-for", "{% for ⟦%}⟧x{% endfor %}", false),
    ("set-without-name", "{% set ⟦=⟧ 1 %}", false),
    ("unclosed-paren", "{{ (1 ⟦}}⟧", false),
    ("unclosed-bracket", "{{ [1, ⟦}}⟧", false),
    ("trailing-dot", "{{ a.⟦ }}⟧", false),
    ("unclosed-subscript", "{{ a[⟦ }}⟧", false),
    ("unclosed-call", "{{ range(⟦ }}⟧", false),
    ("double-unary", "{{ - ⟦-⟧ 1 }}", false),
    ("unary-after-concat", "{{ \"a\" ~ ⟦-1⟧ }}", false),
    ("array-dimensions", "{{ [[⟦[⟧1]]] }}", false),
    ("unknown-component-type", "{% component Q(a: ⟦strng⟧) %}x{% endcomponent %}", false),
    ("reserved-loop-variable", "{% for ⟦loop⟧ in a %}x{% endfor %}", false),
    ("duplicate-kwarg", "{{ 1 | default(value=1, ⟦value⟧=2) }}", false),
    ("break-outside-loop", "{% ⟦break⟧ %}", false),
    ("bad-escape", "{{ ⟦\"a\\q\"⟧ }}", false),
    ("invalid-integer", "{{ ⟦99999999999999999999⟧ }}", false),
    ("component-body-in-expression", "{{ <ui.Wrap⟦>⟧ }}", false),
    ("bad-component-attribute", "{{ <ui.Box v=⟦1⟧ /> }}", false),
];

const PREFIX_PIECES: &[&str] = &["line\n", "crlf line\r\n", "\tindented\n", "日本語のテキスト\n", "émoji 😀 text ", "  ", "\n", "a{# c #}b\n", "{# multi\nline #}", "text {{ ok }} more\n", "{% if ok %}y{% endif %}", "tab\there ", "\u{301}\u{a0}", "{{ ok\n }}", "{% if ok\n %}y{% endif\n%}", "{{\nok\n}}\n", "{%\tset zq = \"é\n\"\n%}"];
fn prefix() -> BoxedStrategy<String> {
    prop::collection::vec(prop::sample::select(PREFIX_PIECES), 0..6).prop_map(|v| v.concat()).boxed()
}

#[derive(Debug, Clone, Copy, PartialEq, Eq, PartialOrd, Ord)]
pub enum Hole {
    BaseTop,
    BaseBlock,
    ChildBlock,
    Inc1,
    Inc2,
    Inc3,
    CallBody,
    CompBody,
}
const HOLES: [Hole; 8] = [Hole::BaseTop, Hole::BaseBlock, Hole::ChildBlock, Hole::Inc1, Hole::Inc2, Hole::Inc3, Hole::CallBody, Hole::CompBody];

pub struct Scaffold {
    pub templates: Vec<(String, String)>,
    pub fault_template: String,
    /// byte range of the fault and of the tag/expression containing it, in the fault template
    pub fault: (usize, usize),
    pub container: (usize, usize),
    /// expected chain of callers (innermost first) as (template, byte range of the call site)
    pub callers: Vec<(String, (usize, usize))>,
}

/// `wrap`: how includes are wrapped in their includer: 0 plain, 1 filter section, 2 set block, 3 component call body
pub fn scaffold(hole: Hole, snippet: &str, prefixes: &[String; 6], wrap: u8) -> Scaffold {
    let unmarked = snippet.replace('⟦', "").replace('⟧', "");
    let fs = snippet.find('⟦').unwrap();
    let fe = snippet.find('⟧').unwrap() - '⟦'.len_utf8();
    let fill = |h: Hole| if h == hole { unmarked.as_str() } else { "" };
    let inc = |name: &str| -> (String, usize, usize) {
        // returns (text, offset of the include tag inside text, length of the tag)
        let tag = format!("{{% include \"{name}\" %}}");
        match wrap % 4 {
            0 => (tag.clone(), 0, tag.len()),
            1 => (format!("{{% filter lower %}}{tag}{{% endfilter %}}"), "{% filter lower %}".len(), tag.len()),
            2 => (format!("{{% set zc %}}{tag}{{% endset %}}{{{{ zc }}}}"), "{% set zc %}".len(), tag.len()),
            _ => (format!("{{% <ui.Wrap> %}}{tag}{{% </ui.Wrap> %}}"), "{% <ui.Wrap> %}".len(), tag.len()),
        }
    };
    let mut t: Vec<(String, String)> = vec![];
    let mut pos: std::collections::BTreeMap<Hole, (String, usize)> = Default::default();
    let mut calls: std::collections::BTreeMap<&str, (String, (usize, usize))> = Default::default();
    // base.html
    let mut s = prefixes[0].clone();
    s.push_str("{% block main %}");
    pos.insert(Hole::BaseBlock, ("base.html".into(), s.len()));
    s.push_str(fill(Hole::BaseBlock));
    s.push_str("{% endblock %}\n");
    let (it, io, il) = inc("inc1.html");
    calls.insert("inc1", ("base.html".into(), (s.len() + io, s.len() + io + il)));
    s.push_str(&it);
    pos.insert(Hole::BaseTop, ("base.html".into(), s.len()));
    s.push_str(fill(Hole::BaseTop));
    s.push_str("\nend of base");
    t.push(("base.html".into(), s));
    // page.html
    let mut s = String::from("{% extends \"base.html\" %}\n");
    s.push_str(&prefixes[1]);
    s.push_str("{% block main %}");
    pos.insert(Hole::ChildBlock, ("page.html".into(), s.len()));
    s.push_str(fill(Hole::ChildBlock));
    s.push_str("{{ super() }}{% endblock %}");
    t.push(("page.html".into(), s));
    // includes
    for (i, (name, hole_i, next)) in [("inc1.html", Hole::Inc1, Some("inc2.html")), ("inc2.html", Hole::Inc2, Some("inc3.html")), ("inc3.html", Hole::Inc3, None)].into_iter().enumerate() {
        let mut s = prefixes[2 + i].clone();
        pos.insert(hole_i, (name.into(), s.len()));
        s.push_str(fill(hole_i));
        s.push_str("\n");
        if let Some(n) = next {
            let (it, io, il) = inc(n);
            let key = if n == "inc2.html" { "inc2" } else { "inc3" };
            calls.insert(key, (name.into(), (s.len() + io, s.len() + io + il)));
            s.push_str(&it);
        } else {
            // inc3 calls the components
            let call = "{{ <ui.Box v={ 1 } /> }}";
            calls.insert("box", (name.into(), (s.len(), s.len() + call.len())));
            s.push_str(call);
            s.push_str("{% <ui.Wrap> %}");
            pos.insert(Hole::CallBody, (name.into(), s.len()));
            s.push_str(fill(Hole::CallBody));
            s.push_str("{% </ui.Wrap> %}");
        }
        t.push((name.into(), s));
    }
    // lib.html
    let mut s = prefixes[5].clone();
    s.push_str("{% component ui.Box(v) %}\n box ");
    pos.insert(Hole::CompBody, ("lib.html".into(), s.len()));
    s.push_str(fill(Hole::CompBody));
    s.push_str("{% endcomponent ui.Box %}{% component ui.Wrap() %}{{ body }}{% endcomponent ui.Wrap %}{% component ui.Typed(n: integer = 1) %}{{ n }}{% endcomponent ui.Typed %}");
    t.push(("lib.html".into(), s));
    let (ft, off) = pos[&hole].clone();
    let chain: Vec<&str> = match hole {
        Hole::BaseTop | Hole::BaseBlock | Hole::ChildBlock => vec![],
        Hole::Inc1 => vec!["inc1"],
        Hole::Inc2 => vec!["inc2", "inc1"],
        Hole::Inc3 | Hole::CallBody => vec!["inc3", "inc2", "inc1"],
        Hole::CompBody => vec!["box", "inc3", "inc2", "inc1"],
    };
    Scaffold { templates: t, fault_template: ft, fault: (off + fs, off + fe), container: (off, off + unmarked.len()), callers: chain.into_iter().map(|c| calls[c].clone()).collect() }
}

fn scaffold_context() -> tera::Context {
    let mut c = tera::Context::new();
    c.insert("ok", &1);
    c.insert("xs", &vec![1, 2, 3]);
    let mut a = std::collections::BTreeMap::new();
    a.insert("b", 1);
    a.insert("zero", 0);
    let mut m = std::collections::BTreeMap::new();
    m.insert("a", a);
    c.insert("m", &m);
    c.insert("big", &i128::MAX);
    c.insert("a", &1);
    c
}

fn overlaps_or_touches(span: &std::ops::Range<usize>, r: (usize, usize)) -> bool {
    span.start <= r.1 && r.0 <= span.end
}

pub fn check_render_fault(si: usize, hole: Hole, prefixes: &[String; 6], wrap: u8, l: &mut Local) -> Check {
    let snip = &RENDER_FAULTS[si];
    if snip.needs_block && !matches!(hole, Hole::BaseBlock) {
        return Ok(());
    }
    let sc = scaffold(hole, snip.text, prefixes, wrap);
    let case = || json!({"kind": "render_fault", "fault": snip.label, "hole": format!("{:?}", hole), "wrap": wrap, "templates": sc.templates, "snippet_index": si, "prefixes": prefixes.to_vec()});
    let fail = |sig: &str, what: String| Err(Fail::new(format!("C12/{sig}"), format!("{} in {:?} (wrap {wrap}): {what}", snip.label, hole), case()));
    let mut t = tera::Tera::new();
    if let Err(e) = t.add_raw_templates(sc.templates.clone()) {
        return fail("scaffold-rejected", first_line(&e.to_string()));
    }
    let entry = if hole == Hole::ChildBlock || matches!(wrap % 2, 1) { "page.html" } else { "base.html" };
    let r = match guard(|| t.render(entry, &scaffold_context())) {
        Ok(r) => r,
        Err(p) => return fail("panic", p),
    };
    l.eval();
    let e = match r {
        Ok(out) => return fail("fault-not-reported", format!("render succeeded: {:?}", out.chars().take(100).collect::<String>())),
        Err(e) => e,
    };
    let o = match observe(&e) {
        Err(p) => return fail("display-panics", p),
        Ok(None) => return fail("not-a-rendering-error", format!("the error carries no source position: {}", first_line(&e.to_string()))),
        Ok(Some(o)) => o,
    };
    if o.kind != "render" {
        return fail("wrong-error-kind", format!("expected a rendering error, got {}", o.kind));
    }
    if o.filename != sc.fault_template {
        return fail("wrong-template", format!("the fault is in {} but the error names {} ({})", sc.fault_template, o.filename, o.message));
    }
    let src = &sc.templates.iter().find(|t| t.0 == sc.fault_template).unwrap().1;
    let probs = span_problems(src, &o.span);
    if !probs.is_empty() {
        return fail("span-inconsistent", format!("{:?} in {:?}", probs, src));
    }
    if o.span.range.start < sc.container.0 || o.span.range.end > sc.container.1 {
        return fail("span-outside-the-faulty-construct", format!("span {:?} is not inside the tag/expression at {:?} ({:?})", o.span.range, sc.container, &src[sc.container.0..sc.container.1]));
    }
    if !overlaps_or_touches(&o.span.range, sc.fault) {
        return fail("span-misses-the-fault", format!("span {:?} ({:?}) does not cover the faulty range {:?} ({:?})", o.span.range, &src[o.span.range.clone()], sc.fault, &src[sc.fault.0..sc.fault.1]));
    }
    // display quotes the line the span starts on
    let lt = line_text(src, o.span.start_line);
    if !o.display.contains(lt) {
        return fail("display-misses-the-line", format!("display does not contain line {} ({:?}): {:?}", o.span.start_line, lt, o.display));
    }
    // every call site of the chain is named after the error itself, innermost first; where the note carries a
    // `name:line:col` locus it must point into that call site (the wording and layout of the notes are not pinned)
    let mut from = o.display.find(lt).map(|p| p + lt.len()).unwrap_or(0);
    for (caller, (cs, ce)) in &sc.callers {
        let Some(pos) = o.display[from..].find(caller.as_str()).map(|p| p + from) else {
            return fail("call-site-notes", format!("the call site in {caller} is not named (expected chain {:?}, innermost first): {:?}", sc.callers.iter().map(|c| &c.0).collect::<Vec<_>>(), o.display));
        };
        from = pos + caller.len();
        let rest = &o.display[from..];
        let mut nums = rest.strip_prefix(':').map(|r| r.splitn(3, |c: char| !c.is_ascii_digit()).take(2).filter_map(|x| x.parse::<usize>().ok()).collect::<Vec<_>>()).unwrap_or_default();
        if nums.len() == 2 {
            let (line, col) = (nums.remove(0), nums.remove(0));
            let csrc = &sc.templates.iter().find(|t| &t.0 == caller).unwrap().1;
            let (l0, c0) = line_col(csrc, *cs);
            let (l1, c1) = line_col(csrc, *ce);
            // columns may be printed 0- or 1-based
            let inside = |c: usize| (line, c) >= (l0, c0) && (line, c) <= (l1, c1);
            if !(inside(col) || inside(col.saturating_sub(1))) {
                return fail("call-site-notes", format!("the note for {caller} says {line}:{col}, which is not inside the call site at {}:{}..{}:{}: {:?}", l0, c0 + 1, l1, c1 + 1, o.display));
            }
            l.label("note:locus-checked");
        } else {
            l.label("note:name-only");
        }
    }
    l.label(&format!("hole:{:?}", hole));
    l.label("render-fault");
    if o.span.start_line > 1 {
        l.label("fault:not-on-first-line");
    }
    if !src[..o.span.range.start].is_ascii() {
        l.label("fault:after-multibyte");
    }
    if o.span.start_line != o.span.end_line {
        l.label("fault:multi-line-span");
    }
    if !sc.callers.is_empty() {
        l.label("fault:with-call-chain");
    }
    if wrap % 4 != 0 && !sc.callers.is_empty() {
        l.label("fault:include-inside-capture");
    }
    if o.span.start_line > 1 || !src[..o.span.range.start].is_ascii() || !sc.callers.is_empty() {
        l.nontrivial(hash_of(&(snip.label, format!("{:?}", hole), wrap, prefixes.to_vec())));
    }
    l.sample(|| json!({"fault": snip.label, "hole": format!("{:?}", hole), "display": o.display.chars().take(500).collect::<String>()}));
    Ok(())
}

pub fn check_syntax_fault(si: usize, hole: Hole, prefixes: &[String; 6], l: &mut Local) -> Check {
    let (label, text, pinned) = SYNTAX_FAULTS[si];
    // unterminated constructs swallow the rest of the template: any hole works, the rest just becomes part of the fault
    // component definitions are only allowed at the top level of a template
    if text.contains("{% component") && !matches!(hole, Hole::BaseTop | Hole::Inc1 | Hole::Inc2 | Hole::Inc3) {
        return Ok(());
    }
    if text.contains("{% block") && matches!(hole, Hole::CompBody | Hole::CallBody) {
        return Ok(());
    }
    let sc = scaffold(hole, text, prefixes, 0);
    let case = || json!({"kind": "syntax_fault", "fault": label, "hole": format!("{:?}", hole), "templates": sc.templates, "snippet_index": si, "prefixes": prefixes.to_vec()});
    let fail = |sig: &str, what: String| Err(Fail::new(format!("C12/{sig}"), format!("{label} in {:?}: {what}", hole), case()));
    let mut t = tera::Tera::new();
    let r = match guard(|| t.add_raw_templates(sc.templates.clone())) {
        Ok(r) => r,
        Err(p) => return fail("panic", p),
    };
    l.eval();
    let e = match r {
        Ok(()) => return fail("fault-not-reported", "the set was accepted".into()),
        Err(e) => e,
    };
    let o = match observe(&e) {
        Err(p) => return fail("display-panics", p),
        Ok(None) => return fail("not-a-syntax-error", format!("the error carries no source position: {}", first_line(&e.to_string()))),
        Ok(Some(o)) => o,
    };
    if o.kind != "syntax" {
        return fail("wrong-error-kind", format!("expected a syntax error, got a {} error: {}", o.kind, o.message));
    }
    if o.filename != sc.fault_template {
        return fail("wrong-template", format!("the fault is in {} but the error names {} ({})", sc.fault_template, o.filename, o.message));
    }
    let src = &sc.templates.iter().find(|t| t.0 == sc.fault_template).unwrap().1;
    let probs = span_problems(src, &o.span);
    if !probs.is_empty() {
        return fail("span-inconsistent", format!("{:?} in {:?}", probs, src));
    }
    // a left-to-right parser may notice the damage later, never before it
    if o.span.range.end < sc.fault.0 {
        return fail("span-before-the-fault", format!("span {:?} ends before the fault at {:?} starts ({})", o.span.range, sc.fault, o.message));
    }
    // unterminated constructs: the fault extends to the end of the template
    let unterminated = matches!(label, "unclosed-string" | "unclosed-comment" | "unclosed-raw");
    let fault = if unterminated || label.starts_with("end-of-input") { (sc.fault.0, src.len()) } else { sc.fault };
    if pinned && !overlaps_or_touches(&o.span.range, fault) {
        return fail("span-misses-the-fault", format!("span {:?} does not touch the faulty range {:?} ({})", o.span.range, fault, o.message));
    }
    let lt = line_text(src, o.span.start_line);
    if !o.display.contains(lt) {
        return fail("display-misses-the-line", format!("display does not contain line {} ({:?}): {:?}", o.span.start_line, lt, o.display));
    }
    l.label("syntax-fault");
    l.label(&format!("hole:{:?}", hole));
    if o.span.start_line > 1 {
        l.label("fault:not-on-first-line");
    }
    if !src[..o.span.range.start].is_ascii() {
        l.label("fault:after-multibyte");
    }
    if o.span.start_line > 1 || !src[..o.span.range.start].is_ascii() || hole != Hole::BaseTop {
        l.nontrivial(hash_of(&(label, format!("{:?}", hole), prefixes.to_vec(), 1)));
    }
    Ok(())
}

/// span validity on every error raised by generated expressions in noisy multi-line spelling
pub fn check_random_error(e: &E, ctx: &Ctx, pre: &str, noise: u64, l: &mut Local) -> Check {
    let pre = &pre.replace("ok", "1");
    let spelled = print(e, Mode::Noisy(noise));
    let src = format!("{pre}{{{{ {spelled} }}}} tail");
    let container = (pre.len(), pre.len() + spelled.len() + 6);
    let tctx = ctx_to_tera(ctx);
    let mut t = tera::Tera::new();
    let r = match guard(|| t.render_str(&src, &tctx, true)) {
        Ok(r) => r,
        Err(p) => return Err(Fail::new("C12/panic", p, json!({"kind": "random_error", "source": src, "context": ctx_to_json(ctx)}))),
    };
    l.eval();
    let Err(err) = r else {
        l.label("random:no-error");
        return Ok(());
    };
    let case = || json!({"kind": "random_error", "source": src, "context": ctx_to_json(ctx)});
    let o = match observe(&err) {
        Err(p) => return Err(Fail::new("C12/display-panics", format!("{src}: {p}"), case())),
        Ok(None) => {
            l.label("random:error-without-position");
            return Ok(());
        }
        Ok(Some(o)) => o,
    };
    let probs = span_problems(&src, &o.span);
    if !probs.is_empty() {
        return Err(Fail::new("C12/span-inconsistent", format!("{:?}: {:?} ({})", src, probs, o.message), case()));
    }
    if o.span.range.start < container.0 || o.span.range.end > container.1 {
        return Err(Fail::new("C12/span-outside-the-faulty-construct", format!("{:?}: span {:?} outside the expression {:?} ({})", src, o.span.range, container, o.message), case()));
    }
    if !o.display.contains(line_text(&src, o.span.start_line)) {
        return Err(Fail::new("C12/display-misses-the-line", format!("{:?}: {:?}", src, o.display), case()));
    }
    l.label("random:error-with-position");
    if o.span.start_line != o.span.end_line {
        l.label("fault:multi-line-span");
    }
    if o.span.start_line > 1 || !src[..o.span.range.start].is_ascii() {
        l.nontrivial(hash_str(&src));
    }
    Ok(())
}

/// span validity, template name and display on every error of arbitrary (mostly invalid) sources
pub fn check_any_source(name: &str, src: &str, family: &str, l: &mut Local) -> Check {
    let case = || json!({"kind": "any_source", "name": name, "source": src});
    let mut t = tera::Tera::new();
    let r = match guard(|| t.add_raw_template(name, src)) {
        Ok(r) => r,
        // a panic at registration is C06's business; here it only means there is no error to look at
        Err(_) => {
            l.label("any:registration-panicked");
            return Ok(());
        }
    };
    l.eval();
    let Err(err) = r else {
        l.label("any:accepted");
        return Ok(());
    };
    let o = match observe(&err) {
        Err(p) => return Err(Fail::new("C12/display-panics", format!("{:?}: {p}", src.chars().take(300).collect::<String>()), case())),
        Ok(None) => {
            l.label("any:error-without-position");
            return Ok(());
        }
        Ok(Some(o)) => o,
    };
    if o.kind != "syntax" {
        return Err(Fail::new("C12/wrong-error-kind", format!("registration of {:?} failed with a {} error", src.chars().take(300).collect::<String>(), o.kind), case()));
    }
    if o.filename != name {
        return Err(Fail::new("C12/wrong-template", format!("registering {name:?}: the error names {:?}", o.filename), case()));
    }
    let probs = span_problems(src, &o.span);
    if !probs.is_empty() {
        return Err(Fail::new("C12/span-inconsistent", format!("{:?}: {:?} ({})", src.chars().take(300).collect::<String>(), probs, o.message), case()));
    }
    if !o.display.contains(line_text(src, o.span.start_line)) {
        return Err(Fail::new("C12/display-misses-the-line", format!("{:?}: {:?}", src.chars().take(300).collect::<String>(), o.display.chars().take(300).collect::<String>()), case()));
    }
    l.label(&format!("any:{family}:syntax-error"));
    if o.span.range.end == src.len() {
        l.label("any:span-at-end-of-input");
    }
    if o.span.start_line != o.span.end_line {
        l.label("fault:multi-line-span");
    }
    if o.span.start_line > 1 || !src[..o.span.range.start].is_ascii() {
        l.label("any:not-first-line-or-after-multibyte");
        l.nontrivial(hash_str(src));
    }
    Ok(())
}

/// a syntax fault in a template registered from a file under an explicit name: the error names the template, not the path
pub fn check_file_fault(si: usize, l: &mut Local) -> Check {
    let (label, text, _) = SYNTAX_FAULTS[si];
    let src = format!("first line\n\u{e9} {}", text.replace('⟦', "").replace('⟧', ""));
    let dir = std::path::Path::new(VERIF_DIR).join("work").join("c12files");
    let _ = std::fs::create_dir_all(&dir);
    let path = dir.join(format!("fault{si}.tpl"));
    if std::fs::read_to_string(&path).ok().as_deref() != Some(src.as_str()) {
        let _ = std::fs::write(&path, &src);
    }
    let case = || json!({"kind": "file_fault", "snippet_index": si});
    let mut t = tera::Tera::new();
    let name = "pages/from-file.html";
    let r = match guard(|| t.add_template_file(&path, Some(name))) {
        Ok(r) => r,
        Err(p) => return Err(Fail::new("C12/panic", p, case())),
    };
    l.eval();
    let Err(e) = r else { return Ok(()) };
    match observe(&e) {
        Err(p) => Err(Fail::new("C12/display-panics", p, case())),
        Ok(None) => Ok(()),
        Ok(Some(o)) => {
            if o.filename != name {
                return Err(Fail::new("C12/wrong-template", format!("{label}: the template was registered from a file under the name {name:?} but the error names {:?}", o.filename), case()));
            }
            let probs = span_problems(&src, &o.span);
            if !probs.is_empty() {
                return Err(Fail::new("C12/span-inconsistent", format!("{label} (from a file): {:?}", probs), case()));
            }
            l.label("file-fault");
            l.nontrivial(hash_of(&(si, 0xf11eu32)));
            Ok(())
        }
    }
}

pub fn run(rep: &Report) {
    rep.set_rule("fault injection: a six-template scaffold (parent with a block and a trailing include, child overriding the block with super(), include chain 3 deep, component library, component calls with and without body; includes optionally wrapped in a filter section, a set block or a component-call body) whose templates start with generated multi-line prefixes (LF and CRLF lines, tabs, combining and 4-byte characters, comments, working tags) receives exactly one fault at a recorded byte range in one of eight positions (top level and block of the parent, block of the child, each include depth, component-call body, component definition body): 57 render-fault kinds and 30 syntax-fault kinds. Oracle: error kind; filename = template whose source holds the fault; span within the source on character boundaries with line/column equal to those recomputed from the byte offsets (start and end); render faults: span inside the tag/expression holding the fault and overlapping the faulty range; syntax faults: span never ends before the fault (must touch it for the classes the snapshots pin); Display does not panic, quotes the start line, and names every call site of the chain after it, innermost first; where a note carries a `name:line:col` locus it must point into that call site (wording and layout of the report are not pinned). Plus: span validity (and, for registration errors, template name and start line in the Display text) on every positioned error raised by generated C02 expressions spelled with random newlines and whitespace after a generated prefix, by token soup after a generated prefix, by mutated repository snapshot inputs, and by every prefix (every third in the quick tier) of every repository snapshot input. Non-trivial: fault not on the first line, or after a multi-byte character, or not in the entry template; distinct by (fault, position, prefixes).");
    rep.assume("render-time errors that the engine reports as plain messages (component recursion limit, render depth limit) are outside `syntax or rendering error`; columns count characters (a tab is one column)");
    for k in rep.known.clone() {
        if let Some(Err(f)) = replay(rep, &k.repro) {
            rep.fail(f);
        }
    }
    let six = || [prefix(), prefix(), prefix(), prefix(), prefix(), prefix()];
    let n = rep.tier.scale(150_000, 20);
    run_family(rep, "render_faults", n, move || (0..RENDER_FAULTS.len(), 0..HOLES.len(), six(), 0u8..4), |(si, hi, pre, wrap), l| check_render_fault(*si, HOLES[*hi], pre, *wrap, l));
    run_family(rep, "syntax_faults", n / 2, move || (0..SYNTAX_FAULTS.len(), 0..HOLES.len(), six()), |(si, hi, pre), l| check_syntax_fault(*si, HOLES[*hi], pre, l));
    run_family(rep, "random_expression_errors", n, || (exprgen::expr_strategy(4, exprgen::GenOpts::default()), exprgen::ctx_strategy(), prefix(), any::<u64>()), |(e, ctx, pre, noise), l| check_random_error(e, ctx, pre, *noise, l));
    // every positioned error of arbitrary sources: token soup after a multi-line prefix, mutated and truncated repository inputs
    run_family(rep, "soup_errors", n, || (prefix(), super::c06::soup(super::c08::Delims::default())), |(pre, s), l| check_any_source("soup.html", &format!("{}{s}", pre.replace("ok", "1")), "soup", l));
    let seeds = super::c06::seed_sources();
    if seeds.is_empty() {
        rep.inconclusive("no repository snapshot inputs found under /repo/tera/src/snapshot_tests");
    } else {
        let ns = seeds.len();
        let sref = &seeds;
        run_family(rep, "mutated_input_errors", n / 2, move || (0..ns, 0..ns, prop::collection::vec((any::<u8>(), any::<u16>(), any::<u16>()), 1..4)), move |(i, j, ops), l| check_any_source("dir/m.html", &super::c06::mutate(&sref[*i], &sref[*j], ops), "mutate", l));
        // exhaustive: every prefix of every snapshot input (end-of-input errors on every line and column)
        let stride = if rep.tier == Tier::Thorough { 1 } else { 3 };
        let cuts: Vec<(usize, usize)> = seeds.iter().enumerate().flat_map(|(fi, s)| s.char_indices().map(move |(i, _)| (fi, i)).step_by(stride)).collect();
        run_enum(rep, "truncated_input_errors", &cuts, move |(fi, cut), l| check_any_source("p.txt", &sref[*fi][..*cut], "truncate", l));
    }
    let files: Vec<usize> = (0..SYNTAX_FAULTS.len()).collect();
    run_enum(rep, "syntax_faults_from_files", &files, |si, l| check_file_fault(*si, l));
    // exhaustive pass without prefixes
    let plain: [String; 6] = Default::default();
    let all: Vec<(usize, usize, u8)> = (0..RENDER_FAULTS.len()).flat_map(|s| (0..HOLES.len()).flat_map(move |h| (0u8..4).map(move |w| (s, h, w)))).collect();
    let plain2 = plain.clone();
    run_enum(rep, "render_faults_all_positions", &all, move |(s, h, w), l| check_render_fault(*s, HOLES[*h], &plain2, *w, l));
    let alls: Vec<(usize, usize)> = (0..SYNTAX_FAULTS.len()).flat_map(|s| (0..HOLES.len()).map(move |h| (s, h))).collect();
    run_enum(rep, "syntax_faults_all_positions", &alls, move |(s, h), l| check_syntax_fault(*s, HOLES[*h], &plain, l));
    for (lab, min) in [("render-fault", 100_000), ("syntax-fault", 50_000), ("fault:not-on-first-line", 100_000), ("fault:after-multibyte", 50_000), ("fault:multi-line-span", 5_000), ("fault:with-call-chain", 50_000), ("fault:include-inside-capture", 20_000), ("random:error-with-position", 50_000), ("hole:CompBody", 10_000), ("hole:ChildBlock", 10_000), ("hole:Inc3", 10_000), ("file-fault", 20), ("any:soup:syntax-error", 50_000), ("any:mutate:syntax-error", 10_000), ("any:truncate:syntax-error", 5_000), ("any:span-at-end-of-input", 5_000), ("any:not-first-line-or-after-multibyte", 50_000)] {
        rep.floor(lab, min);
    }
}

pub fn replay(_rep: &Report, case: &serde_json::Value) -> Option<Check> {
    let mut l = Local::new();
    let pre = |case: &serde_json::Value| -> Option<[String; 6]> {
        let v: Vec<String> = case.get("prefixes")?.as_array()?.iter().map(|x| x.as_str().unwrap_or("").to_string()).collect();
        v.try_into().ok()
    };
    let hole = |case: &serde_json::Value| -> Option<Hole> {
        let h = case.get("hole")?.as_str()?;
        HOLES.iter().copied().find(|x| format!("{:?}", x) == h)
    };
    match case.get("kind")?.as_str()? {
        "render_fault" => Some(check_render_fault(case.get("snippet_index")?.as_u64()? as usize, hole(case)?, &pre(case)?, case.get("wrap")?.as_u64()? as u8, &mut l)),
        "syntax_fault" => Some(check_syntax_fault(case.get("snippet_index")?.as_u64()? as usize, hole(case)?, &pre(case)?, &mut l)),
        "random_error" => {
            let src = case.get("source")?.as_str()?;
            let ctx = ctx_from_json(case.get("context")?)?;
            let mut t = tera::Tera::new();
            match t.render_str(src, &ctx_to_tera(&ctx), true) {
                Ok(_) => Some(Ok(())),
                Err(e) => match observe(&e) {
                    Err(p) => Some(Err(Fail::new("C12/display-panics", p, case.clone()))),
                    Ok(None) => Some(Ok(())),
                    Ok(Some(o)) => {
                        let p = span_problems(src, &o.span);
                        Some(if p.is_empty() { Ok(()) } else { Err(Fail::new("C12/span-inconsistent", format!("{:?}", p), case.clone())) })
                    }
                },
            }
        }
        "file_fault" => Some(check_file_fault(case.get("snippet_index")?.as_u64()? as usize % SYNTAX_FAULTS.len(), &mut l)),
        "any_source" => Some(check_any_source(case.get("name")?.as_str()?, case.get("source")?.as_str()?, "replay", &mut l)),
        "syntax_error_span" => {
            // fixed repro of F15: the span of the error must be consistent with the source
            let src = case.get("source")?.as_str()?;
            let mut t = tera::Tera::new();
            match t.add_raw_template("t", src) {
                Ok(()) => Some(Ok(())),
                Err(e) => match observe(&e) {
                    Ok(Some(o)) => {
                        let p = span_problems(src, &o.span);
                        Some(if p.is_empty() { Ok(()) } else { Err(Fail::new("C12/span/eoi-range-on-previous-token", format!("{:?}: {:?}", src, p), case.clone())) })
                    }
                    _ => Some(Ok(())),
                },
            }
        }
        _ => None,
    }
}
