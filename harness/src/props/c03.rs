//! C03 — Control flow, variable scoping, captures and includes behave as documented.
use crate::core::*;
use crate::expr::*;
use crate::mval::*;
use crate::stmt::*;
use crate::stmtgen::*;
use proptest::prelude::*;
use serde_json::json;
use std::collections::BTreeMap;

use super::c02::R;

pub struct SetCase {
    pub templates: Vec<(String, String)>,
    pub entry: String,
    pub ctx: Ctx,
    pub global: Ctx,
    pub autoescape_suffixes: Vec<String>,
    pub salt: u64,
}
impl SetCase {
    pub fn json(&self) -> serde_json::Value {
        json!({"kind": "render_set", "templates": self.templates, "entry": self.entry, "context": ctx_to_json(&self.ctx), "global": ctx_to_json(&self.global), "autoescape_suffixes": self.autoescape_suffixes, "salt": self.salt})
    }
    pub fn from_json(j: &serde_json::Value) -> Option<SetCase> {
        Some(SetCase {
            templates: j.get("templates")?.as_array()?.iter().map(|p| Some((p.get(0)?.as_str()?.to_string(), p.get(1)?.as_str()?.to_string()))).collect::<Option<_>>()?,
            entry: j.get("entry")?.as_str()?.to_string(),
            ctx: ctx_from_json(j.get("context")?)?,
            global: ctx_from_json(j.get("global")?)?,
            autoescape_suffixes: j.get("autoescape_suffixes")?.as_array()?.iter().map(|x| x.as_str().unwrap_or("").to_string()).collect(),
            salt: j.get("salt").and_then(|x| x.as_u64()).unwrap_or(0),
        })
    }
    /// Ok(engine) with add errors reported as R::Syntax-like "ADD" errors
    pub fn build(&self) -> Result<tera::Tera, String> {
        let mut t = tera::Tera::new();
        t.autoescape_on(self.autoescape_suffixes.iter().map(|s| std::borrow::Cow::<'static, str>::Owned(s.clone())).collect::<Vec<_>>());
        let enc = Enc::new(self.salt);
        for (k, v) in &self.global {
            t.global_context().insert_value(k.clone(), to_tera_enc(v, &enc));
        }
        t.add_raw_templates(self.templates.clone()).map_err(|e| e.to_string())?;
        Ok(t)
    }
    pub fn render(&self) -> R {
        match guard(|| {
            let t = match self.build() {
                Ok(t) => t,
                Err(e) => return R::Syntax(e),
            };
            let tc = ctx_to_tera_enc(&self.ctx, &Enc::new(splitmix(self.salt)));
            // both public entry points in turn (they set up the scopes separately): render, and render_to into a buffer
            if self.salt % 3 == 1 {
                let mut buf: Vec<u8> = Vec::new();
                return match t.render_to(&self.entry, &tc, &mut buf) {
                    Ok(()) => match String::from_utf8(buf) {
                        Ok(s) => R::Ok(s),
                        Err(_) => R::Err("render_to wrote invalid UTF-8".to_string()),
                    },
                    Err(e) => R::Err(e.to_string()),
                };
            }
            match t.render(&self.entry, &tc) {
                Ok(s) => R::Ok(s),
                Err(e) => R::Err(e.to_string()),
            }
        }) {
            Ok(r) => r,
            Err(p) => R::Panic(p),
        }
    }
}

/// static suffix strings: autoescape_on needs &'static str; a tiny fixed set avoids leaking per case
pub fn suffixes(on: &[&str]) -> Vec<String> {
    on.iter().map(|s| s.to_string()).collect()
}

/// sorts the iterations of marked unordered loops: regions \u{2} ... \u{3} split on \u{1}
pub fn canon_unordered(s: &str) -> String {
    let mut out = String::new();
    let mut rest = s;
    while let Some(a) = rest.find('\u{2}') {
        out.push_str(&rest[..a]);
        let after = &rest[a + 1..];
        match after.find('\u{3}') {
            Some(b) => {
                let mut parts: Vec<&str> = after[..b].split('\u{1}').collect();
                parts.sort();
                out.push('{');
                out.push_str(&parts.join("|"));
                out.push('}');
                rest = &after[b + 1..];
            }
            None => {
                out.push_str(after);
                rest = "";
            }
        }
    }
    out.push_str(rest);
    out
}

pub fn strip_includes(b: Vec<S>, allow: &[&str]) -> Vec<S> {
    b.into_iter()
        .filter_map(|s| {
            Some(match s {
                S::Include(n) => {
                    if allow.contains(&n.as_str()) {
                        S::Include(n)
                    } else {
                        return None;
                    }
                }
                S::If(a, e) => S::If(a.into_iter().map(|(c, b)| (c, strip_includes(b, allow))).collect(), e.map(|b| strip_includes(b, allow))),
                S::For { key, val, target, body, els } => S::For { key, val, target, body: strip_includes(body, allow), els: els.map(|b| strip_includes(b, allow)) },
                S::SetBlock { name, filters, body, global } => S::SetBlock { name, filters, body: strip_includes(body, allow), global },
                S::Filter { name, kwargs, body } => S::Filter { name, kwargs, body: strip_includes(body, allow) },
                x => x,
            })
        })
        .collect()
}

fn features(b: &[S], l: &mut Local, depth: usize, in_loop: bool) {
    for s in b {
        match s {
            S::If(a, e) => {
                l.label("stmt:if");
                if a.len() > 1 {
                    l.label("stmt:elif");
                }
                for (_, b) in a {
                    features(b, l, depth + 1, in_loop)
                }
                if let Some(b) = e {
                    l.label("stmt:else");
                    features(b, l, depth + 1, in_loop)
                }
            }
            S::For { key, body, els, .. } => {
                l.label(if in_loop { "stmt:nested-for" } else { "stmt:for" });
                if key.is_some() {
                    l.label("stmt:for-key-value");
                }
                features(body, l, depth + 1, true);
                if let Some(b) = els {
                    l.label("stmt:for-else");
                    features(b, l, depth + 1, in_loop)
                }
            }
            S::Set { global, .. } => {
                l.label(match (global, in_loop) {
                    (true, true) => "stmt:set_global-in-loop",
                    (true, false) => "stmt:set_global",
                    (false, true) => "stmt:set-in-loop",
                    (false, false) => "stmt:set",
                });
            }
            S::SetBlock { filters, body, .. } => {
                l.label("stmt:set-block");
                if !filters.is_empty() {
                    l.label("stmt:set-block-filtered");
                }
                features(body, l, depth + 1, in_loop)
            }
            S::Filter { body, .. } => {
                l.label("stmt:filter-section");
                features(body, l, depth + 1, in_loop)
            }
            S::Include(_) => l.label(if in_loop { "stmt:include-in-loop" } else { "stmt:include" }),
            S::Break => l.label("stmt:break"),
            S::Continue => l.label("stmt:continue"),
            _ => {}
        }
    }
}

pub fn check_program(main: &[S], inc1: &[S], inc2: &[S], ctx: &Ctx, glob: &Ctx, auto_main: bool, auto_inc: bool, observe: bool, salt: u64, l: &mut Local) -> Check {
    // inc2 includes nothing, inc1 may include inc2, main may include both: acyclic by construction
    let wrap = |b: Vec<S>| if observe { with_obs(b, false) } else { b };
    let inc2 = wrap(strip_includes(inc2.to_vec(), &[]));
    let inc1 = wrap(strip_includes(inc1.to_vec(), &["inc2"]));
    let main = wrap(main.to_vec());
    let mn = if auto_main { "main.html" } else { "main.txt" };
    let mut tpls = BTreeMap::new();
    tpls.insert("inc1".to_string(), Tpl { body: inc1.clone(), autoescape: auto_inc, ..Default::default() });
    tpls.insert("inc2".to_string(), Tpl { body: inc2.clone(), autoescape: auto_inc, ..Default::default() });
    tpls.insert(mn.to_string(), Tpl { body: main.clone(), autoescape: auto_main, ..Default::default() });
    let comps = BTreeMap::new();
    let w = World { templates: &tpls, components: &comps, escape: escape_html, autoescape_override: None, sorted_map_loops: false };
    let model = match model_render(&w, mn, ctx, Some(glob), None) {
        Some(m) => m.map(|(s, _)| s),
        None => {
            l.discard();
            return Ok(());
        }
    };
    let case = SetCase {
        templates: vec![("inc2".to_string(), print_body(&inc2)), ("inc1".to_string(), print_body(&inc1)), (mn.to_string(), print_body(&main))],
        entry: mn.to_string(),
        ctx: ctx.clone(),
        global: glob.clone(),
        autoescape_suffixes: if auto_inc { suffixes(&[".html", "inc1", "inc2"]) } else { suffixes(&[".html"]) },
        salt,
    };
    let got = case.render();
    l.eval();
    let verdict = match (&model, &got) {
        (Ok(a), R::Ok(b)) if a == b => None,
        (Err(()), R::Err(_)) => None,
        (_, R::Panic(_)) => Some("C03/panic"),
        (_, R::Syntax(_)) => Some("C03/legal-program-rejected"),
        (Ok(_), R::Ok(_)) => Some("C03/wrong-output"),
        (Ok(_), R::Err(_)) => Some("C03/expected-output-got-error"),
        (Err(()), R::Ok(_)) => Some("C03/expected-error-got-output"),
    };
    if let Some(sig) = verdict {
        let mut cj = case.json();
        cj["expected"] = match &model {
            Ok(s) => json!({"ok": s}),
            Err(()) => json!("render error"),
        };
        cj["observed"] = got.json();
        return Err(Fail::new(sig, format!("main={:?} inc1={:?} inc2={:?} ctx={} global={} autoescape main={auto_main} includes={auto_inc}: model {:?}, engine {}", case.templates[2].1, case.templates[1].1, case.templates[0].1, ctx_to_json(ctx), ctx_to_json(glob), model, got.json()), cj));
    }
    l.label(if model.is_ok() { "outcome:output" } else { "outcome:error" });
    if model.is_ok() {
        features(&main, l, 0, false);
        features(&inc1, l, 0, false);
        let src = &case.templates[2].1;
        let nt = src.contains("{% for") && (src.contains("{% set") || src.contains("{% break") || src.contains("{% continue") || src.contains("endset") || src.contains("endfilter") || src.contains("{% include"));
        if nt {
            l.nontrivial(hash_of(&(case.templates.clone(), ctx_to_json(ctx).to_string(), ctx_to_json(glob).to_string())));
        }
        l.sample(|| json!({"main": src.chars().take(600).collect::<String>(), "output": model.clone().unwrap_or_default().chars().take(300).collect::<String>()}));
    }
    Ok(())
}

/// loops over maps with >= 2 entries: every entry exactly once, in any order
pub fn check_map_loop(m: &BTreeMap<MKey, MVal>, kv: bool, with_else: bool, salt: u64, l: &mut Local) -> Check {
    let mut body = vec![S::Text("<".into())];
    if kv {
        body.push(S::Print(E::Var("key".into())));
        body.push(S::Text("=".into()));
    }
    body.push(S::Print(E::Filter(Box::new(E::Var("v".into())), "str".into(), vec![])));
    body.push(S::Set { name: "seen".into(), e: E::Var("v".into()), global: false });
    body.push(S::Text(">\u{1}".into()));
    let main = vec![
        S::Text("\u{2}".into()),
        S::For { key: if kv { Some("key".into()) } else { None }, val: "v".into(), target: E::Var("m".into()), body, els: if with_else { Some(vec![S::Text("EMPTY".into())]) } else { None } },
        S::Text("\u{3}".into()),
        S::Print(E::Filter(Box::new(E::Var("m".into())), "length".into(), vec![])),
        S::Text("|".into()),
        S::Print(E::Test(Box::new(E::Var("seen".into())), "defined".into(), vec![], false)),
    ];
    let mut ctx = Ctx::new();
    ctx.insert("m".into(), MVal::Map(m.clone()));
    let mut tpls = BTreeMap::new();
    tpls.insert("main".to_string(), Tpl { body: main.clone(), ..Default::default() });
    let comps = BTreeMap::new();
    let w = World { templates: &tpls, components: &comps, escape: escape_html, autoescape_override: None, sorted_map_loops: true };
    let Some(Ok((model, _))) = model_render(&w, "main", &ctx, None, None) else {
        l.discard();
        return Ok(());
    };
    let case = SetCase { templates: vec![("main".into(), print_body(&main))], entry: "main".into(), ctx: ctx.clone(), global: Ctx::new(), autoescape_suffixes: vec![], salt };
    let got = case.render();
    l.eval();
    let ok = matches!(&got, R::Ok(s) if canon_unordered(s) == canon_unordered(&model));
    if !ok {
        let mut cj = case.json();
        cj["unordered"] = json!(true);
        cj["expected"] = json!({"ok": canon_unordered(&model)});
        cj["observed"] = got.json();
        return Err(Fail::new(if matches!(got, R::Panic(_)) { "C03/panic" } else { "C03/map-loop" }, format!("loop over map {}: expected (order-insensitive) {:?}, engine gave {}", canon(&MVal::Map(m.clone())), canon_unordered(&model), got.json()), cj));
    }
    l.label("map-loop");
    if m.len() >= 2 {
        l.label("map-loop:>=2-entries");
        l.nontrivial(hash_of(&(canon(&MVal::Map(m.clone())), kv, with_else)));
    }
    if m.is_empty() {
        l.label("map-loop:empty");
    }
    Ok(())
}

const MAIN_INC: SOpts = SOpts { includes: &["inc1", "inc2"] };

pub fn program_strategy(d: u32) -> impl Strategy<Value = (Vec<S>, Vec<S>, Vec<S>, (Ctx, Ctx), bool, bool, u64)> {
    (body(d, false, false, MAIN_INC), body(2, false, false, MAIN_INC), body(1, false, false, MAIN_INC), ctxs(), any::<bool>(), any::<bool>(), any::<u64>())
}

pub fn run(rep: &Report) {
    rep.set_rule("programs = three generated templates (main may include inc1 and inc2, inc1 may include inc2) built from statement trees of depth <= 3 (4 in thorough) mixing if/elif/else, for over arrays/strings/maps with else, break/continue, set, set_global, set blocks with 0-2 filters (filter kwargs reading variables), filter sections, includes, over a 6-name pool shared with the render context and the global context so the four scopes shadow each other; every body is instrumented with observation points printing all names (and loop.* inside loops) after every statement. Oracle: reference interpreter, exact text (or both fail at render time). Loops over maps with >= 2 entries are checked by a dedicated order-insensitive family. Non-trivial: a loop together with an assignment, break, continue, capture or include; distinct by (sources, contexts).");
    rep.assume("include targets never extend another template (an included child renders only its own body, as in Tera v1: not claimed either way)");
    for k in rep.known.clone() {
        if let Some(Err(f)) = replay(rep, &k.repro) {
            rep.fail(f);
        }
    }
    let d = if rep.tier == Tier::Thorough { 4 } else { 3 };
    let n = rep.tier.scale(150_000, 20);
    run_family(rep, "observed_programs", n, move || (body(d, false, false, MAIN_INC), body(2, false, false, MAIN_INC), body(1, false, false, MAIN_INC), ctxs(), any::<bool>(), any::<bool>(), any::<u64>()), |(main, inc1, inc2, (ctx, glob), am, ai, salt), l| check_program(main, inc1, inc2, ctx, glob, *am, *ai, true, *salt, l));
    run_family(rep, "plain_programs", n, move || (body(d, false, false, MAIN_INC), body(2, false, false, MAIN_INC), body(1, false, false, MAIN_INC), ctxs(), any::<bool>(), any::<bool>(), any::<u64>()), |(main, inc1, inc2, (ctx, glob), am, ai, salt), l| check_program(main, inc1, inc2, ctx, glob, *am, *ai, false, *salt, l));
    // loop-heavy: the main body is a loop whose body is generated, observed
    run_family(rep, "loop_bodies", n, move || (crate::stmtgen::name(), prop_oneof![Just(E::Var("a".into())), Just(E::Array(vec![Item::One(E::Int(1)), Item::One(E::Int(2)), Item::One(E::Int(3))])), Just(E::Str("éa😀".into())), Just(E::Call("range".into(), vec![("end".into(), E::Int(4))]))], body(d - 1, true, false, MAIN_INC), body(d - 1, true, false, MAIN_INC), body(1, false, false, MAIN_INC), ctxs(), any::<bool>(), any::<u64>()), |(v, target, inner, inner2, inc, (ctx, glob), am, salt), l| {
        let main = vec![S::For { key: None, val: v.clone(), target: target.clone(), body: vec![S::Text("(".into()), S::For { key: None, val: "x".into(), target: E::Array(vec![Item::One(E::Int(0)), Item::One(E::Str("<".into()))]), body: inner2.clone(), els: None }, S::Text(")".into())].into_iter().chain(inner.clone()).collect(), els: Some(vec![S::Text("none".into())]) }];
        check_program(&main, inc, &[], ctx, glob, *am, *am, true, *salt, l)
    });
    run_family(rep, "map_loops", rep.tier.scale(40_000, 20), || (prop::collection::vec((crate::gen::key_pool(), crate::gen::scalar(crate::gen::ValOpts { bytes: false, ..Default::default() })), 0..7), any::<bool>(), any::<bool>(), any::<u64>()), |(e, kv, we, salt), l| check_map_loop(&e.iter().cloned().collect(), *kv, *we, *salt, l));
    for (lab, min) in [("outcome:output", 100_000), ("outcome:error", 20_000), ("stmt:for", 50_000), ("stmt:nested-for", 20_000), ("stmt:for-else", 5_000), ("stmt:for-key-value", 1_000), ("stmt:set-in-loop", 20_000), ("stmt:set_global-in-loop", 5_000), ("stmt:set-block", 10_000), ("stmt:set-block-filtered", 5_000), ("stmt:filter-section", 10_000), ("stmt:include", 10_000), ("stmt:include-in-loop", 5_000), ("stmt:break", 5_000), ("stmt:continue", 5_000), ("stmt:elif", 10_000), ("map-loop:>=2-entries", 10_000), ("map-loop:empty", 1_000)] {
        rep.floor(lab, min);
    }
}

pub fn replay(_rep: &Report, case: &serde_json::Value) -> Option<Check> {
    match case.get("kind")?.as_str()? {
        "render_set" => {
            let c = SetCase::from_json(case)?;
            let exp = case.get("expected")?;
            let unordered = case.get("unordered").and_then(|x| x.as_bool()).unwrap_or(false);
            let got = c.render();
            let ok = match (exp.get("ok").and_then(|x| x.as_str()), &got) {
                (Some(t), R::Ok(s)) => {
                    if unordered {
                        t == canon_unordered(s)
                    } else {
                        t == s
                    }
                }
                (None, R::Err(_)) => true,
                _ => false,
            };
            Some(if ok { Ok(()) } else { Err(Fail::new("C03/replay", format!("expected {exp}, engine gave {}", got.json()), case.clone())) })
        }
        _ => None,
    }
}
