//! C15 — Equality, ordering and map-key lookup are coherent across all value kinds.
use crate::core::*;
use crate::gen::*;
use crate::mval::*;
use proptest::prelude::*;
use serde_json::json;
use std::cmp::Ordering;

const OPS: [&str; 6] = ["==", "!=", "<", "<=", ">", ">="];
const ATTRS: [&str; 8] = ["a", "b", "key", "id", "k1", "k2", "name", "x"];

fn engine() -> tera::Tera {
    let mut t = tera::Tera::new();
    let mut v: Vec<(String, String)> = vec![];
    for op in OPS {
        v.push((format!("op{op}"), format!("{{{{ a {op} b }}}}")));
    }
    v.push(("unique".into(), "{{ xs | unique }}".into()));
    v.push(("sort".into(), "{{ xs | sort }}".into()));
    v.push(("idx".into(), "{{ m[k] is defined }}|{{ m[k] | default(value=\"~\") }}".into()));
    v.push(("idxraw".into(), "{{ m[k] }}".into()));
    v.push(("in".into(), "{{ k in m }}|{{ k not in m }}".into()));
    v.push(("get".into(), "{{ m | get(key=k) }}".into()));
    v.push(("getd".into(), "{{ m | get(key=k, default=\"~\") }}".into()));
    v.push(("containing".into(), "{{ m is containing(pat=k) }}".into()));
    v.push(("arr_in".into(), "{{ k in xs }}|{{ xs is containing(pat=k) }}".into()));
    for a in ATTRS {
        v.push((format!("attr_{a}"), format!("{{{{ m.{a} is defined }}}}|{{{{ m.{a} | default(value=\"~\") }}}}")));
        v.push((format!("attrw_{a}"), format!("{{{{ m.{a} }}}}")));
    }
    t.add_raw_templates(v).expect("C15 templates");
    t
}
thread_local! {
    static ENGINE: tera::Tera = engine();
}
fn run_t(tpl: &str, binds: &[(&str, tera::Value)]) -> Out {
    let mut c = tera::Context::new();
    for (k, v) in binds {
        c.insert_value(k.to_string(), v.clone());
    }
    ENGINE.with(|t| match guard(|| t.render(tpl, &c).map_err(|e| err_text(&e))) {
        Ok(Ok(s)) => Out::Ok(s),
        Ok(Err(e)) => Out::Err(e),
        Err(p) => Out::Panic(p),
    })
}

fn ref_op(op: &str, a: &MVal, b: &MVal) -> Option<bool> {
    match op {
        "==" => Some(eq(a, b)),
        "!=" => Some(!eq(a, b)),
        _ => {
            let o = lt_cmp(a, b)?;
            Some(match op {
                "<" => o == Ordering::Less,
                "<=" => o != Ordering::Greater,
                ">" => o == Ordering::Greater,
                _ => o != Ordering::Less,
            })
        }
    }
}

fn pair_case(a: &MVal, b: &MVal, sa: u64, sb: u64) -> serde_json::Value {
    json!({"kind": "pair", "a": to_json(a), "b": to_json(b), "salt_a": sa, "salt_b": sb})
}

/// engine results of the six operators on (a, b): Some(bool) / None = error
fn engine_ops(a: &MVal, b: &MVal, sa: u64, sb: u64, l: &mut Local) -> Result<[Option<bool>; 6], Fail> {
    let ta = to_tera_enc(a, &Enc::new(sa));
    let tb = to_tera_enc(b, &Enc::new(sb));
    let mut out = [None; 6];
    for (i, op) in OPS.iter().enumerate() {
        let got = run_t(&format!("op{op}"), &[("a", ta.clone()), ("b", tb.clone())]);
        l.eval();
        out[i] = match &got {
            Out::Ok(s) if s == "true" => Some(true),
            Out::Ok(s) if s == "false" => Some(false),
            Out::Err(_) => None,
            _ => return Err(Fail::new(format!("C15/panic-or-garbage/{op}"), format!("{} {op} {} gave {:?}", canon(a), canon(b), got), pair_case(a, b, sa, sb))),
        };
    }
    Ok(out)
}

pub fn check_pair(a: &MVal, b: &MVal, sa: u64, sb: u64, l: &mut Local) -> Check {
    let got = engine_ops(a, b, sa, sb, l)?;
    for (i, op) in OPS.iter().enumerate() {
        let exp = ref_op(op, a, b);
        if got[i] != exp {
            return Err(Fail::new(format!("C15/wrong-result/{op}"), format!("{} {op} {}: reference {:?}, engine {:?}", canon(a), canon(b), exp, got[i]), pair_case(a, b, sa, sb)));
        }
    }
    // laws stated on the engine's own answers (independent of the reference)
    let rev = engine_ops(b, a, sb, sa, l)?;
    let (e, ne, lt, le, gt, ge) = (got[0], got[1], got[2], got[3], got[4], got[5]);
    let law = |name: &str, ok: bool| if ok { Ok(()) } else { Err(Fail::new(format!("C15/law/{name}"), format!("law {name} broken on {} , {}: {:?} / reversed {:?}", canon(a), canon(b), got, rev), pair_case(a, b, sa, sb))) };
    law("eq-symmetric", e == rev[0])?;
    law("ne-is-not-eq", ne == e.map(|x| !x))?;
    law("lt-gt-mirror", lt == rev[4] && gt == rev[2] && le == rev[5] && ge == rev[3])?;
    if lt.is_some() {
        let n = [lt == Some(true), e == Some(true), gt == Some(true)].iter().filter(|x| **x).count();
        law("trichotomy", n == 1 && le.is_some() && ge.is_some())?;
        law("le-is-lt-or-eq", le == Some(lt == Some(true) || e == Some(true)))?;
        l.label("pair:comparable");
    } else {
        law("incomparable-consistent", le.is_none() && gt.is_none() && ge.is_none())?;
        l.label("pair:incomparable");
    }
    if e == Some(true) {
        l.label("pair:equal");
        if canon(a) != canon(b) || sa != sb {
            l.label("pair:equal-different-representation");
        }
    }
    if a.kind_name() != b.kind_name() {
        l.label("pair:cross-kind");
    }
    if matches!(a, MVal::Array(_) | MVal::Map(_)) {
        l.label("pair:container");
    }
    l.nontrivial(hash_of(&(canon(a), canon(b), sa, sb)));
    Ok(())
}

pub fn check_reflexive(a: &MVal, sa: u64, sb: u64, l: &mut Local) -> Check {
    let got = engine_ops(a, a, sa, sb, l)?;
    if got[0] != Some(true) || got[1] != Some(false) {
        return Err(Fail::new("C15/law/reflexive", format!("{} == itself (different encodings) gave {:?}", canon(a), got), pair_case(a, a, sa, sb)));
    }
    Ok(())
}

pub fn check_triple(a: &MVal, b: &MVal, c: &MVal, s: u64, l: &mut Local) -> Check {
    let (sa, sb, sc) = (s, splitmix(s), splitmix(splitmix(s)));
    let ab = engine_ops(a, b, sa, sb, l)?;
    let bc = engine_ops(b, c, sb, sc, l)?;
    let ac = engine_ops(a, c, sa, sc, l)?;
    let case = json!({"kind": "triple", "a": to_json(a), "b": to_json(b), "c": to_json(c), "salt": s});
    let law = |name: &str, ok: bool| if ok { Ok(()) } else { Err(Fail::new(format!("C15/law/{name}"), format!("law {name} broken on {} , {} , {}", canon(a), canon(b), canon(c)), case.clone())) };
    if ab[0] == Some(true) && bc[0] == Some(true) {
        l.label("triple:eq-chain");
        law("eq-transitive", ac[0] == Some(true))?;
    }
    if ab[2] == Some(true) && bc[2] == Some(true) {
        l.label("triple:lt-chain");
        law("lt-transitive", ac[2] == Some(true))?;
    }
    if ab[3] == Some(true) && bc[3] == Some(true) && ac[3].is_some() {
        law("le-transitive", ac[3] == Some(true))?;
    }
    if ab[0] == Some(true) && bc[2].is_some() {
        // equal values are interchangeable in comparisons
        law("eq-congruent-with-lt", ac[2] == bc[2])?;
    }
    Ok(())
}

pub fn ref_unique(xs: &[MVal]) -> Vec<MVal> {
    let mut out: Vec<MVal> = vec![];
    for x in xs {
        if !out.iter().any(|y| eq(x, y)) {
            out.push(x.clone());
        }
    }
    out
}
/// None = refused (some pair incomparable)
pub fn ref_sort(xs: &[MVal]) -> Option<Vec<MVal>> {
    for i in 0..xs.len() {
        for j in i + 1..xs.len() {
            lt_cmp(&xs[i], &xs[j])?;
        }
    }
    let mut v = xs.to_vec();
    v.sort_by(|a, b| lt_cmp(a, b).unwrap());
    Some(v)
}

pub fn check_array(xs: &[MVal], salt: u64, l: &mut Local) -> Check {
    let arr = MVal::Array(xs.to_vec());
    let t = to_tera_enc(&arr, &Enc::new(salt));
    let case = json!({"kind": "array", "xs": to_json(&arr), "salt": salt});
    let got = run_t("unique", &[("xs", t.clone())]);
    l.eval();
    let exp = MVal::Array(ref_unique(xs)).display();
    if got != Out::Ok(exp.clone()) {
        return Err(Fail::new(if matches!(got, Out::Panic(_)) { "C15/panic/unique" } else { "C15/unique" }, format!("{} | unique: expected {}, got {:?}", canon(&arr), exp, got), case));
    }
    if ref_unique(xs).len() < xs.len() {
        l.label("unique:dropped-duplicates");
    }
    if xs.iter().any(|x| matches!(x, MVal::Array(_) | MVal::Map(_))) {
        l.label("unique:containers");
    }
    if xs.iter().any(|x| matches!(x, MVal::None)) {
        // `sort` tolerates top-level none keys (C16 covers that contract); the ordering law of C15 is
        // about values `<` is defined on
        l.label("sort:skipped-none");
        return Ok(());
    }
    let got = run_t("sort", &[("xs", t)]);
    l.eval();
    match (ref_sort(xs), &got) {
        (Some(v), Out::Ok(s)) if *s == MVal::Array(v.clone()).display() => {
            if xs.len() >= 2 {
                l.label("sort:ok");
            }
        }
        (None, Out::Err(_)) => l.label("sort:refused"),
        (e, _) => return Err(Fail::new(if matches!(got, Out::Panic(_)) { "C15/panic/sort" } else { "C15/sort" }, format!("{} | sort: expected {:?}, got {:?}", canon(&arr), e.map(|v| MVal::Array(v).display()), got), case)),
    }
    if xs.len() >= 21 {
        l.label("sort:len>=21");
    }
    l.nontrivial(hash_of(&(canon(&arr), salt)));
    Ok(())
}

fn is_ident(s: &str) -> bool {
    ATTRS.contains(&s)
}

pub fn check_lookup(m: &std::collections::BTreeMap<MKey, MVal>, k: &MKey, sm: u64, sk: u64, l: &mut Local) -> Check {
    let mv = MVal::Map(m.clone());
    let tm = to_tera_enc(&mv, &Enc::new(sm));
    let kv = key_to_val(k);
    let tk = to_tera_enc(&kv, &Enc::new(sk));
    let case = json!({"kind": "lookup", "m": to_json(&mv), "k": to_json(&kv), "salt_m": sm, "salt_k": sk});
    let present = m.get(k);
    let shown = |v: &MVal| if v.is_undefined() { "~".to_string() } else { v.display() };
    let fail = |what: &str, exp: String, got: &Out| Err(Fail::new(if matches!(got, Out::Panic(_)) { format!("C15/panic/{what}") } else { format!("C15/lookup/{what}") }, format!("{what} with key {} in {}: expected {:?}, got {:?}", canon(&kv), canon(&mv), exp, got), case.clone()));
    // m[k]
    let exp = match present {
        Some(v) if !v.is_undefined() => format!("true|{}", shown(v)),
        _ => "false|~".to_string(),
    };
    let got = run_t("idx", &[("m", tm.clone()), ("k", tk.clone())]);
    if got != Out::Ok(exp.clone()) {
        return fail("subscript", exp, &got);
    }
    // k in m
    let exp = if present.is_some() { "true|false" } else { "false|true" }.to_string();
    let got = run_t("in", &[("m", tm.clone()), ("k", tk.clone())]);
    if got != Out::Ok(exp.clone()) {
        return fail("in", exp, &got);
    }
    let got = run_t("containing", &[("m", tm.clone()), ("k", tk.clone())]);
    let exp = present.is_some().to_string();
    if got != Out::Ok(exp.clone()) {
        return fail("containing", exp, &got);
    }
    l.evals_n(3);
    if let MKey::Str(s) = k {
        // get(key=) is documented for string keys
        let got = run_t("getd", &[("m", tm.clone()), ("k", tk.clone())]);
        let exp = present.map(|v| v.display()).unwrap_or("~".into());
        if got != Out::Ok(exp.clone()) {
            return fail("get-default", exp, &got);
        }
        let got = run_t("get", &[("m", tm.clone()), ("k", tk.clone())]);
        let ok = match present {
            Some(v) if v.is_undefined() => true, // printing undefined: either way
            Some(v) => got == Out::Ok(v.display()),
            None => got.is_err(),
        };
        if !ok {
            return fail("get", format!("{:?}", present.map(|v| v.display())), &got);
        }
        l.evals_n(2);
        if is_ident(s) {
            let exp = match present {
                Some(v) if !v.is_undefined() => format!("true|{}", shown(v)),
                _ => "false|~".to_string(),
            };
            let got = run_t(&format!("attr_{s}"), &[("m", tm.clone())]);
            if got != Out::Ok(exp.clone()) {
                return fail("attribute", exp, &got);
            }
            let got = run_t(&format!("attrw_{s}"), &[("m", tm.clone())]);
            let ok = match present {
                Some(v) if !v.is_undefined() => got == Out::Ok(v.display()),
                _ => got.is_err(),
            };
            if !ok {
                return fail("attribute-write", format!("{:?}", present.map(|v| v.display())), &got);
            }
            l.evals_n(2);
            l.label("lookup:attribute");
        }
    }
    l.label(if present.is_some() { "lookup:hit" } else { "lookup:miss" });
    if m.len() > 6 {
        l.label("lookup:map>6");
    } else {
        l.label("lookup:map<=6");
    }
    match k {
        MKey::Int(_) | MKey::Big(_) => l.label("lookup:int-key"),
        MKey::Bool(_) => l.label("lookup:bool-key"),
        MKey::Str(_) => l.label("lookup:str-key"),
    }
    l.nontrivial(hash_of(&(canon(&mv), canon(&kv), sm, sk)));
    l.sample(|| case.clone());
    Ok(())
}

pub fn check_membership(xs: &[MVal], k: &MVal, salt: u64, l: &mut Local) -> Check {
    let arr = MVal::Array(xs.to_vec());
    let exp = xs.iter().any(|x| eq(x, k));
    let got = run_t("arr_in", &[("xs", to_tera_enc(&arr, &Enc::new(salt))), ("k", to_tera_enc(k, &Enc::new(splitmix(salt))))]);
    l.eval();
    if got != Out::Ok(format!("{exp}|{exp}")) {
        return Err(Fail::new("C15/array-membership", format!("{} in {}: expected {exp}, got {:?}", canon(k), canon(&arr), got), json!({"kind": "member", "xs": to_json(&arr), "k": to_json(k), "salt": salt})));
    }
    l.label(if exp { "member:hit" } else { "member:miss" });
    Ok(())
}

fn vopts() -> ValOpts {
    ValOpts { undefined: false, bytes: true, depth: 3, max_len: 4 }
}

pub fn run(rep: &Report) {
    rep.set_rule("values of all kinds (none, bool, integers in random i64/u64/i128/u128 encodings, floats incl. NaN/inf/-0, strings with either safe mark, bytes, nested arrays and maps with keys of every kind, owned or borrowed, inserted in either order) generated in near-equal families: pairs (v, mutate(v)) and (v, w), triples (v, mutate(v), mutate^2(v)); `==`,`!=`,`<`,`<=`,`>`,`>=` observed through templates are compared with the reference equality/ordering and with the algebraic laws on the engine's own answers; `unique` and `sort` on arrays of near-equal values against reference first-occurrence classes / stable order; map lookups `m[k]`, `m.k`, `k in m`, `get`, `is containing` for maps of 0..14 entries against a reference map keyed by mathematical value. Non-trivial = every case (all involve at least two values or a map and a key); distinct by canonical values + encoding salts.");
    rep.assume("explicit undefined values are not generated (the statement does not say how undefined compares); probes for key lookup are key-able kinds only (bool, integer, string)");
    for k in rep.known.clone() {
        if let Some(Err(f)) = replay(rep, &k.repro) {
            rep.fail(f);
        }
    }
    let n = rep.tier.scale(360_000, 10);
    run_family(rep, "near_equal_pairs", n, || (value(vopts()), any::<u16>(), any::<u8>(), any::<u64>(), any::<u64>(), any::<bool>()), |(v, idx, kind, sa, sb, twice), l| {
        let mut w = mutate(v, *idx, *kind);
        if *twice {
            w = mutate(&w, idx.wrapping_mul(31), kind.wrapping_add(1));
        }
        check_pair(v, &w, *sa, *sb, l)?;
        check_reflexive(v, *sa, *sb, l)
    });
    run_family(rep, "random_pairs", n, || (value(vopts()), value(vopts()), any::<u64>(), any::<u64>()), |(a, b, sa, sb), l| check_pair(a, b, *sa, *sb, l));
    run_family(rep, "scalar_pairs", n, || (scalar(vopts()), scalar(vopts()), any::<u64>()), |(a, b, s), l| check_pair(a, b, *s, splitmix(*s), l));
    run_family(rep, "triples", n, || (value(vopts()), any::<[u16; 2]>(), any::<[u8; 2]>(), any::<u64>(), prop::option::of(value(vopts()))), |(v, idx, kind, s, other), l| {
        let b = mutate(v, idx[0], kind[0]);
        let c = match other {
            Some(o) => o.clone(),
            None => mutate(&b, idx[1], kind[1]),
        };
        check_triple(v, &b, &c, *s, l)?;
        // also every permutation position for the scalar-heavy case
        check_triple(&b, v, &c, splitmix(*s), l)
    });
    run_family(rep, "arrays", rep.tier.scale(240_000, 10), || (prop::collection::vec((value(ValOpts { depth: 2, max_len: 3, ..vopts() }), prop::collection::vec((any::<u16>(), any::<u8>()), 0..3)), 0..12), any::<u64>(), any::<bool>()), |(base, salt, homogeneous), l| {
        // each base value contributes itself and its near-equal variants
        let mut xs: Vec<MVal> = vec![];
        for (v, muts) in base {
            // homogeneous arrays (numbers only) make `sort` succeed often
            let v = if *homogeneous { match v { MVal::Int(_) | MVal::Float(_) | MVal::Big(_) => v.clone(), other => MVal::Int(other.weight() as i128) } } else { v.clone() };
            xs.push(v.clone());
            let mut cur = v;
            for (i, k) in muts {
                cur = mutate(&cur, *i, if *homogeneous { k % 3 } else { *k });
                if *homogeneous && !cur.is_number() {
                    cur = MVal::Int(1);
                }
                xs.push(cur.clone());
            }
        }
        check_array(&xs, *salt, l)?;
        if let Some(k) = xs.first().cloned() {
            check_membership(&xs[1..], &k, *salt, l)?;
        }
        Ok(())
    });
    run_family(rep, "lookups", rep.tier.scale(600_000, 10), || (prop::collection::vec((key_pool(), scalar(ValOpts { undefined: false, bytes: false, ..vopts() })), 0..15), key_pool(), any::<u16>(), any::<bool>(), any::<u64>(), any::<u64>()), |(entries, probe, pick, hit, sm, sk), l| {
        let m: std::collections::BTreeMap<MKey, MVal> = entries.iter().cloned().collect();
        let k = if *hit && !m.is_empty() { m.keys().nth((*pick as usize * m.len()) >> 16).unwrap().clone() } else { probe.clone() };
        check_lookup(&m, &k, *sm, *sk, l)
    });
    for (lab, min) in [("pair:comparable", 20_000), ("pair:incomparable", 20_000), ("pair:equal-different-representation", 5_000), ("pair:cross-kind", 20_000), ("pair:container", 20_000), ("triple:eq-chain", 500), ("triple:lt-chain", 2_000), ("unique:dropped-duplicates", 5_000), ("unique:containers", 5_000), ("sort:ok", 5_000), ("sort:refused", 5_000), ("sort:len>=21", 1_000), ("lookup:hit", 20_000), ("lookup:miss", 20_000), ("lookup:map>6", 20_000), ("lookup:int-key", 10_000), ("lookup:attribute", 5_000), ("member:hit", 1_000)] {
        rep.floor(lab, min);
    }
}

pub fn replay(_rep: &Report, case: &serde_json::Value) -> Option<Check> {
    let mut l = Local::new();
    let v = |k: &str| from_json(case.get(k)?);
    let u = |k: &str| case.get(k).and_then(|x| x.as_u64());
    match case.get("kind")?.as_str()? {
        "pair" => Some(check_pair(&v("a")?, &v("b")?, u("salt_a")?, u("salt_b")?, &mut l)),
        "triple" => Some(check_triple(&v("a")?, &v("b")?, &v("c")?, u("salt")?, &mut l)),
        "array" => match v("xs")? {
            MVal::Array(xs) => Some(check_array(&xs, u("salt")?, &mut l)),
            _ => None,
        },
        "member" => match v("xs")? {
            MVal::Array(xs) => Some(check_membership(&xs, &v("k")?, u("salt")?, &mut l)),
            _ => None,
        },
        "lookup" => match v("m")? {
            MVal::Map(m) => Some(check_lookup(&m, &v("k")?.as_key()?, u("salt_m")?, u("salt_k")?, &mut l)),
            _ => None,
        },
        _ => None,
    }
}
