//! C04 — Inheritance: blocks resolve to the most-derived override and super() walks up.
use crate::core::*;
use crate::expr::*;
use crate::mval::*;
use crate::stmt::*;
use crate::stmtgen;
use proptest::prelude::*;
use serde_json::json;
use std::collections::BTreeMap;

use super::c02::R;

#[derive(Debug, Clone)]
pub enum Item {
    Stmt(S),
    /// a new block holding these items (root: any name; override: fresh nested name)
    Block(Vec<Item>),
    FilterSec(Vec<Item>),
    SetBlockThenPrint(Vec<Item>),
    CompBody(Vec<Item>),
    Super,
    SuperInLoop,
    SuperInCapture,
    SuperTwice,
}
#[derive(Debug, Clone)]
pub struct Override {
    pub target: u16,
    pub items: Vec<Item>,
}
#[derive(Debug, Clone)]
pub struct ChainSpec {
    pub root: Vec<Item>,
    pub levels: Vec<Vec<Override>>,
    /// permutation seed for registration order and name shuffling
    pub order: u64,
    pub auto: bool,
}

fn simple_stmt() -> BoxedStrategy<S> {
    prop_oneof![
        3 => "[A-Z]{1,2}".prop_map(S::Text),
        2 => stmtgen::simple_e(false).prop_map(S::Print),
        2 => (stmtgen::name(), stmtgen::simple_e(false), prop::bool::weighted(0.3)).prop_map(|(n, e, g)| S::Set { name: n, e, global: g }),
    ]
    .boxed()
}
fn root_items(depth: u32) -> BoxedStrategy<Vec<Item>> {
    let leaf = simple_stmt().prop_map(Item::Stmt);
    if depth == 0 {
        return prop::collection::vec(leaf, 0..3).boxed();
    }
    let inner = root_items(depth - 1);
    prop::collection::vec(prop_oneof![4 => leaf, 4 => inner.clone().prop_map(Item::Block), 1 => inner.clone().prop_map(Item::FilterSec), 1 => inner.clone().prop_map(Item::SetBlockThenPrint), 1 => inner.prop_map(Item::CompBody)], 0..4).boxed()
}
fn override_items(depth: u32) -> BoxedStrategy<Vec<Item>> {
    let leaf = prop_oneof![4 => simple_stmt().prop_map(Item::Stmt), 3 => Just(Item::Super), 1 => Just(Item::SuperInLoop), 1 => Just(Item::SuperInCapture), 1 => Just(Item::SuperTwice)];
    if depth == 0 {
        return prop::collection::vec(leaf, 0..4).boxed();
    }
    let inner = override_items(depth - 1);
    prop::collection::vec(prop_oneof![6 => leaf, 2 => inner.clone().prop_map(Item::Block), 1 => inner.clone().prop_map(Item::FilterSec), 1 => inner.prop_map(Item::SetBlockThenPrint)], 0..4).boxed()
}
pub fn chain_strategy(max_levels: usize) -> BoxedStrategy<ChainSpec> {
    (root_items(3), prop::collection::vec(prop::collection::vec((any::<u16>(), override_items(2)).prop_map(|(t, i)| Override { target: t, items: i }), 0..4), 0..max_levels), any::<u64>(), any::<bool>()).prop_map(|(root, levels, order, auto)| ChainSpec { root, levels, order, auto }).boxed()
}

/// resolves a spec into templates (model form). Returns (templates by chain order root-first, all block names)
pub fn build(spec: &ChainSpec) -> (Vec<(String, Tpl)>, Vec<String>) {
    let mut counter = 0usize;
    let mut known: Vec<String> = vec![];
    let mut marker = 0usize;
    fn conv(items: &[Item], level: usize, cur: Option<&str>, counter: &mut usize, known: &mut Vec<String>, new_names: &mut Vec<String>, marker: &mut usize) -> Vec<S> {
        let mut out = vec![];
        for it in items {
            *marker += 1;
            out.push(S::Text(format!("<{}.{}>", level, marker)));
            match it {
                Item::Stmt(s) => out.push(s.clone()),
                Item::Block(inner) => {
                    if *counter >= 10 {
                        out.extend(conv(inner, level, cur, counter, known, new_names, marker));
                        continue;
                    }
                    let name = format!("b{}", *counter);
                    *counter += 1;
                    new_names.push(name.clone());
                    let body = conv(inner, level, Some(&name), counter, known, new_names, marker);
                    out.push(S::Block { name, body });
                }
                Item::FilterSec(inner) => out.push(S::Filter { name: "upper".into(), kwargs: vec![], body: conv(inner, level, cur, counter, known, new_names, marker) }),
                Item::SetBlockThenPrint(inner) => {
                    out.push(S::SetBlock { name: "cap".into(), filters: vec![], body: conv(inner, level, cur, counter, known, new_names, marker), global: false });
                    out.push(S::Text("(cap:".into()));
                    out.push(S::Print(E::Var("cap".into())));
                    out.push(S::Text(")".into()));
                }
                Item::CompBody(inner) => out.push(S::Comp { name: "Wrap".into(), args: vec![], body: Some(conv(inner, level, cur, counter, known, new_names, marker)) }),
                Item::Super | Item::SuperTwice | Item::SuperInLoop | Item::SuperInCapture if cur.is_none() => {}
                Item::Super => out.push(S::Super),
                Item::SuperTwice => {
                    out.push(S::Super);
                    out.push(S::Text("+".into()));
                    out.push(S::Super);
                }
                Item::SuperInLoop => out.push(S::For { key: None, val: "sq".into(), target: E::Array(vec![crate::expr::Item::One(E::Int(1)), crate::expr::Item::One(E::Int(2))]), body: vec![S::Text("(".into()), S::Super, S::Text(")".into())], els: None }),
                Item::SuperInCapture => {
                    out.push(S::SetBlock { name: "scap".into(), filters: vec![("upper".into(), vec![])], body: vec![S::Super], global: false });
                    out.push(S::Print(E::Var("scap".into())));
                }
            }
        }
        out
    }
    let mut tpls: Vec<(String, Tpl)> = vec![];
    let mut new_names = vec![];
    let root_body = conv(&spec.root, 0, None, &mut counter, &mut known, &mut new_names, &mut marker);
    known.extend(new_names);
    tpls.push(("t0".to_string(), Tpl { body: root_body, autoescape: spec.auto, parent: None, components: vec![] }));
    for (li, lv) in spec.levels.iter().enumerate() {
        let level = li + 1;
        let mut body = vec![S::Text(format!("IGNORED{level}"))];
        let mut used = std::collections::BTreeSet::new();
        let mut new_names = vec![];
        if !known.is_empty() {
            for ov in lv {
                let target = known[(ov.target as usize * known.len()) >> 16].clone();
                if !used.insert(target.clone()) {
                    continue;
                }
                let b = conv(&ov.items, level, Some(&target), &mut counter, &mut known, &mut new_names, &mut marker);
                body.push(S::Block { name: target, body: b });
                body.push(S::Text("ignored text between blocks".into()));
            }
        }
        known.extend(new_names);
        tpls.push((format!("t{level}"), Tpl { body, autoescape: spec.auto, parent: Some(format!("t{}", level - 1)), components: vec![] }));
    }
    (tpls, known)
}

fn shuffle<T>(v: &mut Vec<T>, seed: u64) {
    let mut s = seed | 1;
    for i in (1..v.len()).rev() {
        s = splitmix(s);
        v.swap(i, (s % (i as u64 + 1)) as usize);
    }
}

fn wrap_component() -> CompDef {
    CompDef { name: "Wrap".into(), params: vec![], rest: None, body: vec![S::Text("<w>".into()), S::Print(E::Var("body".into())), S::Text("</w>".into())] }
}

/// the chain as engine sources (observed bodies, shuffled public names, the `Wrap` library):
/// (sources, template names root first, per template the blocks it or an ancestor defines)
pub fn chain_sources(spec: &ChainSpec) -> (Vec<(String, String)>, Vec<String>, Vec<Vec<String>>) {
    let (tpls, _) = build(spec);
    let suffix = if spec.auto { ".html" } else { ".txt" };
    let mut public: Vec<String> = (0..tpls.len()).map(|i| format!("n{}{}", i, suffix)).collect();
    shuffle(&mut public, spec.order);
    let rename = |n: &str| -> String { public[n[1..].parse::<usize>().unwrap()].clone() };
    let mut sources = vec![("lib".to_string(), Tpl { body: vec![], autoescape: false, parent: None, components: vec![wrap_component()] }.source())];
    let mut order = vec![];
    let mut known: Vec<String> = vec![];
    let mut names = vec![];
    for (n, t) in &tpls {
        let mut t = t.clone();
        for b in t.blocks().keys() {
            if !known.contains(b) {
                known.push(b.clone());
            }
        }
        names.push(known.clone());
        // a quarter of the chains stay uninstrumented: only there can a block body be empty (an empty override, a block holding nothing)
        if spec.order % 4 != 0 {
            t.body = stmtgen::with_obs(t.body, false);
        }
        t.parent = t.parent.as_ref().map(|p| rename(p));
        sources.push((rename(n), t.source()));
        order.push(rename(n));
    }
    (sources, order, names)
}

pub fn check_chain(spec: &ChainSpec, ctx: &Ctx, salt: u64, l: &mut Local) -> Check {
    let (tpls, names) = build(spec);
    // observation points everywhere (state flows through blocks in document order)
    let suffix = if spec.auto { ".html" } else { ".txt" };
    // shuffled public names
    let mut public: Vec<String> = (0..tpls.len()).map(|i| format!("n{}{}", i, suffix)).collect();
    shuffle(&mut public, spec.order);
    let rename = |n: &str| -> String { public[n[1..].parse::<usize>().unwrap()].clone() };
    let mut world: BTreeMap<String, Tpl> = BTreeMap::new();
    for (n, t) in &tpls {
        let mut t = t.clone();
        // a quarter of the chains stay uninstrumented: only there can a block body be empty (an empty override, a block holding nothing)
        if spec.order % 4 != 0 {
            t.body = stmtgen::with_obs(t.body, false);
        }
        t.parent = t.parent.as_ref().map(|p| rename(p));
        world.insert(rename(n), t);
    }
    world.insert("lib".to_string(), Tpl { body: vec![], autoescape: false, parent: None, components: vec![wrap_component()] });
    let mut comps = BTreeMap::new();
    comps.insert("Wrap".to_string(), wrap_component());
    let w = World { templates: &world, components: &comps, escape: escape_html, autoescape_override: None, sorted_map_loops: false };
    // registration: one batch in a random permutation
    let mut sources: Vec<(String, String)> = world.iter().map(|(n, t)| (n.clone(), t.source())).collect();
    shuffle(&mut sources, splitmix(spec.order));
    let case = || json!({"kind": "chain", "templates": sources, "context": ctx_to_json(ctx), "salt": salt, "chain_root_first": tpls.iter().map(|(n, _)| rename(n)).collect::<Vec<_>>()});
    let mut t = tera::Tera::new();
    match guard(|| t.add_raw_templates(sources.clone()).map_err(|e| e.to_string())) {
        Ok(Ok(())) => {}
        Ok(Err(m)) => return Err(Fail::new("C04/valid-chain-rejected", format!("{:?}: {}", sources, first_line(&m)), case())),
        Err(p) => return Err(Fail::new("C04/panic", p, case())),
    }
    // incremental registration in chain order (parents first) must behave the same
    let mut t_inc = tera::Tera::new();
    let _ = t_inc.add_raw_template("lib", &world["lib"].source());
    for (n, _) in &tpls {
        let pn = rename(n);
        if let Err(e) = t_inc.add_raw_template(&pn, &world[&pn].source()) {
            return Err(Fail::new("C04/valid-chain-rejected", format!("incremental add of {pn}: {}", first_line(&e.to_string())), case()));
        }
    }
    let tc = ctx_to_tera_enc(ctx, &Enc::new(salt));
    let render = |t: &tera::Tera, f: &dyn Fn(&tera::Tera) -> Result<String, tera::Error>| -> R {
        match guard(|| f(t)) {
            Ok(Ok(s)) => R::Ok(s),
            Ok(Err(e)) => R::Err(e.to_string()),
            Err(p) => R::Panic(p),
        }
    };
    let agree = |m: &Option<Result<String, ()>>, g: &R| -> Option<&'static str> {
        match (m, g) {
            (None, _) => None,
            (Some(Ok(a)), R::Ok(b)) if a == b => None,
            (Some(Err(())), R::Err(_)) => None,
            (_, R::Panic(_)) => Some("C04/panic"),
            (Some(Ok(_)), R::Ok(_)) => Some("C04/wrong-output"),
            (Some(Ok(_)), _) => Some("C04/expected-output-got-error"),
            (Some(Err(())), _) => Some("C04/expected-error-got-output"),
        }
    };
    let mut any_super_levels = 0;
    for (li, (n, _)) in tpls.iter().enumerate() {
        let entry = rename(n);
        let model = model_render(&w, &entry, ctx, None, None);
        let Some(model) = model else {
            l.discard();
            continue;
        };
        let mfull = Some(model.clone().map(|(s, _)| s));
        for (which, eng) in [("batch", &t), ("incremental", &t_inc)] {
            let got = render(eng, &|t| t.render(&entry, &tc));
            l.eval();
            if let Some(sig) = agree(&mfull, &got) {
                let mut c = case();
                c["entry"] = json!(entry);
                c["registration"] = json!(which);
                c["expected"] = json!(format!("{:?}", mfull));
                c["observed"] = got.json();
                return Err(Fail::new(sig, format!("render({entry}) [{which} registration] of {:?} with {}: model {:?}, engine {}", sources, ctx_to_json(ctx), mfull, got.json()), c));
            }
        }
        l.label(if model.is_ok() { "render:ok" } else { "render:error" });
        if model.is_ok() {
            l.label(&format!("chain-length:{}", (li + 1).min(6)));
        }
        // render_block for every block name known at this level
        for b in &names {
            // is the block defined in this template or an ancestor?
            let defined = tpls[..=li].iter().any(|(tn, _)| world[&rename(tn)].blocks().contains_key(b));
            if !defined {
                continue;
            }
            // count executions with a watching model run
            let mb = model_render(&w, &entry, ctx, None, Some(b));
            let Some(mb) = mb else { continue };
            // blocks executed more than once during the render (through repeated super()) are not judged
            let executions = count_block_executions(&w, &entry, ctx, b);
            if executions > 1 {
                l.label("render_block:skipped-multiple-executions");
                continue;
            }
            let exp = Some(mb.map(|(_, watched)| watched.unwrap_or_default()));
            let got = render(&t, &|t| t.render_block(&entry, b, &tc));
            l.eval();
            l.label("api:render_block");
            if let Some(sig) = agree(&exp, &got) {
                let mut c = case();
                c["entry"] = json!(entry);
                c["block"] = json!(b);
                c["expected"] = json!(format!("{:?}", exp));
                c["observed"] = got.json();
                return Err(Fail::new(format!("{sig}/render_block"), format!("render_block({entry}, {b}) of {:?} with {}: model {:?}, engine {}", sources, ctx_to_json(ctx), exp, got.json()), c));
            }
            if matches!(&exp, Some(Ok(s)) if !s.is_empty()) {
                l.label("render_block:non-empty");
            }
        }
        if li >= 2 {
            any_super_levels += 1;
        }
    }
    let src_all: String = sources.iter().map(|s| s.1.as_str()).collect();
    let supers = src_all.matches("super()").count();
    if supers > 0 {
        l.label("has:super");
    }
    if src_all.contains("endfilter") && src_all.contains("{% block") {
        l.label("has:capture-and-blocks");
    }
    if tpls.len() >= 3 && (supers >= 1 || any_super_levels > 0) {
        l.nontrivial(hash_of(&sources));
    }
    l.sample(|| json!({"templates": sources.iter().map(|(n, s)| (n.clone(), s.chars().take(300).collect::<String>())).collect::<Vec<_>>()}));
    Ok(())
}

/// how many times block `b` is executed during the full render (model)
fn count_block_executions(w: &World, entry: &str, ctx: &Ctx, b: &str) -> usize {
    // run the model with a marker: wrap is not available, so count through a watching run on a cloned world where
    // the most-derived definition of `b` starts with a unique marker
    let mut world = w.templates.clone();
    // find the most-derived definition along the chain of `entry`
    let mut chain = vec![entry.to_string()];
    let mut cur = entry.to_string();
    while let Some(p) = world[&cur].parent.clone() {
        chain.push(p.clone());
        cur = p;
    }
    fn mark(body: &mut Vec<S>, b: &str) -> bool {
        for s in body.iter_mut() {
            match s {
                S::Block { name, body } => {
                    if name == b {
                        body.insert(0, S::Text("\u{7}".into()));
                        return true;
                    }
                    if mark(body, b) {
                        return true;
                    }
                }
                S::Filter { body, .. } | S::SetBlock { body, .. } => {
                    if mark(body, b) {
                        return true;
                    }
                }
                S::Comp { body: Some(body), .. } => {
                    if mark(body, b) {
                        return true;
                    }
                }
                _ => {}
            }
        }
        false
    }
    for t in &chain {
        let tpl = world.get_mut(t).unwrap();
        if mark(&mut tpl.body, b) {
            break;
        }
    }
    let w2 = World { templates: &world, components: w.components, escape: |s| s.to_string(), autoescape_override: Some(false), sorted_map_loops: false };
    match model_render(&w2, entry, ctx, None, None) {
        Some(Ok((s, _))) => s.matches('\u{7}').count(),
        _ => 1,
    }
}

pub fn run(rep: &Report) {
    rep.set_rule("chains of 1..7 templates (13 in thorough): the root places a tree of up to 10 blocks (nested, inside filter sections, captured set blocks and component-call bodies); every descendant overrides a random subset of all blocks known so far at top level (including blocks an ancestor introduced nested in an override), may nest fresh blocks in its overrides and places super() calls (plain, twice, inside a loop, inside a filtered capture); levels skip blocks at random; ignored text sits outside the blocks of children; names are shuffled and the set is registered in a random permutation in one batch and, separately, parents-first one by one. Bodies carry unique markers, assignments and observation points so state flows through blocks in document order. Oracle: reference resolver (most-derived definition per name; super() = same block in the nearest ancestor defining it; error if none) on every template of the chain as entry point, and render_block for every block known to each entry (text the block wrote during the full render; blocks executed more than once are not judged). Non-trivial: chain of >= 3 with at least one super(); distinct by sources.");
    rep.assume("nested blocks introduced by overrides always get fresh names, so the cyclic nesting through super() of finding F9 and blocks placed twice cannot be generated; included templates never extend");
    for k in rep.known.clone() {
        if let Some(Err(f)) = replay(rep, &k.repro) {
            rep.fail(Fail::new(format!("{}/regressed", k.signature), f.what, f.case));
        }
    }
    let maxl = if rep.tier == Tier::Thorough { 10 } else { 6 };
    let n = rep.tier.scale(24_000, 8);
    run_family(rep, "chains", n, move || (chain_strategy(maxl), stmtgen::ctxs(), any::<u64>()), |(spec, (ctx, _), salt), l| check_chain(spec, ctx, *salt, l));
    for (lab, min) in [("render:ok", 20_000), ("render:error", 8_000), ("chain-length:3", 2_000), ("chain-length:5", 800), ("has:super", 8_000), ("has:capture-and-blocks", 4_000), ("api:render_block", 40_000), ("render_block:non-empty", 12_000)] {
        rep.floor(lab, min);
    }
}

pub fn replay(_rep: &Report, case: &serde_json::Value) -> Option<Check> {
    match case.get("kind")?.as_str()? {
        "chain" | "fixed_block" => {
            // source-level replay: the recorded expectation for the recorded entry (and block)
            let sources: Vec<(String, String)> = case.get("templates")?.as_array()?.iter().map(|p| Some((p.get(0)?.as_str()?.to_string(), p.get(1)?.as_str()?.to_string()))).collect::<Option<_>>()?;
            let ctx = ctx_from_json(case.get("context")?)?;
            let salt = case.get("salt").and_then(|x| x.as_u64()).unwrap_or(0);
            let mut t = tera::Tera::new();
            if let Err(e) = t.add_raw_templates(sources) {
                return Some(Err(Fail::new("C04/replay", e.to_string(), case.clone())));
            }
            let tc = ctx_to_tera_enc(&ctx, &Enc::new(salt));
            let entry = case.get("entry")?.as_str()?;
            let got = match case.get("block").and_then(|x| x.as_str()) {
                Some(b) => t.render_block(entry, b, &tc),
                None => t.render(entry, &tc),
            };
            let exp = case.get("expected")?.as_str()?;
            let shown = match &got {
                Ok(s) => format!("Some(Ok({:?}))", s),
                Err(_) => "Some(Err(()))".to_string(),
            };
            Some(if shown == exp { Ok(()) } else { Err(Fail::new("C04/replay", format!("expected {exp}, engine gave {shown}"), case.clone())) })
        }
        _ => None,
    }
}
