//! C05 — Components: arguments checked and bound, scope isolated, recursion bounded.
use crate::core::*;
use crate::expr::*;
use crate::mval::*;
use crate::stmt::*;
use crate::stmtgen;
use proptest::prelude::*;
use serde_json::json;
use std::collections::BTreeMap;

use super::c02::R;

const PARAM_NAMES: &[&str] = &["p", "q", "r", "a", "b", "x"];
const EXTRA_ARGS: &[&str] = &["zz", "k", "cls"];
const COMP_NAMES: &[&str] = &["Alpha", "ui.Beta", "Gamma", "ui.forms.Delta"];

#[derive(Debug, Clone)]
pub struct ParamSpec {
    pub name_idx: usize,
    pub ty: Option<CType>,
    pub default: Option<MVal>,
}
#[derive(Debug, Clone)]
pub enum ArgVal {
    Lit(MVal),
    Var(String),
}
#[derive(Debug, Clone)]
pub struct ArgSpec {
    /// index into param names ∪ extras
    pub name_idx: usize,
    pub val: ArgVal,
    /// 0 named, 1 shorthand, 2 spread of a one-entry map
    pub form: u8,
}
#[derive(Debug, Clone)]
pub struct CallSpec {
    pub target: u16,
    pub args: Vec<ArgSpec>,
    pub body: Option<Vec<S>>,
    /// when set, the call is repaired against the target's signature (unknown arguments dropped unless there is a
    /// rest parameter, missing required arguments added, wrongly typed values replaced) so that most calls bind
    pub repair: bool,
}
#[derive(Debug, Clone)]
pub struct CompSpec {
    pub params: Vec<ParamSpec>,
    pub rest: bool,
    pub calls: Vec<CallSpec>,
    pub include: bool,
    pub file: u8,
}
#[derive(Debug, Clone)]
pub enum MainItem {
    Stmt(S),
    Call(CallSpec),
    LoopCall(CallSpec),
    Include,
    CaptureCall(CallSpec),
}
#[derive(Debug, Clone)]
pub struct SetSpec {
    pub comps: Vec<CompSpec>,
    pub main: Vec<MainItem>,
    pub inc: Vec<MainItem>,
    pub auto: bool,
}

fn literal(ty: Option<&CType>) -> BoxedStrategy<MVal> {
    match ty {
        Some(CType::String) => prop::sample::select(vec!["", "s<", "é"]).prop_map(MVal::s).boxed(),
        Some(CType::Bool) => any::<bool>().prop_map(MVal::Bool).boxed(),
        Some(CType::Integer) => (0i128..5).prop_map(MVal::Int).boxed(),
        Some(CType::Float) => prop::sample::select(vec![0.5, 2.0, 10.25]).prop_map(MVal::Float).boxed(),
        Some(CType::Number) => prop_oneof![(0i128..5).prop_map(MVal::Int), Just(MVal::Float(1.5))].boxed(),
        Some(CType::Array) => prop_oneof![Just(MVal::Array(vec![])), Just(MVal::Array(vec![MVal::Int(1), MVal::s("<a>")]))].boxed(),
        Some(CType::Map) => prop_oneof![Just(MVal::smap(vec![])), Just(MVal::smap(vec![("k", MVal::Int(1))]))].boxed(),
        None => prop_oneof![(0i128..5).prop_map(MVal::Int), prop::sample::select(vec!["", "d<", "é"]).prop_map(MVal::s), any::<bool>().prop_map(MVal::Bool), Just(MVal::Float(2.5)), Just(MVal::Float(2.0)), Just(MVal::Float(0.0)), Just(MVal::None), Just(MVal::Array(vec![MVal::Int(7)])), Just(MVal::smap(vec![("k", MVal::s("v"))]))].boxed(),
    }
}
fn ctype() -> BoxedStrategy<CType> {
    prop::sample::select(vec![CType::String, CType::Bool, CType::Integer, CType::Float, CType::Number, CType::Array, CType::Map]).boxed()
}
fn param() -> BoxedStrategy<ParamSpec> {
    (0..PARAM_NAMES.len(), prop::option::of(ctype()), any::<u8>()).prop_flat_map(|(n, ty, d)| {
        let has_default = d % 2 == 0;
        let lit = literal(ty.as_ref());
        (Just(n), Just(ty), if has_default { lit.prop_map(Some).boxed() } else { Just(None).boxed() })
    }).prop_map(|(n, ty, default)| ParamSpec { name_idx: n, ty, default }).boxed()
}
fn argval() -> BoxedStrategy<ArgVal> {
    prop_oneof![3 => literal(None).prop_map(ArgVal::Lit), 2 => stmtgen::name().prop_map(ArgVal::Var), 1 => Just(ArgVal::Lit(MVal::Int(3))), 1 => Just(ArgVal::Lit(MVal::s("txt")))].boxed()
}
fn call(with_body: bool) -> BoxedStrategy<CallSpec> {
    let body: BoxedStrategy<Option<Vec<S>>> = if with_body { prop::option::of(prop::collection::vec(prop_oneof![Just(S::Text("B<".into())), stmtgen::name().prop_map(|n| S::Print(E::Filter(Box::new(E::Var(n)), "default".into(), vec![("value".into(), E::Str("~".into()))])))], 0..3)).boxed() } else { Just(None).boxed() };
    (any::<u16>(), prop::collection::vec((0..PARAM_NAMES.len() + EXTRA_ARGS.len(), argval(), prop_oneof![5 => Just(0u8), 1 => Just(1u8), 1 => Just(2u8)]).prop_map(|(n, v, f)| ArgSpec { name_idx: n, val: v, form: f }), 0..4), body, prop::bool::weighted(0.7)).prop_map(|(t, args, body, repair)| CallSpec { target: t, args, body, repair }).boxed()
}
fn comp() -> BoxedStrategy<CompSpec> {
    (prop::collection::vec(param(), 0..4), any::<bool>(), prop::collection::vec(call(true), 0..2), prop::bool::weighted(0.2), 0u8..3).prop_map(|(params, rest, calls, include, file)| CompSpec { params, rest, calls, include, file }).boxed()
}
fn main_items() -> BoxedStrategy<Vec<MainItem>> {
    prop::collection::vec(prop_oneof![
        2 => "[A-Z]".prop_map(|t| MainItem::Stmt(S::Text(t))),
        2 => (stmtgen::name(), stmtgen::simple_e(false)).prop_map(|(n, e)| MainItem::Stmt(S::Set { name: n, e, global: false })),
        5 => call(true).prop_map(MainItem::Call),
        2 => call(true).prop_map(MainItem::LoopCall),
        1 => call(false).prop_map(MainItem::CaptureCall),
        1 => Just(MainItem::Include),
    ], 1..6).boxed()
}
pub fn set_strategy() -> BoxedStrategy<SetSpec> {
    (prop::collection::vec(comp(), 1..5), main_items(), main_items(), any::<bool>()).prop_map(|(comps, main, inc, auto)| SetSpec { comps, main, inc, auto }).boxed()
}

fn arg_name(i: usize) -> &'static str {
    if i < PARAM_NAMES.len() {
        PARAM_NAMES[i]
    } else {
        EXTRA_ARGS[i - PARAM_NAMES.len()]
    }
}
fn lit_expr(v: &MVal) -> E {
    match v {
        MVal::Int(i) => E::Int(*i as i64),
        MVal::Float(f) => E::Float(*f),
        MVal::Str(s, _) => E::Str(s.clone()),
        MVal::Bool(b) => E::Bool(*b),
        MVal::None => E::None,
        MVal::Array(a) => E::Array(a.iter().map(|x| crate::expr::Item::One(lit_expr(x))).collect()),
        MVal::Map(m) => E::Map(m.iter().map(|(k, v)| Entry::Kv(k.clone(), lit_expr(v))).collect()),
        _ => E::None,
    }
}
fn right_literal(ty: Option<&CType>, k: usize) -> MVal {
    match ty {
        Some(CType::String) => MVal::s(["s<", "é"][k % 2]),
        Some(CType::Bool) => MVal::Bool(k % 2 == 0),
        Some(CType::Integer) => MVal::Int(k as i128 % 5),
        Some(CType::Float) => MVal::Float(0.5 + k as f64),
        Some(CType::Number) => if k % 2 == 0 { MVal::Int(2) } else { MVal::Float(1.5) },
        Some(CType::Array) => MVal::Array(vec![MVal::Int(k as i128)]),
        Some(CType::Map) => MVal::smap(vec![("k", MVal::Int(k as i128))]),
        None => MVal::s("any"),
    }
}
fn conv_call(c: &CallSpec, comps: &[CompSpec], ncomps: usize, max_target: usize) -> Option<S> {
    if max_target == 0 {
        return None;
    }
    let target = (c.target as usize * max_target.min(ncomps)) >> 16;
    let sig = &comps[target];
    let declared = |n: &str| sig.params.iter().find(|p| PARAM_NAMES[p.name_idx] == n);
    let eff_ty = |p: &ParamSpec| p.ty.clone().or_else(|| p.default.as_ref().and_then(CType::infer));
    let mut args = vec![];
    let mut given = std::collections::BTreeSet::new();
    for (k, a) in c.args.iter().enumerate() {
        let n = arg_name(a.name_idx).to_string();
        let mut val = a.val.clone();
        if c.repair {
            match declared(&n) {
                None if !sig.rest => continue,
                Some(p) => {
                    if let (Some(t), ArgVal::Lit(v)) = (eff_ty(p), &val) {
                        if !t.accepts(v) {
                            val = ArgVal::Lit(right_literal(Some(&t), k));
                        }
                    }
                    // a caller variable of unknown kind for a typed parameter: keep it sometimes (k odd)
                    if let (Some(t), ArgVal::Var(_)) = (eff_ty(p), &val) {
                        if k % 2 == 0 {
                            val = ArgVal::Lit(right_literal(Some(&t), k));
                        }
                    }
                }
                _ => {}
            }
            if n == "body" {
                continue;
            }
        }
        given.insert(n.clone());
        let e = match &val {
            ArgVal::Lit(v) => lit_expr(v),
            ArgVal::Var(v) => E::Var(v.clone()),
        };
        args.push(match a.form {
            // the shorthand passes the caller variable of the same name
            1 => CArg::Short(n),
            2 => CArg::Spread(E::Map(vec![Entry::Kv(MKey::Str(n), e)])),
            _ => CArg::Named(n, e),
        });
    }
    if c.repair {
        let mut seen = std::collections::BTreeSet::new();
        for (k, p) in sig.params.iter().enumerate() {
            let n = PARAM_NAMES[p.name_idx];
            if !seen.insert(n) {
                continue;
            }
            if p.default.is_none() && !given.contains(n) {
                args.push(CArg::Named(n.to_string(), lit_expr(&right_literal(eff_ty(p).as_ref(), k))));
            }
        }
    }
    Some(S::Comp { name: COMP_NAMES[target].to_string(), args, body: c.body.clone() })
}

/// builds the model world: files lib0..lib2 with the component definitions, inc, main
pub fn build(spec: &SetSpec) -> (BTreeMap<String, Tpl>, BTreeMap<String, CompDef>, String) {
    let n = spec.comps.len().min(COMP_NAMES.len());
    let mut defs = vec![];
    for (i, c) in spec.comps.iter().take(n).enumerate() {
        let mut seen = std::collections::BTreeSet::new();
        let params: Vec<CParam> = c.params.iter().filter(|p| seen.insert(p.name_idx)).map(|p| CParam { name: PARAM_NAMES[p.name_idx].to_string(), ty: p.ty.clone(), default: p.default.clone() }).collect();
        // body: parameters, rest and body observed, the whole name pool observed (isolation), calls to earlier components
        let mut body = vec![S::Text(format!("<{}:", COMP_NAMES[i]))];
        for p in &params {
            body.push(S::Text(format!("{}=", p.name)));
            body.push(S::Print(E::Filter(Box::new(E::Var(p.name.clone())), "default".into(), vec![("value".into(), E::Str("~".into()))])));
            body.push(S::Text(";".into()));
        }
        if c.rest {
            body.push(S::Text("rest=".into()));
            body.push(S::Print(E::Var("rest".into())));
        }
        body.push(S::Text("|body=".into()));
        body.push(S::Print(E::Filter(Box::new(E::Var("body".into())), "default".into(), vec![("value".into(), E::Str("~".into()))])));
        body.extend(stmtgen::obs(false));
        for cs in &c.calls {
            if let Some(s) = conv_call(cs, &spec.comps, n, i) {
                body.push(s);
            }
        }
        if c.include {
            body.push(S::Include("leaf.txt".into()));
        }
        body.push(S::Text(">".into()));
        defs.push((c.file % 3, CompDef { name: COMP_NAMES[i].to_string(), params, rest: if c.rest { Some("rest".into()) } else { None }, body }));
    }
    let conv_items = |items: &[MainItem], allow_include: bool| -> Vec<S> {
        let mut out = vec![];
        for it in items {
            match it {
                MainItem::Stmt(s) => out.push(s.clone()),
                MainItem::Call(c) => out.extend(conv_call(c, &spec.comps, n, n)),
                MainItem::LoopCall(c) => {
                    if let Some(s) = conv_call(c, &spec.comps, n, n) {
                        out.push(S::For { key: None, val: "i".into(), target: E::Array(vec![crate::expr::Item::One(E::Int(1)), crate::expr::Item::One(E::Str("<l>".into()))]), body: vec![s], els: None });
                    }
                }
                MainItem::CaptureCall(c) => {
                    if let Some(s) = conv_call(c, &spec.comps, n, n) {
                        out.push(S::SetBlock { name: "cap".into(), filters: vec![], body: vec![s], global: false });
                        out.push(S::Print(E::Var("cap".into())));
                    }
                }
                MainItem::Include => {
                    if allow_include {
                        out.push(S::Include("inc.txt".into()));
                    }
                }
            }
            out.extend(stmtgen::obs(false));
        }
        out
    };
    let mut world = BTreeMap::new();
    for f in 0..3u8 {
        let comps: Vec<CompDef> = defs.iter().filter(|(ff, _)| *ff == f).map(|(_, d)| d.clone()).collect();
        world.insert(format!("lib{f}.txt"), Tpl { body: vec![S::Text(format!("lib{f}"))], autoescape: false, parent: None, components: comps });
    }
    world.insert("leaf.txt".to_string(), Tpl { body: vec![S::Text("(leaf:".into())].into_iter().chain(stmtgen::obs(false)).chain(std::iter::once(S::Text(")".into()))).collect(), autoescape: false, parent: None, components: vec![] });
    world.insert("inc.txt".to_string(), Tpl { body: conv_items(&spec.inc, false), autoescape: false, parent: None, components: vec![] });
    let main_name = if spec.auto { "main.html" } else { "main.txt" }.to_string();
    world.insert(main_name.clone(), Tpl { body: conv_items(&spec.main, true), autoescape: spec.auto, parent: None, components: vec![] });
    let comps: BTreeMap<String, CompDef> = defs.into_iter().map(|(_, d)| (d.name.clone(), d)).collect();
    (world, comps, main_name)
}

fn run_engine(f: impl FnOnce() -> Result<String, tera::Error>) -> R {
    match guard(f) {
        Ok(Ok(s)) => R::Ok(s),
        Ok(Err(e)) => R::Err(e.to_string()),
        Err(p) => R::Panic(p),
    }
}
fn verdict(m: &Result<String, ()>, g: &R) -> Option<&'static str> {
    match (m, g) {
        (Ok(a), R::Ok(b)) if a == b => None,
        (Err(()), R::Err(_)) => None,
        (_, R::Panic(_)) => Some("C05/panic"),
        (Ok(_), R::Ok(_)) => Some("C05/wrong-output"),
        (Ok(_), _) => Some("C05/expected-output-got-error"),
        (Err(()), _) => Some("C05/expected-error-got-output"),
    }
}

pub fn check_set(spec: &SetSpec, ctx: &Ctx, glob: &Ctx, api_args: &Ctx, salt: u64, l: &mut Local) -> Check {
    let (world, comps, main) = build(spec);
    let w = World { templates: &world, components: &comps, escape: escape_html, autoescape_override: None, sorted_map_loops: false };
    let sources: Vec<(String, String)> = world.iter().map(|(n, t)| (n.clone(), t.source())).collect();
    let case = || json!({"kind": "components", "templates": sources, "entry": main, "context": ctx_to_json(ctx), "global": ctx_to_json(glob), "salt": salt});
    let mut t = tera::Tera::new();
    let enc = Enc::new(salt);
    for (k, v) in glob {
        t.global_context().insert_value(k.clone(), to_tera_enc(v, &enc));
    }
    match guard(|| t.add_raw_templates(sources.clone()).map_err(|e| e.to_string())) {
        Ok(Ok(())) => {}
        Ok(Err(m)) => return Err(Fail::new("C05/valid-set-rejected", format!("{:?}: {}", sources, first_line(&m)), case())),
        Err(p) => return Err(Fail::new("C05/panic", p, case())),
    }
    let tc = ctx_to_tera_enc(ctx, &Enc::new(splitmix(salt)));
    // 1. template calls
    match model_render(&w, &main, ctx, Some(glob), None) {
        None => l.discard(),
        Some(m) => {
            let m = m.map(|(s, _)| s);
            let got = run_engine(|| t.render(&main, &tc));
            l.eval();
            if let Some(sig) = verdict(&m, &got) {
                let mut c = case();
                c["expected"] = json!(format!("{:?}", m));
                c["observed"] = got.json();
                return Err(Fail::new(sig, format!("render({main}) of {:?} ctx {} global {}: model {:?}, engine {}", sources, ctx_to_json(ctx), ctx_to_json(glob), m, got.json()), c));
            }
            l.label(if m.is_ok() { "render:ok" } else { "render:error" });
            let src = &world[&main].source();
            if m.is_ok() && src.contains("<") {
                l.nontrivial(hash_of(&(sources.clone(), ctx_to_json(ctx).to_string())));
                l.sample(|| json!({"main": src.chars().take(500).collect::<String>(), "output": m.clone().unwrap_or_default().chars().take(300).collect::<String>()}));
            }
        }
    }
    // 2. the API: render_component(name, args, body, autoescape) against the binder + interpreter
    for (name, def) in &comps {
        for (body, auto) in [(None, true), (Some("<b>api</b>"), false), (Some(""), true)] {
            let given: Vec<(String, MVal)> = api_args.iter().map(|(k, v)| (k.clone(), v.clone())).collect();
            let exp: Option<Result<String, ()>> = match bind_component(def, &given, body.map(|b| MVal::Str(b.to_string(), true))) {
                Err(MErr(m)) if m == UNSPEC => None,
                Err(_) => Some(Err(())),
                Ok(cctx) => {
                    let w2 = World { templates: &world, components: &comps, escape: escape_html, autoescape_override: Some(auto), sorted_map_loops: false };
                    let bud = Budget::new(200_000);
                    let mut st = St::new(&cctx, None, None, &bud);
                    let mut out = String::new();
                    match st.run(&w2, &def.body, auto, &mut out) {
                        Ok(_) => Some(Ok(out)),
                        Err(MErr(m)) if m == UNSPEC || m == BUDGET => None,
                        Err(_) => Some(Err(())),
                    }
                }
            };
            let Some(exp) = exp else {
                l.discard();
                continue;
            };
            let ac = ctx_to_tera_enc(api_args, &enc);
            let got = run_engine(|| t.render_component(name, &ac, body, auto));
            l.eval();
            l.label("api:render_component");
            if let Some(sig) = verdict(&exp, &got) {
                let mut c = case();
                c["component"] = json!(name);
                c["api_args"] = ctx_to_json(api_args);
                c["api_body"] = json!(body);
                c["api_autoescape"] = json!(auto);
                c["expected"] = json!(format!("{:?}", exp));
                c["observed"] = got.json();
                return Err(Fail::new(format!("{sig}/render_component"), format!("render_component({name}, {}, body={:?}, autoescape={auto}) with definitions {:?}: model {:?}, engine {}", ctx_to_json(api_args), body, sources.iter().filter(|s| s.0.starts_with("lib")).collect::<Vec<_>>(), exp, got.json()), c));
            }
            if exp.is_ok() {
                l.label("api:render_component-ok");
            }
        }
        // labels about the signature
        if def.params.iter().any(|p| p.default.is_some()) {
            l.label("sig:default");
        }
        if def.params.iter().any(|p| p.ty.is_some()) {
            l.label("sig:typed");
        }
        if def.params.iter().any(|p| p.ty.is_none() && p.default.is_some()) {
            l.label("sig:inferred-type");
        }
        if def.rest.is_some() {
            l.label("sig:rest");
        }
    }
    Ok(())
}

// ------------------------------------------------------------------------------------------
// priorities under fallback prefixes

pub fn check_priority(files: &[(u8, bool)], prefix_order: &[u8], l: &mut Local) -> Check {
    // files: (location 0 = no prefix, 1 = "themeA/", 2 = "themeB/", 3 = "other/"), defines component C?
    const LOC: [&str; 4] = ["", "themeA/", "themeB/", "other/"];
    let prefixes: Vec<String> = prefix_order.iter().map(|p| LOC[*p as usize % 3 + 1].to_string()).collect::<Vec<_>>();
    let mut uniq = vec![];
    for p in &prefixes {
        if !uniq.contains(p) {
            uniq.push(p.clone());
        }
    }
    let prefixes = uniq;
    let mut sources: Vec<(String, String)> = vec![];
    for (i, (loc, defines)) in files.iter().enumerate() {
        let name = format!("{}f{}.txt", LOC[*loc as usize % 4], i);
        // a file that defines C also calls it: the call must resolve to the highest-priority definition, not to its own
        let src = if *defines { format!("{{% component C() %}}[from {name}]{{% endcomponent C %}}|{{{{ <C /> }}}}") } else { "x".to_string() };
        sources.push((name, src));
    }
    sources.push(("main.txt".into(), "{{ <C /> }}".into()));
    let prio = |name: &str| -> usize { prefixes.iter().position(|p| name.starts_with(p.as_str())).map(|i| i + 1).unwrap_or(0) };
    let definers: Vec<&(String, String)> = sources.iter().filter(|s| s.1.contains("component C")).collect();
    let best = definers.iter().map(|s| prio(&s.0)).min();
    let case = || json!({"kind": "priority", "templates": sources, "prefixes": prefixes});
    let mut t = tera::Tera::new();
    if let Err(e) = t.set_fallback_prefixes(prefixes.clone()) {
        return Err(Fail::new("C05/prefixes-rejected", e.to_string(), case()));
    }
    let r = guard(|| t.add_raw_templates(sources.clone()).map_err(|e| e.to_string()));
    l.eval();
    let r = match r {
        Ok(r) => r,
        Err(p) => return Err(Fail::new("C05/panic", p, case())),
    };
    match best {
        None => {
            // nobody defines C: the call is an unknown component
            if r.is_ok() {
                return Err(Fail::new("C05/unknown-component-accepted", format!("{:?}", sources), case()));
            }
            l.label("priority:undefined");
        }
        Some(b) => {
            let winners: Vec<&&(String, String)> = definers.iter().filter(|s| prio(&s.0) == b).collect();
            // any two definitions at the same priority are a duplicate, whatever their rank
            let mut by_prio: BTreeMap<usize, usize> = BTreeMap::new();
            for d in &definers {
                *by_prio.entry(prio(&d.0)).or_default() += 1;
            }
            // two definitions at the winning priority are a duplicate. Duplicates at a shadowed (lower) priority are
            // accepted or rejected depending on the alphabetical order of the template names: not claimed either way
            let dup = by_prio[&b] > 1;
            let shadowed_dup = by_prio.iter().any(|(p, n)| *p != b && *n > 1);
            if shadowed_dup && r.is_err() {
                l.label("priority:shadowed-duplicate-rejected");
                return Ok(());
            }
            if shadowed_dup {
                l.label("priority:shadowed-duplicate-accepted");
            }
            if dup {
                if r.is_ok() {
                    return Err(Fail::new("C05/duplicate-component-accepted", format!("two definitions of C at the same priority were accepted: {:?} prefixes {:?}", sources, prefixes), case()));
                }
                l.label("priority:duplicate-rejected");
            } else {
                if let Err(m) = &r {
                    return Err(Fail::new("C05/valid-set-rejected", format!("{:?} prefixes {:?}: {}", sources, prefixes, first_line(m)), case()));
                }
                let exp = format!("[from {}]", winners[0].0);
                let got = run_engine(|| t.render("main.txt", &tera::Context::new()));
                let got2 = run_engine(|| t.render_component("C", &tera::Context::new(), None, false));
                l.evals_n(2);
                if got != R::Ok(exp.clone()) || got2 != R::Ok(exp.clone()) {
                    return Err(Fail::new("C05/wrong-priority", format!("{:?} prefixes {:?}: expected {exp}, template call gave {}, API gave {}", sources, prefixes, got.json(), got2.json()), case()));
                }
                for d in &definers {
                    let g = run_engine(|| t.render(&d.0, &tera::Context::new()));
                    l.eval();
                    if g != R::Ok(format!("|{exp}")) {
                        return Err(Fail::new("C05/wrong-priority", format!("{:?} prefixes {:?}: rendering {} (which holds a lower-priority definition and calls C) gave {}, expected |{exp}", sources, prefixes, d.0, g.json()), case()));
                    }
                }
                l.label("priority:resolved");
                if definers.len() >= 2 {
                    l.label("priority:resolved-among-several");
                    l.nontrivial(hash_of(&(sources.clone(), prefixes.clone())));
                }
            }
        }
    }
    Ok(())
}

// ------------------------------------------------------------------------------------------
// recursion (worker subprocess)

pub fn recursion_shapes() -> Vec<(&'static str, Vec<(String, String)>)> {
    vec![
        ("direct", vec![("lib.txt".into(), "{% component R(n) %}{{ n }},{% if n > 0 %}{{ <R n={ n - 1 } /> }}{% endif %}{% endcomponent R %}".into()), ("main.txt".into(), "{{ <R n={ n } /> }}".into())]),
        ("mutual", vec![("lib.txt".into(), "{% component A(n) %}{{ n }},{% if n > 0 %}{{ <B n={ n - 1 } /> }}{% endif %}{% endcomponent A %}{% component B(n) %}{{ n }},{% if n > 0 %}{{ <A n={ n - 1 } /> }}{% endif %}{% endcomponent B %}".into()), ("main.txt".into(), "{{ <A n={ n } /> }}".into())]),
        ("through-include", vec![("lib.txt".into(), "{% component R(n) %}{{ n }},{% if n > 0 %}{% include \"step.txt\" %}{% endif %}{% endcomponent R %}".into()), ("step.txt".into(), "{{ <R n={ n - 1 } /> }}".into()), ("main.txt".into(), "{{ <R n={ n } /> }}".into())]),
        ("through-body", vec![("lib.txt".into(), "{% component W() %}{{ body }}{% endcomponent W %}{% component R(n) %}{{ n }},{% if n > 0 %}{% <W> %}{{ <R n={ n - 1 } /> }}{% </W> %}{% endif %}{% endcomponent R %}".into()), ("main.txt".into(), "{{ <R n={ n } /> }}".into())]),
        ("in-loop-and-capture", vec![("lib.txt".into(), "{% component R(n) %}{{ n }},{% if n > 0 %}{% for q in [1] %}{% set c %}{{ <R n={ n - 1 } /> }}{% endset %}{{ c }}{% endfor %}{% endif %}{% endcomponent R %}".into()), ("main.txt".into(), "{{ <R n={ n } /> }}".into())]),
        ("mutual-through-two-includes", vec![("lib.txt".into(), "{% component A(n) %}{{ n }},{% if n > 0 %}{% include \"toB.txt\" %}{% endif %}{% endcomponent A %}{% component B(n) %}{{ n }},{% if n > 0 %}{% include \"toA.txt\" %}{% endif %}{% endcomponent B %}".into()), ("toB.txt".into(), "{% include \"toB2.txt\" %}".into()), ("toB2.txt".into(), "{{ <B n={ n - 1 } /> }}".into()), ("toA.txt".into(), "{{ <A n={ n - 1 } /> }}".into()), ("main.txt".into(), "{{ <A n={ n } /> }}".into())]),
        ("through-include-in-capture", vec![("lib.txt".into(), "{% component R(n) %}{{ n }},{% if n > 0 %}{% filter trim %}{% include \"step.txt\" %}{% endfilter %}{% endif %}{% endcomponent R %}".into()), ("step.txt".into(), "{% set c %}{{ <R n={ n - 1 } /> }}{% endset %}{{ c }}".into()), ("main.txt".into(), "{{ <R n={ n } /> }}".into())]),
        ("as-argument-default-body", vec![("lib.txt".into(), "{% component P(v) %}{{ v }}{% endcomponent P %}{% component R(n) %}{{ n }},{% if n > 0 %}{{ <P v={ <R n={ n - 1 } /> } /> }}{% endif %}{% endcomponent R %}".into()), ("main.txt".into(), "{{ <R n={ n } /> }}".into())]),
        ("from-included-main", vec![("lib.txt".into(), "{% component R(n) %}{{ n }},{% if n > 0 %}{{ <R n={ n - 1 } /> }}{% endif %}{% endcomponent R %}".into()), ("inner.txt".into(), "{{ <R n={ n } /> }}".into()), ("main.txt".into(), "{% include \"inner.txt\" %}".into())]),
        ("from-block-of-parent", vec![("lib.txt".into(), "{% component R(n) %}{{ n }},{% if n > 0 %}{{ <R n={ n - 1 } /> }}{% endif %}{% endcomponent R %}".into()), ("base.txt".into(), "{% block b %}{{ <R n={ n } /> }}{% endblock %}".into()), ("main.txt".into(), "{% extends \"base.txt\" %}{% block b %}{{ super() }}{% endblock %}".into())]),
    ]
}
pub fn recursion_cases() -> Vec<(String, Vec<(String, String)>, i64, &'static str)> {
    // (label, templates, n, expectation class) — class: "ok" must render exact text, "err" must fail, "either"
    let mut v = vec![];
    for (label, tpls) in recursion_shapes() {
        for (n, class) in [(0i64, "ok"), (1, "ok"), (5, "ok"), (14, "ok"), (17, "either"), (19, "either"), (20, "either"), (25, "either"), (40, "either"), (100, "either"), (300, "err"), (100_000, "err")] {
            v.push((format!("{label} n={n}"), tpls.clone(), n, class));
        }
    }
    // unbounded recursion: the argument never decreases
    for (label, lib) in [
        ("unbounded-direct", "{% component R(n) %}{{ <R n={ n } /> }}{% endcomponent R %}"),
        ("unbounded-mutual", "{% component R(n) %}{{ <S n={ n } /> }}{% endcomponent R %}{% component S(n) %}{{ <R n={ n } /> }}{% endcomponent S %}"),
        ("unbounded-through-include", "{% component R(n) %}{% include \"again.txt\" %}{% endcomponent R %}"),
        ("unbounded-through-body", "{% component W() %}{{ body }}{% endcomponent W %}{% component R(n) %}{% <W> %}{{ <R n={ n } /> }}{% </W> %}{% endcomponent R %}"),
    ] {
        v.push((label.to_string(), vec![("lib.txt".into(), lib.into()), ("again.txt".into(), "{{ <R n={ n } /> }}".into()), ("main.txt".into(), "{{ <R n={ n } /> }}".into())], 1, "err"));
    }
    v
}

/// "one limit": the deepest nesting of calls that renders must not depend on what lies between two nested calls
fn limit_worker(w: &WorkerArgs) -> i32 {
    let shapes = recursion_shapes();
    let Some((label, tpls)) = shapes.get(w.shard as usize).cloned() else { return 2 };
    let h = std::thread::Builder::new().stack_size(8 << 20).spawn(move || {
        let mut l = Local::new();
        let mut fails = vec![];
        let mut t = tera::Tera::new();
        if let Err(e) = t.add_raw_templates(tpls.clone()) {
            fails.push(Fail::new("C05/valid-set-rejected", format!("{label}: {e}"), json!({"kind": "recursion-limit", "label": label})));
            return (l, fails);
        }
        let mut deepest_ok: i64 = -1;
        let mut first_err: Option<i64> = None;
        for n in 0..=70i64 {
            let mut c = tera::Context::new();
            c.insert("n", &n);
            let got = run_engine(|| t.render("main.txt", &c));
            l.eval();
            let exp_text: String = (0..=n).rev().map(|i| format!("{i},")).collect();
            match got {
                R::Ok(s) if s.trim() == exp_text && first_err.is_none() => deepest_ok = n,
                R::Err(_) => first_err = first_err.or(Some(n)),
                other => {
                    fails.push(Fail::new(if matches!(other, R::Panic(_)) { "C05/panic" } else { "C05/recursion-wrong-result" }, format!("{label} n={n}: expected {exp_text:?} or, past the limit, an error at every greater depth (first error at {first_err:?}); engine gave {}", other.json().to_string().chars().take(300).collect::<String>()), json!({"kind": "recursion-limit", "label": label, "templates": tpls, "n": n})));
                    break;
                }
            }
        }
        l.label(&format!("limit:{label}={deepest_ok}"));
        l.label("recursion:limit-scan");
        l.nontrivial(hash_str(&format!("limit {label}")));
        (l, fails)
    });
    let (l, fails) = match h.unwrap().join() {
        Ok(x) => x,
        Err(_) => return 101,
    };
    write_worker_result(&w.out, &l, &fails);
    0
}

pub fn worker(w: &WorkerArgs) -> i32 {
    if w.family == "recursion-limit" {
        return limit_worker(w);
    }
    if w.family != "recursion" {
        return 2;
    }
    let cases = recursion_cases();
    let Some((label, tpls, n, class)) = cases.get(w.shard as usize).cloned() else { return 2 };
    // reference environment: 8 MiB stack
    let h = std::thread::Builder::new().stack_size(8 << 20).spawn(move || {
        let mut l = Local::new();
        let mut fails = vec![];
        let mut t = tera::Tera::new();
        if let Err(e) = t.add_raw_templates(tpls.clone()) {
            fails.push(Fail::new("C05/valid-set-rejected", format!("{label}: {e}"), json!({"kind": "recursion", "label": label})));
            return (l, fails);
        }
        let mut c = tera::Context::new();
        c.insert("n", &n);
        let got = run_engine(|| t.render("main.txt", &c));
        let got_api = run_engine(|| t.render_component(if tpls[0].1.contains("component A") { "A" } else { "R" }, &c, None, false));
        l.evals_n(2);
        let exp_text: String = (0..=n).rev().map(|i| format!("{i},")).collect();
        for (which, g) in [("template call", &got), ("render_component", &got_api)] {
            let ok = match (class, g) {
                (_, R::Panic(_)) => false,
                ("ok", R::Ok(s)) => *s == exp_text,
                ("err", R::Err(_)) => true,
                ("either", R::Ok(s)) => *s == exp_text,
                ("either", R::Err(_)) => true,
                _ => false,
            };
            if !ok {
                fails.push(Fail::new(if matches!(g, R::Panic(_)) { "C05/panic" } else if class == "err" { "C05/recursion-not-bounded" } else { "C05/recursion-wrong-result" }, format!("{label} via {which}: expected class `{class}`{}, engine gave {}", if class != "err" { format!(" ({exp_text})") } else { String::new() }, g.json().to_string().chars().take(300).collect::<String>()), json!({"kind": "recursion", "label": label, "templates": tpls, "n": n})));
            }
        }
        l.label(&format!("recursion:{class}"));
        l.nontrivial(hash_str(&label));
        (l, fails)
    });
    let (l, fails) = match h.unwrap().join() {
        Ok(x) => x,
        Err(_) => return 101,
    };
    write_worker_result(&w.out, &l, &fails);
    0
}

pub fn run(rep: &Report) {
    rep.set_rule("sets: 1-4 generated component definitions (typed / untyped parameters, literal defaults of every kind incl. none, inferred types, ...rest, dotted names, spread over three files) whose bodies print every parameter, rest, body, observation points over the caller's whole name pool, and call earlier components or include a template; a main template and an included template calling them inline, with a body, in a loop and in a capture, with named, shorthand and spread attributes whose values are literals of every kind or caller variables (right and wrong for the declared or inferred type, missing, extra); caller render context, global context, assignments and loop variables share names with the parameters. Oracle: reference binder + interpreter on a fresh scope (exact text or error); render_component through the API with and without body, both autoescape flags, against the same binder. Priority family: component C defined in files under no prefix / two fallback prefixes / an unrelated directory, all orders of the prefix list: highest-priority definition wins, equal priority is rejected. Recursion family (worker subprocess, 8 MiB stack): direct, mutual, through an include, through a body, in a loop and capture, with depth 0..100000 and unbounded: depth <= 14 renders the exact text, >= 300 or unbounded returns an error, in between either (the limit itself is not documented). One-limit relation: for ten shapes (direct, mutual, through one and two includes, through a body, in a loop and capture, through an include inside a capture, as an attribute value, entered from an included template, entered from a parent's block through super()) the deepest nesting n in 0..70 that renders is scanned, success must be downward closed, and the boundary must be the same as for direct recursion. Non-trivial: a render that reaches at least one component call; distinct by (sources, context).");
    rep.assume("not specified, therefore discarded: an attribute whose value is undefined, an explicit `body` attribute, spread of a map with non-string keys; defaults are non-negative literals (the lexer has no negative literals)");
    for k in rep.known.clone() {
        if let Some(Err(f)) = replay(rep, &k.repro) {
            rep.fail(f);
        }
    }
    let n = rep.tier.scale(240_000, 20);
    let api_args = || prop::collection::btree_map(prop_oneof![4 => prop::sample::select(PARAM_NAMES).prop_map(|s| s.to_string()), 1 => prop::sample::select(EXTRA_ARGS).prop_map(|s| s.to_string())], literal(None), 0..4);
    run_family(rep, "component_sets", n, move || (set_strategy(), stmtgen::ctxs(), api_args(), any::<u64>()), |(spec, (ctx, glob), api, salt), l| check_set(spec, ctx, glob, api, *salt, l));
    run_family(rep, "priorities", rep.tier.scale(30_000, 10), || (prop::collection::vec((0u8..4, prop::bool::weighted(0.6)), 1..5), prop::collection::vec(0u8..3, 0..4)), |(files, order), l| check_priority(files, order, l));
    let cases = recursion_cases();
    rep.extra("recursion_cases", json!(cases.len()));
    let cases_ref = &cases;
    run_in_workers(rep, "recursion", cases.len() as u64, 120, move |rep: &Report, shard: u64, desc: &str, _c, timed_out: bool| {
        let (label, tpls, n, _) = &cases_ref[shard as usize];
        if timed_out {
            rep.inconclusive(&format!("recursion case {label} timed out"));
            return;
        }
        rep.fail(Fail::new("C05/recursion-not-bounded", format!("{label}: worker {desc}"), json!({"kind": "recursion", "label": label, "templates": tpls, "n": n})));
    });
    let shapes = recursion_shapes();
    let shapes_ref = &shapes;
    run_in_workers(rep, "recursion-limit", shapes.len() as u64, 120, move |rep: &Report, shard: u64, desc: &str, _c, timed_out: bool| {
        let (label, tpls) = &shapes_ref[shard as usize];
        if timed_out {
            rep.inconclusive(&format!("recursion limit scan {label} timed out"));
            return;
        }
        rep.fail(Fail::new("C05/recursion-not-bounded", format!("limit scan {label}: worker {desc}"), json!({"kind": "recursion-limit", "label": label, "templates": tpls})));
    });
    {
        let limits: Vec<(String, i64)> = rep.labels.lock().unwrap().keys().filter_map(|k| k.strip_prefix("limit:")).filter_map(|k| k.rsplit_once('=')).filter_map(|(a, b)| Some((a.to_string(), b.parse().ok()?))).collect();
        rep.extra("deepest_nesting_rendered_per_shape", json!(limits));
        if let Some((_, base)) = limits.iter().find(|(a, _)| a == "direct") {
            for (shape, lim) in &limits {
                if lim != base || *lim < 14 || *lim >= 70 {
                    let tpls = shapes.iter().find(|s| s.0 == shape).map(|s| s.1.clone());
                    rep.fail(Fail::new("C05/recursion-limit-depends-on-call-path", format!("the deepest nesting of component calls that renders is {base} for direct recursion but {lim} for shape `{shape}` (one nesting limit must apply whatever lies between two nested calls; 70 = no limit reached)"), json!({"kind": "recursion-limit", "label": shape, "templates": tpls, "direct": base, "observed": lim})));
                }
            }
        }
    }
    for (lab, min) in [("recursion:limit-scan", 10), ("render:ok", 50_000), ("render:error", 50_000), ("api:render_component", 400_000), ("api:render_component-ok", 80_000), ("sig:default", 80_000), ("sig:typed", 80_000), ("sig:inferred-type", 40_000), ("sig:rest", 80_000), ("priority:resolved-among-several", 2_000), ("priority:duplicate-rejected", 2_000), ("recursion:ok", 20), ("recursion:err", 14)] {
        rep.floor(lab, min);
    }
}

pub fn replay(_rep: &Report, case: &serde_json::Value) -> Option<Check> {
    match case.get("kind")?.as_str()? {
        "components" => {
            let sources: Vec<(String, String)> = case.get("templates")?.as_array()?.iter().map(|p| Some((p.get(0)?.as_str()?.to_string(), p.get(1)?.as_str()?.to_string()))).collect::<Option<_>>()?;
            let mut t = tera::Tera::new();
            let salt = case.get("salt").and_then(|x| x.as_u64()).unwrap_or(0);
            let enc = Enc::new(salt);
            if let Some(g) = case.get("global").and_then(ctx_from_json) {
                for (k, v) in &g {
                    t.global_context().insert_value(k.clone(), to_tera_enc(v, &enc));
                }
            }
            if let Err(e) = t.add_raw_templates(sources) {
                return Some(Err(Fail::new("C05/replay", e.to_string(), case.clone())));
            }
            let exp = case.get("expected")?.as_str()?;
            let got = match case.get("component").and_then(|x| x.as_str()) {
                Some(c) => t.render_component(c, &ctx_to_tera_enc(&ctx_from_json(case.get("api_args")?)?, &enc), case.get("api_body").and_then(|x| x.as_str()), case.get("api_autoescape")?.as_bool()?),
                None => t.render(case.get("entry")?.as_str()?, &ctx_to_tera_enc(&ctx_from_json(case.get("context")?)?, &Enc::new(splitmix(salt)))),
            };
            let shown = match &got {
                Ok(s) => format!("Ok({:?})", s),
                Err(_) => "Err(())".to_string(),
            };
            Some(if shown == exp { Ok(()) } else { Err(Fail::new("C05/replay", format!("expected {exp}, engine gave {shown}"), case.clone())) })
        }
        "recursion" | "recursion-limit" => {
            // the replay runs in its own process on the reference stack; a stack overflow kills it and is reported by the parent
            let sources: Vec<(String, String)> = case.get("templates")?.as_array()?.iter().map(|p| Some((p.get(0)?.as_str()?.to_string(), p.get(1)?.as_str()?.to_string()))).collect::<Option<_>>()?;
            let scan = |tpls: Vec<(String, String)>| -> Result<i64, String> {
                let mut t = tera::Tera::new();
                t.add_raw_templates(tpls).map_err(|e| e.to_string())?;
                let mut deepest = -1;
                for n in 0..=70i64 {
                    let mut c = tera::Context::new();
                    c.insert("n", &n);
                    match t.render("main.txt", &c) {
                        Ok(_) if deepest == n - 1 => deepest = n,
                        Ok(_) => return Err(format!("n={n} renders although n={} did not", deepest + 1)),
                        Err(_) => {}
                    }
                }
                Ok(deepest)
            };
            if let Some(n) = case.get("n").and_then(|x| x.as_i64()) {
                let mut t = tera::Tera::new();
                if let Err(e) = t.add_raw_templates(sources.clone()) {
                    return Some(Err(Fail::new("C05/valid-set-rejected", e.to_string(), case.clone())));
                }
                let mut c = tera::Context::new();
                c.insert("n", &n);
                let unbounded = case.get("label").and_then(|x| x.as_str()).map(|l| l.starts_with("unbounded")).unwrap_or(false);
                let exp_text: String = (0..=n).rev().map(|i| format!("{i},")).collect();
                return Some(match t.render("main.txt", &c) {
                    Ok(_) if unbounded || n >= 300 => Err(Fail::new("C05/recursion-not-bounded", format!("n={n} rendered"), case.clone())),
                    Ok(s) if s.trim() != exp_text => Err(Fail::new("C05/recursion-wrong-result", format!("n={n}: {s:?}"), case.clone())),
                    Err(e) if n <= 14 && !unbounded => Err(Fail::new("C05/recursion-wrong-result", format!("n={n}: {e}"), case.clone())),
                    _ => Ok(()),
                });
            }
            let direct = recursion_shapes().into_iter().find(|s| s.0 == "direct")?.1;
            Some(match (scan(direct), scan(sources)) {
                (Ok(a), Ok(b)) if a == b => Ok(()),
                (a, b) => Err(Fail::new("C05/recursion-limit-depends-on-call-path", format!("deepest nesting rendered: direct recursion {a:?}, this shape {b:?}"), case.clone())),
            })
        }
        _ => None,
    }
}
