//! C07 — Rendering accepted templates never panics; all references checked at add time; engine state empty.
use crate::core::*;
use crate::expr::*;
use crate::exprgen;
use crate::mval::*;
use crate::stmt::*;
use crate::stmtgen;
use proptest::prelude::*;
use serde_json::json;

use super::c02::R;
use super::c17::{BK, BUILTINS};

fn bx(e: E) -> Box<E> {
    Box::new(e)
}

// ------------------------------------------------------------------------------------------
// hostile values

pub fn hostile_value(depth: u32) -> BoxedStrategy<MVal> {
    let leaf = prop_oneof![
        2 => prop_oneof![Just(vec![0xffu8, 0xfe, b'<']), Just(vec![]), Just(vec![0xc3]), Just(vec![b'a', 0x80, b'b']), prop::collection::vec(any::<u8>(), 0..8)].prop_map(MVal::Bytes),
        3 => prop_oneof![Just(MVal::Int(i64::MAX as i128)), Just(MVal::Int(i64::MIN as i128)), Just(MVal::Int(u64::MAX as i128)), Just(MVal::Int(i128::MAX)), Just(MVal::Int(i128::MIN)), Just(MVal::Big(u128::MAX)), Just(MVal::Big(i128::MAX as u128 + 1)), Just(MVal::Int(1 << 63)), Just(MVal::Int(-1)), Just(MVal::Int(0)), Just(MVal::Int(3)), Just(MVal::Int(2_000_000))],
        3 => prop_oneof![Just(f64::NAN), Just(f64::INFINITY), Just(f64::NEG_INFINITY), Just(-0.0), Just(f64::MAX), Just(f64::MIN_POSITIVE), Just(5e-324), Just(1e300), Just(-1e300), Just(0.1), Just(1e16), Just(9007199254740993.0)].prop_map(MVal::Float),
        1 => Just(MVal::None),
        1 => Just(MVal::Undefined),
        1 => any::<bool>().prop_map(MVal::Bool),
        3 => prop_oneof![Just(String::new()), Just("<&\"'>".to_string()), Just("é".repeat(20)), Just("a b\tc\nd\r\ne".to_string()), Just("x".repeat(120)), Just("😀\u{301}\u{200d}👨‍👩‍👧".to_string()), Just("12".to_string()), Just(" -7 ".to_string()), Just("\0".to_string()), Just("{{ x }}{% y %}".to_string()), Just("inf".to_string()), Just("NaN".to_string()), Just("1e400".to_string())].prop_map(|s| MVal::Str(s, false)),
        1 => Just(MVal::Str("<safe>".into(), true)),
    ];
    if depth == 0 {
        return leaf.boxed();
    }
    let inner = hostile_value(depth - 1);
    let key = prop_oneof![3 => prop::sample::select(vec!["a", "b", "x", "k", "name", "", "0", "é"]).prop_map(|s| MKey::Str(s.to_string())), 2 => any::<i64>().prop_map(|i| MKey::Int(i as i128)), 1 => Just(MKey::Int(0)), 1 => any::<bool>().prop_map(MKey::Bool), 1 => Just(MKey::Big(u128::MAX)), 1 => Just(MKey::Int(i128::MIN))];
    prop_oneof![
        4 => leaf,
        3 => prop::collection::vec(inner.clone(), 0..5).prop_map(MVal::Array),
        3 => prop::collection::vec((key, inner.clone()), 0..5).prop_map(|v| MVal::Map(v.into_iter().collect())),
        // maps larger than the attribute-scan cutoff
        1 => inner.clone().prop_map(|v| MVal::Map((0..9).map(|i| (MKey::Str(format!("k{i}")), v.clone())).chain(std::iter::once((MKey::Str("a".into()), MVal::Int(1)))).collect())),
        // homogeneous and mixed arrays past the 21-element threshold of std's sort checks
        1 => inner.prop_map(|v| MVal::Array((0..23).map(|i| if i % 3 == 0 { v.clone() } else { MVal::Int(i) }).collect())),
        // long arrays of floats with NaN, infinities and both zeros scattered in (comparison-based built-ins must cope with unordered elements)
        1 => any::<u64>().prop_map(|seed| { let mut m = Mix(seed); MVal::Array((0..(22 + m.next() % 12)).map(|i| match m.next() % 7 { 0 => MVal::Float(f64::NAN), 1 => MVal::Float(-f64::NAN), 2 => MVal::Float(f64::INFINITY), 3 => MVal::Float(-0.0), 4 => MVal::Int(i as i128), _ => MVal::Float(i as f64 * 0.5 - 3.0) }).collect()) }),
    ]
    .boxed()
}
pub fn hostile_ctx(names: &'static [&'static str]) -> BoxedStrategy<Ctx> {
    prop::collection::vec(prop::option::weighted(0.9, hostile_value(3)), names.len()).prop_map(move |v| v.into_iter().enumerate().filter_map(|(i, x)| x.filter(|x| !x.is_undefined()).map(|x| (names[i].to_string(), x))).collect()).boxed()
}
fn big_values() -> Vec<MVal> {
    vec![
        MVal::Array((0..10_000).map(MVal::Int).collect()),
        MVal::Array((0..10_000).map(|i| if i % 2 == 0 { MVal::s("é<") } else { MVal::None }).collect()),
        MVal::Str("ab<é ".repeat(20_000), false),
        MVal::Bytes(vec![0xff; 50_000]),
        MVal::Map((0..5_000).map(|i| (MKey::Int(i), MVal::Int(i))).collect()),
        // 6 levels of nesting
        (0..6).fold(MVal::Int(1), |acc, i| if i % 2 == 0 { MVal::Array(vec![acc.clone(), acc]) } else { MVal::smap(vec![("a", acc.clone()), ("b", acc)]) }),
        (0..60).fold(MVal::Int(1), |acc, _| MVal::Array(vec![acc])),
    ]
}

// ------------------------------------------------------------------------------------------
// hostile expressions: every built-in at every operand position with arbitrary keyword arguments

pub const HVARS: &[&str] = &["h0", "h1", "h2", "h3", "h4", "h5"];
pub fn hexpr() -> BoxedStrategy<E> {
    let leaf = prop_oneof![8 => prop::sample::select(HVARS).prop_map(|n| E::Var(n.to_string())), 2 => (0i64..40).prop_map(E::Int), 1 => Just(E::Float(0.5)), 2 => prop::sample::select(vec!["", "a", ",", "<", "ceil", "k", "é", " "]).prop_map(|s| E::Str(s.to_string())), 1 => any::<bool>().prop_map(E::Bool), 1 => Just(E::None), 1 => Just(E::Var("__tera_context".into())), 1 => Just(E::Var("unbound".into()))];
    let filters: Vec<&'static super::c17::Builtin> = BUILTINS.iter().filter(|b| b.kind == BK::Filter).collect();
    let tests: Vec<&'static super::c17::Builtin> = BUILTINS.iter().filter(|b| b.kind == BK::Test).collect();
    leaf.prop_recursive(4, 24, 4, move |inner| {
        let kw = |b: &'static super::c17::Builtin, inner: BoxedStrategy<E>| -> BoxedStrategy<Vec<(String, E)>> {
            // any subset of the keywords the built-in knows, sometimes an unknown one
            let names: Vec<&'static str> = b.kwargs.iter().copied().chain(std::iter::once("zz")).collect();
            prop::collection::vec((prop::sample::select(names), inner), 0..3).prop_map(|v| {
                let mut seen = std::collections::BTreeSet::new();
                v.into_iter().filter(|(n, _)| seen.insert(*n)).map(|(n, e)| (n.to_string(), e)).collect()
            }).boxed()
        };
        let inner_b = inner.clone().boxed();
        let f_strat = {
            let inner_b = inner_b.clone();
            prop::sample::select(filters.clone()).prop_flat_map(move |b| (Just(b), inner_b.clone(), kw(b, inner_b.clone()))).prop_map(|(b, x, k)| E::Filter(bx(x), b.name.to_string(), k))
        };
        let t_strat = {
            let inner_b = inner_b.clone();
            (prop::sample::select(tests.clone()), any::<bool>()).prop_flat_map(move |(b, neg)| (Just(b), Just(neg), inner_b.clone(), kw(b, inner_b.clone()))).prop_map(|(b, neg, x, k)| E::Test(bx(x), b.name.to_string(), k, neg))
        };
        prop_oneof![
            8 => f_strat,
            3 => t_strat,
            4 => (prop::sample::select(ALL_BIN.to_vec()), inner.clone(), inner.clone()).prop_map(|(op, a, b)| E::Bin(op, bx(a), bx(b))),
            1 => inner.clone().prop_map(|a| E::Neg(bx(a))),
            1 => inner.clone().prop_map(|a| E::Not(bx(a))),
            2 => (inner.clone(), inner.clone(), any::<bool>()).prop_map(|(a, i, opt)| { let opt = opt && is_chain(&a); E::Index(bx(a), bx(i), opt) }),
            2 => (inner.clone(), prop::option::of(inner.clone()), prop::option::of(inner.clone()), prop::option::of(inner.clone())).prop_map(|(a, s, t, st)| E::Slice(bx(a), s.map(bx), t.map(bx), st.map(bx), false)),
            2 => (prop::sample::select(HVARS), prop::collection::vec((prop::sample::select(vec!["a", "b", "x", "k0", "name"]), any::<bool>()), 1..3)).prop_map(|(r, p)| { let mut e = E::Var(r.to_string()); for (f, o) in p { e = E::Attr(bx(e), f.to_string(), o); } e }),
            1 => (inner.clone(), inner.clone(), inner.clone()).prop_map(|(c, a, b)| E::Ternary(bx(c), bx(a), bx(b))),
            1 => prop::collection::vec(prop_oneof![3 => inner.clone().prop_map(Item::One), 1 => inner.clone().prop_map(Item::Spread)], 0..3).prop_map(E::Array),
            1 => prop::collection::vec(prop_oneof![3 => (prop::sample::select(vec!["a", "b"]), inner.clone()).prop_map(|(k, v)| Entry::Kv(MKey::Str(k.to_string()), v)), 1 => inner.clone().prop_map(Entry::Spread)], 0..3).prop_map(E::Map),
            1 => (inner.clone(), inner.clone(), prop::option::of(inner.clone()), any::<bool>()).prop_map(|(el, t, c, kv)| E::Comp { elem: bx(el), key: if kv { Some("ck".into()) } else { None }, val: "cv".into(), target: bx(t), cond: c.map(bx) }),
            1 => (prop::collection::vec((prop::sample::select(vec!["start", "end", "step_by", "zz"]), inner.clone()), 0..3)).prop_map(|k| { let mut seen = std::collections::BTreeSet::new(); E::Call("range".into(), k.into_iter().filter(|(n, _)| seen.insert(*n)).map(|(n, e)| (n.to_string(), e)).collect()) }),
            1 => inner.clone().prop_map(|m| E::Call("throw".into(), vec![("message".into(), m)])),
        ]
    })
    .prop_filter("limits", exprgen::within_limits)
    .boxed()
}

// ------------------------------------------------------------------------------------------
// rendering with the state hook

fn forbidden_at_render(msg: &str) -> bool {
    // a missing name must be reported at registration, never while rendering
    let m = msg.to_lowercase();
    m.contains("is not registered") || m.contains("unknown filter") || m.contains("unknown test") || m.contains("unknown function") || m.contains("unknown component") || m.contains("unknown template") || m.contains("no block lineage") || (m.contains("not found") && (m.contains("template") || m.contains("component")))
}

pub struct Rendered {
    pub out: R,
    pub leftovers: Vec<String>,
}
fn with_hook<F: FnOnce() -> Result<String, tera::Error>>(f: F) -> Rendered {
    let _ = tera::verif::take_leftovers();
    let out = match guard(|| match f() {
        Ok(s) => {
            if std::str::from_utf8(s.as_bytes()).is_err() {
                R::Panic("output is not valid UTF-8".into())
            } else {
                R::Ok(s)
            }
        }
        Err(e) => {
            let txt = e.to_string();
            let _ = format!("{:?}", e);
            R::Err(txt)
        }
    }) {
        Ok(r) => r,
        Err(p) => R::Panic(p),
    };
    let leftovers = tera::verif::take_leftovers();
    Rendered { out, leftovers }
}

fn judge(r: &Rendered, what: &str, case: &dyn Fn() -> serde_json::Value, l: &mut Local) -> Check {
    l.eval();
    match &r.out {
        R::Panic(p) => return Err(Fail::new("C07/panic", format!("{what}: {p}"), case())),
        R::Err(m) if forbidden_at_render(m) => return Err(Fail::new("C07/missing-reference-at-render-time", format!("{what}: an accepted set failed at render time with {:?}", first_line(m)), case())),
        R::Ok(_) => {
            l.label("render:ok");
            if !r.leftovers.is_empty() {
                return Err(Fail::new("C07/state-not-empty", format!("{what}: successful render left {:?}", r.leftovers), case()));
            }
        }
        _ => l.label("render:error"),
    }
    Ok(())
}

pub fn check_hostile_expr(e: &E, ctx: &Ctx, salt: u64, l: &mut Local) -> Check {
    let src = format!("{{{{ {} }}}}{{% if {} %}}T{{% endif %}}{{% for q in {} %}}{{{{ q }}}}{{% break %}}{{% endfor %}}", print(e, Mode::Minimal), print(e, Mode::Minimal), print(e, Mode::Minimal));
    let case = || json!({"kind": "hostile", "templates": [["t.html", src]], "context": ctx_to_json(ctx), "salt": salt});
    let tctx = ctx_to_tera_enc(ctx, &Enc::new(salt));
    let mut t = tera::Tera::new();
    match guard(|| t.add_raw_template("t.html", &src).map_err(|e| e.to_string())) {
        Ok(Ok(())) => {}
        Ok(Err(m)) => return Err(Fail::new("C07/valid-program-rejected", format!("{src}: {}", first_line(&m)), case())),
        Err(p) => return Err(Fail::new("C07/panic", format!("registering {src}: {p}"), case())),
    }
    let r = with_hook(|| t.render("t.html", &tctx));
    judge(&r, &src, &case, l)?;
    let mut ops = std::collections::BTreeSet::new();
    collect_builtins(e, &mut ops);
    for o in &ops {
        l.label(&format!("builtin:{o}"));
    }
    for v in ctx.values() {
        l.label(&format!("hostile:{}", v.kind_name()));
    }
    if !ops.is_empty() {
        l.nontrivial(hash_of(&(src.clone(), ctx_to_json(ctx).to_string())));
    }
    l.sample(|| json!({"source": src.chars().take(300).collect::<String>(), "result": r.out.json()}));
    Ok(())
}
fn collect_builtins(e: &E, out: &mut std::collections::BTreeSet<String>) {
    let mut kw = |k: &Vec<(String, E)>, out: &mut std::collections::BTreeSet<String>| {
        for (_, x) in k {
            collect_builtins(x, out)
        }
    };
    match e {
        E::Filter(x, n, k) => {
            out.insert(n.clone());
            collect_builtins(x, out);
            kw(k, out)
        }
        E::Test(x, n, k, _) => {
            out.insert(format!("is {n}"));
            collect_builtins(x, out);
            kw(k, out)
        }
        E::Call(n, k) => {
            out.insert(format!("{n}()"));
            kw(k, out)
        }
        E::Bin(_, a, b) => {
            collect_builtins(a, out);
            collect_builtins(b, out)
        }
        E::Neg(a) | E::Not(a) | E::Attr(a, ..) => collect_builtins(a, out),
        E::Index(a, b, _) => {
            collect_builtins(a, out);
            collect_builtins(b, out)
        }
        E::Slice(a, s, t, st, _) => {
            collect_builtins(a, out);
            for x in [s, t, st].into_iter().flatten() {
                collect_builtins(x, out)
            }
        }
        E::Ternary(a, b, c) => {
            collect_builtins(a, out);
            collect_builtins(b, out);
            collect_builtins(c, out)
        }
        E::Array(v) => {
            for i in v {
                match i {
                    Item::One(x) | Item::Spread(x) => collect_builtins(x, out),
                }
            }
        }
        E::Map(v) => {
            for i in v {
                match i {
                    Entry::Kv(_, x) | Entry::Spread(x) => collect_builtins(x, out),
                }
            }
        }
        E::Comp { elem, target, cond, .. } => {
            collect_builtins(elem, out);
            collect_builtins(target, out);
            if let Some(c) = cond {
                collect_builtins(c, out)
            }
        }
        _ => {}
    }
}

/// valid multi-template programs (C03 generator) and inheritance/component sets rendered with hostile contexts:
/// whole, by block, and each component through the API
pub fn check_hostile_set(tpls: &[(String, String)], entries: &[String], blocks: &[(String, String)], comps: &[String], ctxs: &[Ctx], salt: u64, l: &mut Local) -> Check {
    let case = || json!({"kind": "hostile", "templates": tpls, "entries": entries, "blocks": blocks, "components": comps, "contexts": ctxs.iter().map(ctx_to_json).collect::<Vec<_>>(), "salt": salt});
    let mut t = tera::Tera::new();
    match guard(|| t.add_raw_templates(tpls.to_vec()).map_err(|e| e.to_string())) {
        Ok(Ok(())) => {}
        Ok(Err(m)) => return Err(Fail::new("C07/valid-program-rejected", format!("{:?}: {}", tpls, first_line(&m)), case())),
        Err(p) => return Err(Fail::new("C07/panic", format!("registering {:?}: {p}", tpls), case())),
    }
    for ctx in ctxs {
        let tctx = ctx_to_tera_enc(ctx, &Enc::new(salt));
        for e in entries {
            let r = with_hook(|| t.render(e, &tctx));
            judge(&r, &format!("render({e}) of {:?} with {}", tpls, ctx_to_json(ctx)), &case, l)?;
        }
        for (tp, b) in blocks {
            let r = with_hook(|| t.render_block(tp, b, &tctx));
            l.label("api:render_block");
            judge(&r, &format!("render_block({tp}, {b}) of {:?} with {}", tpls, ctx_to_json(ctx)), &case, l)?;
        }
        for c in comps {
            for (body, auto) in [(None, true), (Some("<b>"), false)] {
                let r = with_hook(|| t.render_component(c, &tctx, body, auto));
                l.label("api:render_component");
                judge(&r, &format!("render_component({c}) of {:?} with {}", tpls, ctx_to_json(ctx)), &case, l)?;
            }
        }
    }
    l.nontrivial(hash_of(&(tpls.to_vec(), ctxs.iter().map(|c| ctx_to_json(c).to_string()).collect::<Vec<_>>())));
    Ok(())
}

// ------------------------------------------------------------------------------------------
// reference injection (exhaustive)

/// expression-level references: (label, unknown spelling, known spelling)
const EXPR_REFS: &[(&str, &str, &str)] = &[
    ("filter", "1 | zz_nope", "1 | str"),
    ("filter-with-kwargs", "1 | zz_nope(a=1)", "1 | default(value=1)"),
    ("test", "1 is zz_nope", "1 is defined"),
    ("negated-test", "1 is not zz_nope", "1 is not defined"),
    ("function", "zz_nope()", "range(end=1)"),
    ("function-with-kwargs", "zz_nope(a=1)", "range(end=1, start=0)"),
    ("inline-component", "<zz.Nope />", "<Known />"),
    ("inline-component-with-args", "<ZzNope a=\"1\" b={ 2 } />", "<Known a=\"1\" />"),
];
/// expression positions: `@` is the hole
const EXPR_POS: &[(&str, &str)] = &[
    ("print", "{{ @ }}"),
    ("if-condition", "{% if @ %}x{% endif %}"),
    ("elif-condition", "{% if false %}x{% elif @ %}y{% endif %}"),
    ("for-target", "{% for q in @ %}x{% endfor %}"),
    ("set-value", "{% set v = @ %}"),
    ("set_global-value", "{% set_global v = @ %}"),
    ("filter-kwarg", "{{ 1 | default(value=@) }}"),
    ("test-kwarg", "{{ 1 is divisible_by(divisor=@) }}"),
    ("function-kwarg", "{{ range(end=@) }}"),
    ("filter-section-kwarg", "{% filter replace(from=\"a\", to=@) %}x{% endfilter %}"),
    ("set-block-filter-kwarg", "{% set v | replace(from=\"a\", to=@) %}x{% endset %}"),
    ("subscript", "{{ a[@] }}"),
    ("subscript-base", "{{ (@)[0] }}"),
    ("slice-bound", "{{ a[1:@] }}"),
    ("array-item", "{{ [1, @] }}"),
    ("array-spread", "{{ [...@] }}"),
    ("map-value", "{{ {\"k\": @ } }}"),
    ("map-spread", "{{ {...@ } }}"),
    ("comprehension-element", "{{ [@ for q in a] }}"),
    ("comprehension-target", "{{ [q for q in (@)] }}"),
    ("comprehension-condition", "{{ [q for q in a if (@)] }}"),
    ("ternary-then", "{{ (@) if a else 2 }}"),
    ("ternary-condition", "{{ 1 if (@) else 2 }}"),
    ("ternary-else", "{{ 1 if a else (@) }}"),
    ("and-right", "{{ false and (@) }}"),
    ("or-right", "{{ true or (@) }}"),
    ("unary", "{{ not (@) }}"),
    ("binary-operand", "{{ 1 + (@) }}"),
    ("filter-receiver", "{{ (@) | str }}"),
    ("test-receiver", "{{ (@) is defined }}"),
    ("component-attribute", "{{ <Known a={ @ } /> }}"),
    ("component-spread", "{{ <Known {...@ } /> }}"),
    ("component-body-call-attribute", "{% <Known a={ @ }> %}x{% </Known> %}"),
];
/// statement-level references: (label, unknown spelling, known spelling)
const STMT_REFS: &[(&str, &str, &str)] = &[
    ("include", "{% include \"zz_nope.html\" %}", "{% include \"inc.html\" %}"),
    ("filter-section", "{% filter zz_nope %}x{% endfilter %}", "{% filter upper %}x{% endfilter %}"),
    ("set-block-filter", "{% set v | zz_nope %}x{% endset %}", "{% set v | upper %}x{% endset %}"),
    ("set-block-second-filter", "{% set v | upper | zz_nope %}x{% endset %}", "{% set v | upper | trim %}x{% endset %}"),
    ("component-with-body", "{% <zz.Nope> %}x{% </zz.Nope> %}", "{% <Known> %}x{% </Known> %}"),
];
/// statement positions: `@` is the hole; each is a set of templates (name, source); the reference may sit in any of them
const STMT_POS: &[(&str, &[(&str, &str)])] = &[
    ("top-level", &[("main.html", "@")]),
    ("if-body", &[("main.html", "{% if a %}@{% endif %}")]),
    ("else-body", &[("main.html", "{% if a %}x{% else %}@{% endif %}")]),
    ("for-body", &[("main.html", "{% for q in a %}@{% endfor %}")]),
    ("for-else-body", &[("main.html", "{% for q in a %}x{% else %}@{% endfor %}")]),
    ("set-block-body", &[("main.html", "{% set v %}@{% endset %}")]),
    ("filter-section-body", &[("main.html", "{% filter upper %}@{% endfilter %}")]),
    ("block", &[("main.html", "{% block b %}@{% endblock %}")]),
    ("nested-block", &[("main.html", "{% block b %}{% block c %}@{% endblock %}{% endblock %}")]),
    ("block-in-filter-section", &[("main.html", "{% filter upper %}{% block b %}@{% endblock %}{% endfilter %}")]),
    ("component-definition-body", &[("main.html", "{% component Other() %}@{% endcomponent %}x")]),
    ("component-definition-body-unused-file", &[("lib.html", "{% component Other() %}{% if a %}@{% endif %}{% endcomponent %}"), ("main.html", "x")]),
    ("component-call-body", &[("main.html", "{% <Known> %}@{% </Known> %}")]),
    ("included-template", &[("part.html", "@"), ("main.html", "{% include \"part.html\" %}")]),
    ("parent-template-body", &[("base.html", "{% block b %}{% endblock %}@"), ("main.html", "{% extends \"base.html\" %}{% block b %}x{% endblock %}")]),
    ("child-block", &[("base.html", "{% block b %}{% endblock %}"), ("main.html", "{% extends \"base.html\" %}{% block b %}@{% endblock %}")]),
    ("child-block-using-super", &[("base.html", "{% block b %}y{% endblock %}"), ("main.html", "{% extends \"base.html\" %}{% block b %}{{ super() }}@{% endblock %}")]),
    ("grandchild-nested-block", &[("base.html", "{% block b %}{% block c %}{% endblock %}{% endblock %}"), ("mid.html", "{% extends \"base.html\" %}{% block c %}m{% endblock %}"), ("main.html", "{% extends \"mid.html\" %}{% block c %}@{% endblock %}")]),
    ("unrendered-template-of-the-set", &[("other.html", "{% if false %}@{% endif %}"), ("main.html", "x")]),
];
const SUPPORT: &[(&str, &str)] = &[("inc.html", "i"), ("known.html", "{% component Known(a=\"\", ...rest) %}[{{ a }}{{ body | default(value=\"\") }}]{% endcomponent %}")];

pub struct Injection {
    pub label: String,
    pub templates: Vec<(String, String)>,
    pub unknown: bool,
}
pub fn injections() -> Vec<Injection> {
    let mut v = vec![];
    let mut push = |label: String, set: &[(&str, &str)], filler: &str, unknown: bool, v: &mut Vec<Injection>| {
        let mut t: Vec<(String, String)> = SUPPORT.iter().map(|(a, b)| (a.to_string(), b.to_string())).collect();
        for (n, s) in set {
            t.push((n.to_string(), s.replace('@', filler)));
        }
        v.push(Injection { label, templates: t, unknown });
    };
    for (sp, set) in STMT_POS {
        for (rl, unk, known) in STMT_REFS {
            push(format!("{rl} @ {sp}"), set, unk, true, &mut v);
            push(format!("{rl} @ {sp}"), set, known, false, &mut v);
        }
        for (ep, etpl) in EXPR_POS {
            for (rl, unk, known) in EXPR_REFS {
                push(format!("{rl} @ {ep} @ {sp}"), set, &etpl.replace('@', unk), true, &mut v);
                push(format!("{rl} @ {ep} @ {sp}"), set, &etpl.replace('@', known), false, &mut v);
            }
        }
    }
    // whole-template references
    for (label, set, unknown) in [
        ("missing-parent", vec![("main.html", "{% extends \"zz_nope.html\" %}")], true),
        ("existing-parent", vec![("base.html", "x"), ("main.html", "{% extends \"base.html\" %}")], false),
        ("orphan-block", vec![("base.html", "{% block b %}{% endblock %}"), ("main.html", "{% extends \"base.html\" %}{% block zz %}x{% endblock %}")], true),
        ("orphan-nested-block-in-override", vec![("base.html", "{% block b %}{% endblock %}"), ("main.html", "{% extends \"base.html\" %}{% block b %}{% block inner %}x{% endblock %}{% endblock %}")], false),
        ("orphan-block-in-grandchild", vec![("base.html", "{% block b %}{% endblock %}"), ("mid.html", "{% extends \"base.html\" %}"), ("main.html", "{% extends \"mid.html\" %}{% block zz %}x{% endblock %}")], true),
        ("missing-grandparent", vec![("mid.html", "{% extends \"zz_nope.html\" %}"), ("main.html", "{% extends \"mid.html\" %}")], true),
    ] {
        let mut t: Vec<(String, String)> = SUPPORT.iter().map(|(a, b)| (a.to_string(), b.to_string())).collect();
        t.extend(set.iter().map(|(a, b)| (a.to_string(), b.to_string())));
        v.push(Injection { label: label.to_string(), templates: t, unknown });
    }
    v
}

pub fn check_injection(inj: &Injection, l: &mut Local) -> Check {
    let case = || json!({"kind": "injection", "label": inj.label, "templates": inj.templates, "unknown": inj.unknown});
    let mut t = tera::Tera::new();
    let r = guard(|| t.add_raw_templates(inj.templates.clone()).map_err(|e| e.to_string()));
    l.eval();
    match (&r, inj.unknown) {
        (Err(p), _) => return Err(Fail::new("C07/panic", format!("{}: registration panicked: {p}", inj.label), case())),
        (Ok(Ok(())), true) => return Err(Fail::new("C07/unknown-reference-accepted", format!("{}: a set with an unknown reference was accepted: {:?}", inj.label, inj.templates.iter().filter(|t| !SUPPORT.iter().any(|s| s.0 == t.0)).collect::<Vec<_>>()), case())),
        (Ok(Err(m)), false) => return Err(Fail::new("C07/control-rejected", format!("{}: the control set (known references) was rejected: {}", inj.label, first_line(m)), case())),
        (Ok(Err(_)), true) => l.label("injection:rejected"),
        (Ok(Ok(())), false) => {
            l.label("injection:control-accepted");
            // accepted controls render without a missing-reference failure
            let mut c = tera::Context::new();
            c.insert("a", &vec![1]);
            for (n, _) in &inj.templates {
                let r = with_hook(|| t.render(n, &c));
                judge(&r, &format!("{}: render({n})", inj.label), &case, l)?;
            }
        }
    }
    // single-template sets are also checked through the one-off API
    let own: Vec<&(String, String)> = inj.templates.iter().filter(|t| !SUPPORT.iter().any(|s| s.0 == t.0)).collect();
    if own.len() == 1 && !own[0].1.contains("block") && !own[0].1.contains("extends") {
        let mut t2 = tera::Tera::new();
        let _ = t2.add_raw_templates(SUPPORT.iter().map(|(a, b)| (a.to_string(), b.to_string())).collect::<Vec<_>>());
        let mut c = tera::Context::new();
        c.insert("a", &vec![1]);
        let r = with_hook(|| t2.render_str(&own[0].1, &c, true));
        l.eval();
        match (&r.out, inj.unknown) {
            (R::Panic(p), _) => return Err(Fail::new("C07/panic", format!("{}: render_str panicked: {p}", inj.label), case())),
            (R::Ok(_), true) => return Err(Fail::new("C07/unknown-reference-accepted", format!("{}: render_str rendered a source with an unknown reference: {:?}", inj.label, own[0].1), case())),
            _ => l.label("injection:render_str"),
        }
    }
    l.nontrivial(hash_of(&inj.templates));
    Ok(())
}

// ------------------------------------------------------------------------------------------
// worker / supervisor

/// plants `break` / `continue` (bare or behind a condition) at random positions of a generated body, legal or not
fn plant_jumps(b: &[S], in_loop: bool, in_cap: bool, legal_only: bool, m: &mut Mix, planted: &mut usize) -> Vec<S> {
    let mut out = vec![];
    for s in b {
        if m.next() % 7 == 0 && (!legal_only || in_loop && !in_cap) {
            let j = if m.next() % 2 == 0 { S::Break } else { S::Continue };
            out.push(if m.next() % 2 == 0 { j } else { S::If(vec![(E::Bool(m.next() % 3 != 0), vec![j])], None) });
            if in_loop && in_cap {
                *planted += 1;
            }
        }
        out.push(match s {
            S::If(arms, els) => S::If(arms.iter().map(|(c, b)| (c.clone(), plant_jumps(b, in_loop, in_cap, legal_only, m, planted))).collect(), els.as_ref().map(|b| plant_jumps(b, in_loop, in_cap, legal_only, m, planted))),
            S::For { key, val, target, body, els } => S::For { key: key.clone(), val: val.clone(), target: target.clone(), body: plant_jumps(body, true, false, legal_only, m, planted), els: els.as_ref().map(|b| plant_jumps(b, in_loop, in_cap, legal_only, m, planted)) },
            S::SetBlock { name, filters, body, global } => S::SetBlock { name: name.clone(), filters: filters.clone(), body: plant_jumps(body, in_loop, true, legal_only, m, planted), global: *global },
            S::Filter { name, kwargs, body } => S::Filter { name: name.clone(), kwargs: kwargs.clone(), body: plant_jumps(body, in_loop, true, legal_only, m, planted) },
            other => other.clone(),
        });
    }
    out
}

pub fn worker(w: &WorkerArgs) -> i32 {
    std::env::set_var("VERIF_WORKERS", "1");
    let mut rep = Report::new("C07", w.tier, w.seed);
    rep.strict = true;
    let fam = format!("{}#{}", w.family, w.shard);
    let quick = |n: u64| w.tier.scale(n, 20) / w.nshards.max(1);
    match w.family.as_str() {
        "hostile_expressions" => run_family(&rep, &fam, quick(240_000), || (hexpr(), hostile_ctx(HVARS), any::<u64>()), |(e, ctx, salt), l| {
            if matches!(eval_b(e, ctx, &Budget::new(100_000)), Err(MErr(m)) if m == BUDGET) {
                l.discard();
                return Ok(());
            }
            w.trace_case(|| json!({"kind": "hostile", "source": print(e, Mode::Minimal), "context": ctx_to_json(ctx)}));
            check_hostile_expr(e, ctx, *salt, l)
        }),
        "hostile_programs" => run_family(&rep, &fam, quick(48_000), || (stmtgen::body(3, false, false, stmtgen::SOpts { includes: &["inc1"] }), stmtgen::body(1, false, false, stmtgen::SOpts { includes: &[] }), prop::collection::vec(hostile_ctx(stmtgen::NAMES), 2), any::<u64>()), |(main, inc, ctxs, salt), l| {
            let tpls = vec![("inc1".to_string(), print_body(&stmtgen::with_obs(inc.clone(), false))), ("main.html".to_string(), print_body(&stmtgen::with_obs(main.clone(), false)))];
            // work budget: programs that are legitimately huge for the reference interpreter (captured text looped by
            // character with nested observation points) are discarded before the engine runs
            let (mb, ib) = (stmtgen::with_obs(main.clone(), false), stmtgen::with_obs(inc.clone(), false));
            let mut map = std::collections::BTreeMap::new();
            map.insert("inc1".to_string(), Tpl { body: ib, ..Default::default() });
            map.insert("main.html".to_string(), Tpl { body: mb, autoescape: true, ..Default::default() });
            let comps = std::collections::BTreeMap::new();
            let wd = World { templates: &map, components: &comps, escape: escape_html, autoescape_override: None, sorted_map_loops: true };
            let ctxs = &ctxs.iter().filter(|c| {
                let bud = Budget::new(150_000);
                let mut st = St::new(c, None, None, &bud);
                let mut out = String::new();
                let over = matches!(st.render_template(&wd, "main.html", &mut out), Err(MErr(m)) if m == BUDGET);
                if over {
                    l.discard();
                }
                !over
            }).cloned().collect::<Vec<_>>();
            w.trace_case(|| json!({"kind": "hostile", "templates": tpls, "contexts": ctxs.iter().map(ctx_to_json).collect::<Vec<_>>()}));
            l.label("set:c03-program");
            check_hostile_set(&tpls, &["main.html".to_string(), "inc1".to_string()], &[], &[], ctxs, *salt, l)
        }),
        "hostile_expr_c02" => run_family(&rep, &fam, quick(120_000), || (exprgen::expr_strategy(4, exprgen::GenOpts::default()), hostile_ctx(exprgen::ALL_VARS), any::<u64>()), |(e, ctx, salt), l| {
            w.trace_case(|| json!({"kind": "hostile", "source": print(e, Mode::Minimal), "context": ctx_to_json(ctx)}));
            check_hostile_expr(e, ctx, *salt, l)
        }),
        "jumps_anywhere" => run_family(&rep, &fam, w.tier.scale(48_000, 5) / w.nshards.max(1), || (stmtgen::body(3, false, false, stmtgen::SOpts { includes: &[] }), prop::collection::vec(hostile_ctx(stmtgen::NAMES), 2), any::<u64>()), |(main, ctxs, salt), l| {
            // `break` / `continue` planted at arbitrary positions (inside captures inside loops, inside component-call bodies,
            // outside any loop, behind conditions): the parser may refuse the template, but whatever it accepts must render
            // without panic and leave the loop, capture and value stacks empty
            let mut planted = 0usize;
            // half of the cases: only positions the grammar allows (directly in a loop, not across a capture)
            let legal_only = salt % 2 == 1;
            let body = plant_jumps(main, false, false, legal_only, &mut Mix(*salt), &mut planted);
            let mut body = body;
            if !legal_only && (planted == 0 || salt % 4 == 0) {
                // make sure the interesting shape exists: loop > capture > condition > jump, followed by text
                let jump = if salt % 2 == 0 { S::Break } else { S::Continue };
                let inner = vec![S::Text("c".into()), S::If(vec![(E::Bool(true), vec![jump])], None), S::Text("d".into())];
                let cap = match (salt / 4) % 3 {
                    0 => S::Filter { name: "upper".into(), kwargs: vec![], body: inner },
                    1 => S::SetBlock { name: "k".into(), filters: vec![], body: inner, global: false },
                    _ => S::Comp { name: "W".into(), args: vec![], body: Some(inner) },
                };
                body.push(S::For { key: None, val: "q".into(), target: E::Array(vec![Item::One(E::Int(1)), Item::One(E::Int(2))]), body: vec![S::Text("a".into()), cap, S::Text("b".into())], els: None });
                body.push(S::Text("after".into()));
            }
            let tpls = vec![("lib".to_string(), "{% component W() %}[{{ body }}]{% endcomponent W %}".to_string()), ("main.html".to_string(), print_body(&body))];
            w.trace_case(|| json!({"kind": "hostile", "templates": tpls, "contexts": ctxs.iter().map(ctx_to_json).collect::<Vec<_>>()}));
            l.label("set:jumps-anywhere");
            let mut t = tera::Tera::new();
            match guard(|| t.add_raw_templates(tpls.clone()).map_err(|e| e.to_string())) {
                Ok(Ok(())) => l.label("jumps-anywhere:accepted"),
                Ok(Err(_)) => {
                    l.eval();
                    l.label("jumps-anywhere:refused");
                    return Ok(());
                }
                Err(p) => return Err(Fail::new("C07/panic", format!("registering {:?}: {p}", tpls), json!({"kind": "hostile", "templates": tpls}))),
            }
            check_hostile_set(&tpls, &["main.html".to_string()], &[], &[], ctxs, *salt, l)
        }),
        "hostile_chains" => run_family(&rep, &fam, w.tier.scale(24_000, 4) / w.nshards.max(1), || (super::c04::chain_strategy(5), prop::collection::vec(hostile_ctx(stmtgen::NAMES), 2), any::<u64>()), |(spec, ctxs, salt), l| {
            // generated inheritance chains (block trees, overrides, nested fresh blocks, super() in any position, blocks in captures
            // and component-call bodies): every template is an entry point, every block is rendered alone
            let (tpls, order, names) = super::c04::chain_sources(spec);
            w.trace_case(|| json!({"kind": "hostile", "templates": tpls, "contexts": ctxs.iter().map(ctx_to_json).collect::<Vec<_>>()}));
            l.label("set:c04-chain");
            let blocks: Vec<(String, String)> = order.iter().zip(&names).flat_map(|(t, bs)| bs.iter().map(move |b| (t.clone(), b.clone()))).collect();
            check_hostile_set(&tpls, &order, &blocks, &["Wrap".to_string()], ctxs, *salt, l)
        }),
        "inheritance_and_components" => run_family(&rep, &fam, quick(32_000), || (prop::collection::vec(hexpr(), 4), prop::collection::vec(hostile_ctx(HVARS), 2), any::<u64>()), |(es, ctxs, salt), l| {
            let p = |i: usize| print(&es[i], Mode::Minimal);
            let tpls = vec![
                ("base.html".to_string(), format!("{{% block a %}}{{{{ {} }}}}{{% block b %}}{{% for q in {} %}}{{{{ q }}}}{{% endfor %}}{{% endblock %}}{{% endblock %}}{{% filter upper %}}{{% block c %}}c{{% endblock %}}{{% endfilter %}}", p(0), p(1))),
                ("child.html".to_string(), format!("{{% extends \"base.html\" %}}{{% block b %}}{{{{ super() }}}}{{% set v %}}{{{{ {} }}}}{{% endset %}}{{{{ <K x={{ {} }} h0={{ h0 | default(value=1) }} /> }}}}{{{{ <K x={{ h1 }} zu={{ h2.nope }} zv={{ h3 }} /> }}}}{{% <K x=\"s\"> %}}{{{{ v }}}}{{% </K> %}}{{% endblock %}}", p(2), p(3))),
                ("lib.html".to_string(), format!("{{% component K(x, ...rest) %}}[{{{{ x | default(value=0) }}}}|{{{{ rest }}}}|{{{{ body | default(value=\"\") }}}}|{{% if {} %}}y{{% endif %}}]{{% endcomponent K %}}", print(&E::Var("x".into()), Mode::Minimal))),
            ];
            w.trace_case(|| json!({"kind": "hostile", "templates": tpls, "contexts": ctxs.iter().map(ctx_to_json).collect::<Vec<_>>()}));
            l.label("set:inheritance-components");
            check_hostile_set(&tpls, &["base.html".to_string(), "child.html".to_string()], &[("child.html".to_string(), "a".to_string()), ("child.html".to_string(), "b".to_string()), ("child.html".to_string(), "c".to_string()), ("base.html".to_string(), "b".to_string())], &["K".to_string()], ctxs, *salt, l)
        }),
        "big_values" => {
            // large values through every filter / test / operator once
            let vals = big_values();
            let mut cases: Vec<(usize, String)> = vec![];
            for (vi, _) in vals.iter().enumerate() {
                if vi as u64 % w.nshards != w.shard {
                    continue;
                }
                for b in BUILTINS {
                    let call = match (b.kind, b.name) {
                        (BK::Func, _) => continue,
                        (_, "truncate") => "truncate(length=3)".to_string(),
                        (_, "replace") => "replace(from=\"a\", to=\"bb\")".to_string(),
                        (_, "split") => "split(pat=\"<\")".to_string(),
                        (_, "nth") => "nth(n=9999)".to_string(),
                        (_, "get") => "get(key=\"a\", default=1)".to_string(),
                        (_, "group_by") => "group_by(attribute=\"a\")".to_string(),
                        (_, "default") => "default(value=1)".to_string(),
                        (_, "divisible_by") => "divisible_by(divisor=3)".to_string(),
                        (_, "starting_with" | "ending_with" | "containing") => format!("{}(pat=\"é\")", b.name),
                        (_, n) => n.to_string(),
                    };
                    cases.push((vi, if b.kind == BK::Filter { format!("{{{{ h0 | {call} | str | length }}}}") } else { format!("{{{{ h0 is {call} }}}}") }));
                }
                for src in ["{{ h0 }}", "{{ h0 | length }}", "{% for q in h0 %}{{ loop.index }}{% endfor %}", "{{ h0 == h0 }}", "{{ h0 ~ h0 | length }}", "{{ [q for q in h0] | length }}", "{{ h0[1:] | length }}", "{{ h0[::-1] | length }}", "{{ h0[9999] is defined }}", "{{ 1 in h0 }}", "{{ h0 < h0 }}", "{{ [...h0] | length }}", "{{ {...h0 } | length }}", "{{ h0 | sort | length }}", "{{ h0 | unique | length }}", "{{ __tera_context | length }}"] {
                    cases.push((vi, src.to_string()));
                }
            }
            run_enum(&rep, &fam, &cases, |(vi, src), l| {
                w.trace_case(|| json!({"kind": "hostile", "source": src, "big_value": vi}));
                let mut ctx = Ctx::new();
                ctx.insert("h0".into(), vals[*vi].clone());
                let tctx = ctx_to_tera(&ctx);
                let mut t = tera::Tera::new();
                if let Err(e) = t.add_raw_template("t.html", src) {
                    return Err(Fail::new("C07/valid-program-rejected", format!("{src}: {e}"), json!({"kind": "hostile", "source": src})));
                }
                let r = with_hook(|| t.render("t.html", &tctx));
                l.label("big-value");
                l.nontrivial(hash_of(&(src.clone(), *vi)));
                judge(&r, &format!("{src} on big value #{vi}"), &|| json!({"kind": "hostile_big", "source": src, "big_value": vi}), l)
            });
        }
        _ => return 2,
    }
    let mut l = Local::new();
    l.evals = rep.evals.load(std::sync::atomic::Ordering::Relaxed);
    l.labels = rep.labels.lock().unwrap().clone();
    l.nontrivial = rep.nontrivial.lock().unwrap().clone();
    l.samples = rep.samples.lock().unwrap().iter().take(2).cloned().collect();
    l.discarded = rep.discarded.load(std::sync::atomic::Ordering::Relaxed);
    let fails: Vec<Fail> = rep.violations.lock().unwrap().clone();
    if !rep.inconclusive.lock().unwrap().is_empty() {
        return 4;
    }
    write_worker_result(&w.out, &l, &fails);
    0
}

pub fn run(rep: &Report) {
    rep.set_rule("(1) hostile renders: generated expressions placing every built-in filter/test/function with arbitrary subsets of its keyword arguments (and operators, subscripts, slices, attribute/optional chains, ternaries, literals with spreads, comprehensions) over variables bound to hostile values — bytes with invalid UTF-8, u64/i128/u128 extremes, NaN/±inf/−0.0, none, explicit undefined inside maps and arrays, maps with non-string keys and past the attribute-scan cutoff, 25-element mixed arrays, long strings — printed, used as an if condition and as a for target; the C02 expressions and C03 programs under the same contexts; inheritance + component sets rendered whole, by block, and by component through the API; seven very large values (10000-element arrays, 100 KB strings, 5000-entry maps, 60-deep nesting) through every built-in. Oracle: Ok(valid UTF-8) or Err that formats, never a panic; after every successful render the hook reports empty value/loop/capture/block stacks for every top-level, include and component state; no render of an accepted set fails with a missing-reference class of message. (2) reference injection (exhaustive): 8 expression-level references x 33 expression positions x 19 statement positions + 5 statement-level references x 19 positions + 6 whole-template references, each as an unknown name (must be rejected by add_raw_templates and render_str) and as a known control (must be accepted and render). All renders run in worker subprocesses (a crash is pinpointed). Non-trivial: render reaching a built-in on a hostile value; every injection; distinct by (sources, contexts).");
    rep.assume("hostile integers are either small (<= 40) or >= 2,000,000 so that range() and width arguments either stay small or hit their caps: generated programs stay free of legitimate multi-second renders; a worker timeout is inconclusive");
    for k in rep.known.clone() {
        if let Some(Err(f)) = replay(rep, &k.repro) {
            if k.status == "open" {
                rep.fail(Fail::new(k.signature.clone(), f.what, f.case));
            } else {
                rep.fail(Fail::new(format!("{}/regressed", k.signature), f.what, f.case));
            }
        }
    }
    let inj = injections();
    rep.extra("injections", json!(inj.len()));
    run_enum(rep, "reference_injection", &inj, |i, l| check_injection(i, l));
    let on_abnormal = |fam: &'static str| {
        move |rep: &Report, shard: u64, desc: &str, case: Option<serde_json::Value>, timed_out: bool| {
            if timed_out {
                rep.inconclusive(&format!("{fam} shard {shard} timed out (last case: {})", case.map(|c| c.to_string().chars().take(400).collect::<String>()).unwrap_or_default()));
                return;
            }
            rep.fail(Fail::new("C07/crash", format!("{fam} shard {shard}: worker {desc}; last case {}", case.as_ref().map(|c| c.to_string().chars().take(500).collect::<String>()).unwrap_or_default()), case.unwrap_or(json!({"kind": "unknown"}))));
        }
    };
    run_in_workers(rep, "hostile_expressions", 16, 600, on_abnormal("hostile_expressions"));
    run_in_workers(rep, "hostile_expr_c02", 16, 600, on_abnormal("hostile_expr_c02"));
    run_in_workers(rep, "hostile_programs", 16, 600, on_abnormal("hostile_programs"));
    run_in_workers(rep, "inheritance_and_components", 16, 600, on_abnormal("inheritance_and_components"));
    run_in_workers(rep, "hostile_chains", 16, 600, on_abnormal("hostile_chains"));
    run_in_workers(rep, "jumps_anywhere", 16, 600, on_abnormal("jumps_anywhere"));
    run_in_workers(rep, "big_values", 7, 600, on_abnormal("big_values"));
    for b in BUILTINS {
        let lab = match b.kind {
            BK::Filter => format!("builtin:{}", b.name),
            BK::Test => format!("builtin:is {}", b.name),
            BK::Func => format!("builtin:{}()", b.name),
        };
        rep.floor(&lab, 500);
    }
    for (lab, min) in [("render:ok", 100_000), ("render:error", 100_000), ("hostile:bytes", 50_000), ("hostile:float", 50_000), ("hostile:map", 50_000), ("hostile:int", 50_000), ("injection:rejected", 5_000), ("injection:control-accepted", 5_000), ("injection:render_str", 500), ("api:render_block", 10_000), ("api:render_component", 10_000), ("big-value", 300), ("set:c04-chain", 10_000), ("jumps-anywhere:accepted", 2_000), ("jumps-anywhere:refused", 10_000)] {
        rep.floor(lab, min);
    }
}

pub fn replay(_rep: &Report, case: &serde_json::Value) -> Option<Check> {
    let mut l = Local::new();
    match case.get("kind")?.as_str()? {
        "injection" => {
            let t: Vec<(String, String)> = case.get("templates")?.as_array()?.iter().map(|p| Some((p.get(0)?.as_str()?.to_string(), p.get(1)?.as_str()?.to_string()))).collect::<Option<_>>()?;
            Some(check_injection(&Injection { label: case.get("label")?.as_str()?.to_string(), templates: t, unknown: case.get("unknown")?.as_bool()? }, &mut l))
        }
        "hostile" => {
            let tpls: Vec<(String, String)> = case.get("templates")?.as_array()?.iter().map(|p| Some((p.get(0)?.as_str()?.to_string(), p.get(1)?.as_str()?.to_string()))).collect::<Option<_>>()?;
            let strs = |k: &str| -> Vec<String> { case.get(k).and_then(|x| x.as_array()).map(|a| a.iter().filter_map(|x| x.as_str().map(|s| s.to_string())).collect()).unwrap_or_default() };
            let ctxs: Vec<Ctx> = match case.get("contexts") {
                Some(c) => c.as_array()?.iter().map(ctx_from_json).collect::<Option<_>>()?,
                None => vec![ctx_from_json(case.get("context")?)?],
            };
            let entries = if strs("entries").is_empty() { tpls.iter().map(|t| t.0.clone()).collect() } else { strs("entries") };
            let blocks: Vec<(String, String)> = case.get("blocks").and_then(|x| x.as_array()).map(|a| a.iter().filter_map(|p| Some((p.get(0)?.as_str()?.to_string(), p.get(1)?.as_str()?.to_string()))).collect()).unwrap_or_default();
            Some(check_hostile_set(&tpls, &entries, &blocks, &strs("components"), &ctxs, case.get("salt").and_then(|x| x.as_u64()).unwrap_or(0), &mut l))
        }
        _ => None,
    }
}
