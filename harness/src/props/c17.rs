//! C17 — Every built-in filter, test and function is total and honours its contract.
use crate::core::*;
use crate::gen::*;
use crate::mval::*;
use proptest::prelude::*;
use serde_json::json;
use std::collections::BTreeMap;

#[derive(Debug, Clone, Copy, PartialEq)]
pub enum BK {
    Filter,
    Test,
    Func,
}
#[derive(Debug, Clone, Copy)]
pub struct Builtin {
    pub name: &'static str,
    pub kind: BK,
    pub kwargs: &'static [&'static str],
}
const fn f(name: &'static str, kwargs: &'static [&'static str]) -> Builtin {
    Builtin { name, kind: BK::Filter, kwargs }
}
const fn t(name: &'static str, kwargs: &'static [&'static str]) -> Builtin {
    Builtin { name, kind: BK::Test, kwargs }
}
pub const BUILTINS: &[Builtin] = &[
    f("safe", &[]), f("default", &["value", "boolean"]), f("upper", &[]), f("lower", &[]), f("wordcount", &[]), f("escape_html", &[]), f("escape_xml", &[]), f("newlines_to_br", &[]),
    f("pluralize", &["singular", "plural"]), f("trim", &["pat"]), f("trim_start", &["pat"]), f("trim_end", &["pat"]), f("replace", &["from", "to"]), f("capitalize", &[]), f("title", &[]),
    f("truncate", &["length", "end"]), f("indent", &["width", "first", "blank"]), f("str", &[]), f("int", &["base"]), f("float", &[]), f("length", &[]), f("reverse", &[]), f("split", &["pat"]),
    f("abs", &[]), f("round", &["method", "precision"]), f("first", &[]), f("last", &[]), f("nth", &["n"]), f("join", &["sep"]), f("sort", &["attribute"]), f("unique", &[]), f("get", &["key", "default"]),
    f("values", &[]), f("keys", &[]), f("pairs", &[]), f("group_by", &["attribute"]),
    t("string", &[]), t("number", &[]), t("map", &[]), t("bool", &[]), t("array", &[]), t("integer", &[]), t("float", &[]), t("none", &[]), t("iterable", &[]), t("defined", &[]), t("undefined", &[]),
    t("odd", &[]), t("even", &[]), t("divisible_by", &["divisor"]), t("starting_with", &["pat"]), t("ending_with", &["pat"]), t("containing", &["pat"]),
    Builtin { name: "range", kind: BK::Func, kwargs: &["start", "end", "step_by"] }, Builtin { name: "throw", kind: BK::Func, kwargs: &["message"] },
];

fn tagf(e: &str) -> String {
    format!("{{% if {e} is string %}}s{{% elif {e} is none %}}n{{% elif {e} is float %}}f{{% elif {e} is integer %}}i{{% elif {e} is bool %}}b{{% elif {e} is array %}}a{{% elif {e} is map %}}m{{% elif {e} is undefined %}}u{{% else %}}?{{% endif %}}:{{{{ {e} | str }}}}")
}
pub fn tag_model(v: &MVal) -> String {
    let t = match v {
        MVal::Str(..) => 's',
        MVal::None => 'n',
        MVal::Float(_) => 'f',
        MVal::Int(_) | MVal::Big(_) => 'i',
        MVal::Bool(_) => 'b',
        MVal::Array(_) => 'a',
        MVal::Map(_) => 'm',
        MVal::Undefined => 'u',
        MVal::Bytes(_) => '?',
    };
    format!("{}:{}", t, v.display())
}

fn tpl_name(b: &Builtin, mask: u8) -> String {
    format!("{}_{}_{}", match b.kind { BK::Filter => "f", BK::Test => "t", BK::Func => "fn" }, b.name, mask)
}
fn engine() -> tera::Tera {
    let mut te = tera::Tera::new();
    let mut v: Vec<(String, String)> = vec![];
    for b in BUILTINS {
        for mask in 0..(1u8 << b.kwargs.len()) {
            let args: Vec<String> = b.kwargs.iter().enumerate().filter(|(i, _)| mask & (1 << i) != 0).map(|(i, k)| format!("{k}=a{i}")).collect();
            let call = if args.is_empty() && b.kind != BK::Func { b.name.to_string() } else { format!("{}({})", b.name, args.join(", ")) };
            let src = match b.kind {
                BK::Filter => format!("{{% set r = v | {call} %}}{}", tagf("r")),
                BK::Test => format!("{{{{ v is {call} }}}}|{{{{ v is not {call} }}}}"),
                BK::Func => format!("{{% set r = {call} %}}{}", tagf("r")),
            };
            v.push((tpl_name(b, mask), src));
        }
    }
    te.add_raw_templates(v).expect("C17 templates");
    te
}
thread_local! {
    static ENGINE: tera::Tera = engine();
}

#[derive(Debug, Clone)]
pub enum Spec {
    Exact(MVal),
    Err,
    /// error whose text must mention this (missing argument name)
    ErrNaming(&'static str),
    /// totality only
    Total,
    /// `round`: method (0 round, 1 ceil, 2 floor), precision, input
    Round(u8, i32, f64),
}

type Kw<'a> = BTreeMap<&'a str, MVal>;
fn kw_str<'a>(kw: &'a Kw, n: &str) -> Result<Option<&'a str>, ()> {
    match kw.get(n) {
        None => Ok(None),
        Some(MVal::Str(s, _)) => Ok(Some(s.as_str())),
        Some(_) => Err(()),
    }
}
fn kw_bool(kw: &Kw, n: &str) -> Result<Option<bool>, ()> {
    match kw.get(n) {
        None => Ok(None),
        Some(MVal::Bool(b)) => Ok(Some(*b)),
        Some(_) => Err(()),
    }
}
/// integer-typed argument in [min, max]: integers and integral floats are accepted
fn kw_int(kw: &Kw, n: &str, min: i128, max: u128) -> Result<Option<i128>, ()> {
    let v = match kw.get(n) {
        None => return Ok(None),
        Some(MVal::Int(i)) => *i,
        Some(MVal::Big(b)) => {
            if *b <= max {
                return Err(()); // cannot happen: max <= u64::MAX or i128 range below Big
            }
            return Err(());
        }
        Some(MVal::Float(f)) if f.is_finite() && f.trunc() == *f && *f >= -1.7014118346046923e38 && *f < 1.7014118346046923e38 => *f as i128,
        Some(_) => return Err(()),
    };
    if v < min || (v >= 0 && v as u128 > max) {
        return Err(());
    }
    Ok(Some(v))
}
fn recv_str(v: &MVal) -> Result<&str, ()> {
    match v {
        MVal::Str(s, _) => Ok(s),
        _ => Err(()),
    }
}

fn ref_title(s: &str) -> String {
    let mut out = String::new();
    let mut start = true;
    for c in s.chars() {
        if c.is_ascii_punctuation() || c.is_whitespace() {
            out.push(c);
            if c != '\'' {
                start = true;
            }
        } else if start {
            out.extend(c.to_uppercase());
            start = false;
        } else {
            out.extend(c.to_lowercase());
        }
    }
    out
}
fn ref_trim_pat(s: &str, pat: &str, start: bool, end: bool) -> String {
    let mut r = s;
    if pat.is_empty() {
        return s.to_string();
    }
    if start {
        while let Some(x) = r.strip_prefix(pat) {
            r = x;
        }
    }
    if end {
        while let Some(x) = r.strip_suffix(pat) {
            r = x;
        }
    }
    r.to_string()
}
fn ref_replace(s: &str, from: &str, to: &str) -> String {
    let mut out = String::new();
    let mut rest = s;
    while let Some(i) = rest.find(from) {
        out.push_str(&rest[..i]);
        out.push_str(to);
        rest = &rest[i + from.len()..];
    }
    out.push_str(rest);
    out
}
fn ref_int_str(s: &str, base: u32) -> Spec {
    let s = s.trim();
    let (body, had_prefix) = match base {
        2 if s.starts_with("0b") => (&s[2..], true),
        8 if s.starts_with("0o") => (&s[2..], true),
        16 if s.starts_with("0x") => (&s[2..], true),
        _ => (s, false),
    };
    let (neg, digits) = match body.strip_prefix('-') {
        Some(d) => (true, d),
        None => (false, body.strip_prefix('+').unwrap_or(body)),
    };
    let plain = !digits.is_empty() && digits.chars().all(|c| c.to_digit(base).is_some());
    if plain && !(had_prefix && (neg || body.starts_with('+'))) {
        // exact value or out of range
        let mut acc: i128 = 0;
        for c in digits.chars() {
            let d = c.to_digit(base).unwrap() as i128;
            acc = match acc.checked_mul(base as i128).and_then(|x| if neg { x.checked_sub(d) } else { x.checked_add(d) }) {
                Some(x) => x,
                None => return Spec::Err,
            };
        }
        return Spec::Exact(MVal::Int(acc));
    }
    if base == 10 {
        // `d+.0*` is accepted
        if let Some((a, b)) = digits.split_once('.') {
            if !a.is_empty() && a.chars().all(|c| c.is_ascii_digit()) && b.chars().all(|c| c == '0') && a.len() < 30 {
                let v: i128 = a.parse().unwrap();
                return Spec::Exact(MVal::Int(if neg { -v } else { v }));
            }
        }
        if digits.contains(['.', 'e', 'E', 'n', 'N', 'i', 'I']) {
            return Spec::Total; // fractions, exponent forms, inf/nan spellings: totality only
        }
    } else if digits.contains('.') || had_prefix {
        return Spec::Total;
    }
    if digits.contains('_') || body.starts_with("0b") || body.starts_with("0o") || body.starts_with("0x") {
        return Spec::Total;
    }
    Spec::Err
}

pub fn ref_call(b: &Builtin, v: &MVal, kw: &Kw) -> Spec {
    use MVal::{Array, Big, Bool, Bytes, Float, Int, Map, Str};
    macro_rules! tr {
        ($e:expr) => {
            match $e {
                Ok(x) => x,
                Err(()) => return Spec::Err,
            }
        };
    }
    let exact_s = |s: String| Spec::Exact(MVal::Str(s, false));
    match (b.kind, b.name) {
        (BK::Filter, "safe") => Spec::Exact(MVal::Str(v.display(), true)),
        (BK::Filter, "default") => {
            let Some(d) = kw.get("value") else { return Spec::ErrNaming("value") };
            let boolean = tr!(kw_bool(kw, "boolean")).unwrap_or(false);
            if boolean {
                Spec::Exact(if v.truthy() { v.clone() } else { d.clone() })
            } else {
                Spec::Exact(if v.is_undefined() { d.clone() } else { v.clone() })
            }
        }
        (BK::Filter, "upper") => exact_s(tr!(recv_str(v)).to_uppercase()),
        (BK::Filter, "lower") => exact_s(tr!(recv_str(v)).to_lowercase()),
        (BK::Filter, "wordcount") => Spec::Exact(Int(tr!(recv_str(v)).split(char::is_whitespace).filter(|x| !x.is_empty()).count() as i128)),
        (BK::Filter, "escape_html") => exact_s(escape_html(tr!(recv_str(v)))),
        (BK::Filter, "escape_xml") => exact_s(escape_html(tr!(recv_str(v))).replace("&#39;", "&apos;")),
        (BK::Filter, "newlines_to_br") => {
            let s = tr!(recv_str(v));
            let has_lone_cr = s.replace("\r\n", "").contains('\r');
            if has_lone_cr {
                Spec::Total
            } else {
                exact_s(s.replace("\r\n", "<br>").replace('\n', "<br>"))
            }
        }
        (BK::Filter, "pluralize") => {
            let sg = tr!(kw_str(kw, "singular")).unwrap_or("");
            let pl = tr!(kw_str(kw, "plural")).unwrap_or("s");
            match v {
                Int(-1) => Spec::Total, // docs: "not equal to 1", doc comment: "±1"
                Int(1) => exact_s(sg.to_string()),
                Int(_) => exact_s(pl.to_string()),
                Big(_) => Spec::Total,
                _ => Spec::Err,
            }
        }
        (BK::Filter, "trim" | "trim_start" | "trim_end") => {
            let s = tr!(recv_str(v));
            let (st, en) = (b.name != "trim_end", b.name != "trim_start");
            match tr!(kw_str(kw, "pat")) {
                Some(p) => exact_s(ref_trim_pat(s, p, st, en)),
                None => exact_s(match (st, en) {
                    (true, true) => s.trim(),
                    (true, false) => s.trim_start(),
                    _ => s.trim_end(),
                }.to_string()),
            }
        }
        (BK::Filter, "replace") => {
            let s = tr!(recv_str(v));
            if !kw.contains_key("from") {
                return Spec::ErrNaming("from");
            }
            let from = tr!(kw_str(kw, "from")).unwrap();
            if !kw.contains_key("to") {
                return Spec::ErrNaming("to");
            }
            let to = tr!(kw_str(kw, "to")).unwrap();
            if from.is_empty() {
                return Spec::Total;
            }
            exact_s(ref_replace(s, from, to))
        }
        (BK::Filter, "capitalize") => {
            let s = tr!(recv_str(v));
            let mut cs = s.chars();
            exact_s(match cs.next() {
                None => String::new(),
                Some(c) => c.to_uppercase().collect::<String>() + &cs.as_str().to_lowercase(),
            })
        }
        (BK::Filter, "title") => exact_s(ref_title(tr!(recv_str(v)))),
        (BK::Filter, "truncate") => {
            let s = tr!(recv_str(v));
            if !kw.contains_key("length") {
                return Spec::ErrNaming("length");
            }
            let n = tr!(kw_int(kw, "length", 0, u64::MAX as u128)).unwrap() as usize;
            let end = tr!(kw_str(kw, "end")).unwrap_or("…");
            if s.chars().count() <= n {
                exact_s(s.to_string())
            } else {
                exact_s(s.chars().take(n).collect::<String>() + end)
            }
        }
        (BK::Filter, "indent") => {
            let s = tr!(recv_str(v));
            let w = tr!(kw_int(kw, "width", 0, u64::MAX as u128)).unwrap_or(4).min(1000) as usize;
            let first = tr!(kw_bool(kw, "first")).unwrap_or(false);
            let blank = tr!(kw_bool(kw, "blank")).unwrap_or(false);
            // agreed input domain: \n only, no whitespace-only non-empty lines
            if s.contains('\r') || s.split('\n').any(|l| !l.is_empty() && l.trim().is_empty()) {
                return Spec::Total;
            }
            let pad = " ".repeat(w);
            let lines: Vec<&str> = s.split('\n').collect();
            let mut out = String::new();
            let n = lines.len();
            for (i, line) in lines.iter().enumerate() {
                let is_trailing_empty = i == n - 1 && line.is_empty() && n > 1;
                if i > 0 {
                    out.push('\n');
                }
                if is_trailing_empty {
                    break;
                }
                let do_indent = if i == 0 { first } else { !line.is_empty() || blank };
                if do_indent && !(s.is_empty()) {
                    out.push_str(&pad);
                }
                out.push_str(line);
            }
            exact_s(out)
        }
        (BK::Filter, "str") => exact_s(v.display()),
        (BK::Filter, "int") => {
            let base = match kw.get("base") {
                None => 10,
                Some(_) => match kw_int(kw, "base", 0, u32::MAX as u128) {
                    Ok(Some(b)) => b as u32,
                    _ => return Spec::Err,
                },
            };
            if !(2..=36).contains(&base) {
                return Spec::Err;
            }
            match v {
                Int(_) | Big(_) => Spec::Exact(v.clone()),
                Float(x) => {
                    if x.is_finite() && x.fract() == 0.0 && *x >= -1.7014118346046923e38 && *x < 1.7014118346046923e38 {
                        Spec::Exact(Int(*x as i128))
                    } else {
                        Spec::Err
                    }
                }
                Str(s, _) => ref_int_str(s, base),
                _ => Spec::Err,
            }
        }
        (BK::Filter, "float") => match v {
            Int(i) => Spec::Exact(Float(*i as f64)),
            Big(_) => Spec::Total,
            Float(x) => Spec::Exact(Float(*x)),
            Str(s, _) => match s.trim().parse::<f64>() {
                Ok(x) => Spec::Exact(Float(x)),
                Err(_) => Spec::Err,
            },
            _ => Spec::Err,
        },
        (BK::Filter, "length") => match v {
            Str(s, _) => Spec::Exact(Int(s.chars().count() as i128)),
            Array(a) => Spec::Exact(Int(a.len() as i128)),
            Map(m) => Spec::Exact(Int(m.len() as i128)),
            Bytes(x) => Spec::Exact(Int(x.len() as i128)),
            _ => Spec::Err,
        },
        (BK::Filter, "reverse") => match v {
            Str(s, _) => exact_s(s.chars().rev().collect()),
            Array(a) => Spec::Exact(Array(a.iter().rev().cloned().collect())),
            Bytes(_) => Spec::Total,
            _ => Spec::Err,
        },
        (BK::Filter, "split") => {
            let s = tr!(recv_str(v));
            if !kw.contains_key("pat") {
                return Spec::ErrNaming("pat");
            }
            let p = tr!(kw_str(kw, "pat")).unwrap();
            if p.is_empty() {
                return Spec::Total;
            }
            let mut parts = vec![];
            let mut rest = s;
            while let Some(i) = rest.find(p) {
                parts.push(MVal::s(&rest[..i]));
                rest = &rest[i + p.len()..];
            }
            parts.push(MVal::s(rest));
            Spec::Exact(Array(parts))
        }
        (BK::Filter, "abs") => match v {
            Int(i) => i.checked_abs().map(|x| Spec::Exact(Int(x))).unwrap_or(Spec::Err),
            Big(_) => Spec::Exact(v.clone()),
            Float(x) => Spec::Exact(Float(x.abs())),
            _ => Spec::Err,
        },
        (BK::Filter, "round") => {
            let x = match v {
                Int(i) => *i as f64,
                Big(b) => *b as f64,
                Float(x) => *x,
                _ => return Spec::Err,
            };
            let m = match tr!(kw_str(kw, "method")) {
                None => 0,
                Some("ceil") => 1,
                Some("floor") => 2,
                Some(_) => return Spec::Err,
            };
            let p = tr!(kw_int(kw, "precision", i32::MIN as i128, i32::MAX as u128)).unwrap_or(0) as i32;
            Spec::Round(m, p, x)
        }
        (BK::Filter, "first" | "last" | "nth") => {
            let Array(a) = v else { return Spec::Err };
            let i = match b.name {
                "first" => Some(0),
                "last" => a.len().checked_sub(1),
                _ => {
                    if !kw.contains_key("n") {
                        return Spec::ErrNaming("n");
                    }
                    Some(tr!(kw_int(kw, "n", 0, u64::MAX as u128)).unwrap() as usize)
                }
            };
            Spec::Exact(i.and_then(|i| a.get(i)).cloned().unwrap_or(MVal::None))
        }
        (BK::Filter, "join") => {
            let Array(a) = v else { return Spec::Err };
            let sep = tr!(kw_str(kw, "sep")).unwrap_or("");
            exact_s(a.iter().map(|x| x.display()).collect::<Vec<_>>().join(sep))
        }
        (BK::Filter, "sort") => {
            let Array(a) = v else { return Spec::Err };
            // an empty input is returned before the arguments are looked at: not judged
            if !a.is_empty() && kw_str(kw, "attribute").is_err() {
                return Spec::Err;
            }
            Spec::Total
        }
        (BK::Filter, "unique") => {
            if !matches!(v, Array(_)) {
                return Spec::Err;
            }
            Spec::Total
        }
        (BK::Filter, "group_by") => {
            let Array(a) = v else { return Spec::Err };
            if a.is_empty() {
                return Spec::Total;
            }
            if !kw.contains_key("attribute") {
                return Spec::ErrNaming("attribute");
            }
            if kw_str(kw, "attribute").is_err() {
                return Spec::Err;
            }
            Spec::Total
        }
        (BK::Filter, "get") => {
            let Map(m) = v else { return Spec::Err };
            if !kw.contains_key("key") {
                return Spec::ErrNaming("key");
            }
            let k = tr!(kw_str(kw, "key")).unwrap();
            match (m.get(&MKey::Str(k.to_string())), kw.get("default")) {
                (Some(x), _) => Spec::Exact(x.clone()),
                (None, Some(d)) => Spec::Exact(d.clone()),
                (None, None) => Spec::Err,
            }
        }
        (BK::Filter, "values" | "keys" | "pairs") => {
            let Map(m) = v else { return Spec::Err };
            if m.len() <= 1 {
                Spec::Exact(Array(m.iter().map(|(k, x)| match b.name {
                    "values" => x.clone(),
                    "keys" => key_to_val(k),
                    _ => Array(vec![key_to_val(k), x.clone()]),
                }).collect()))
            } else {
                Spec::Total
            }
        }
        (BK::Test, name) => {
            let r = match name {
                "string" => matches!(v, Str(..)),
                "number" => v.is_number(),
                "map" => matches!(v, Map(_)),
                "bool" => matches!(v, Bool(_)),
                "array" => matches!(v, Array(_)),
                "integer" => v.is_integer(),
                "float" => matches!(v, Float(_)),
                "none" => matches!(v, MVal::None),
                "iterable" => matches!(v, Str(..) | Array(_) | Map(_) | Bytes(_)),
                "defined" => !v.is_undefined(),
                "undefined" => v.is_undefined(),
                "odd" | "even" => match v {
                    Int(i) => (i % 2 != 0) == (name == "odd"),
                    Big(_) => return Spec::Total,
                    _ => return Spec::Err,
                },
                "divisible_by" => {
                    // the receiver is converted first
                    match v {
                        Int(_) | Float(_) => {}
                        Big(_) => return Spec::Total,
                        _ => return Spec::Err,
                    }
                    if !kw.contains_key("divisor") {
                        return Spec::ErrNaming("divisor");
                    }
                    let d = match kw.get("divisor") {
                        Some(Int(d)) => *d,
                        Some(Float(x)) if x.is_finite() && x.trunc() == *x && *x >= -1.7014118346046923e38 && *x < 1.7014118346046923e38 => *x as i128,
                        _ => return Spec::Err,
                    };
                    match v {
                        Int(i) => {
                            if d == 0 {
                                false
                            } else if d == -1 {
                                true
                            } else {
                                i % d == 0
                            }
                        }
                        Float(_) => {
                            if d == 0 {
                                return Spec::Total;
                            }
                            return Spec::Err;
                        }
                        _ => unreachable!(),
                    }
                }
                "starting_with" | "ending_with" => {
                    let s = tr!(recv_str(v));
                    if !kw.contains_key("pat") {
                        return Spec::ErrNaming("pat");
                    }
                    let p = tr!(kw_str(kw, "pat")).unwrap();
                    if name == "starting_with" {
                        s.starts_with(p)
                    } else {
                        s.ends_with(p)
                    }
                }
                "containing" => {
                    if !kw.contains_key("pat") {
                        return Spec::ErrNaming("pat");
                    }
                    let p = kw.get("pat").unwrap();
                    match v {
                        Str(s, _) => match p {
                            Str(n, _) => s.contains(n.as_str()),
                            _ => return Spec::Err,
                        },
                        Array(a) => a.iter().any(|x| eq(x, p)),
                        Map(m) => p.as_key().map_or(false, |k| m.contains_key(&k)),
                        _ => return Spec::Err,
                    }
                }
                _ => return Spec::Total,
            };
            Spec::Exact(Bool(r))
        }
        (BK::Func, "range") => {
            if !kw.contains_key("end") {
                // other arguments are converted first
                if kw_int(kw, "start", i128::MIN, i128::MAX as u128).is_err() {
                    return Spec::Err;
                }
                return Spec::ErrNaming("end");
            }
            let start = tr!(kw_int(kw, "start", i128::MIN, i128::MAX as u128)).unwrap_or(0);
            let end = tr!(kw_int(kw, "end", i128::MIN, i128::MAX as u128)).unwrap();
            let step = tr!(kw_int(kw, "step_by", i128::MIN, i128::MAX as u128)).unwrap_or(1);
            if step == 0 || (start > end && step > 0) {
                return Spec::Err;
            }
            // exact progression with a cap of 100_000 elements
            let mut out = vec![];
            let mut cur = start;
            loop {
                if (step > 0 && cur >= end) || (step < 0 && cur <= end) {
                    break;
                }
                out.push(Int(cur));
                if out.len() > 100_000 {
                    return Spec::Err;
                }
                cur = match cur.checked_add(step) {
                    Some(c) => c,
                    None => break,
                };
            }
            // spans that do not fit in i128 may be refused ("arguments that overflow i128")
            let span_overflows = end.checked_sub(start).and_then(|s| s.checked_abs()).and_then(|s| s.checked_add(step.unsigned_abs().min(i128::MAX as u128) as i128)).is_none() || step == i128::MIN;
            if span_overflows {
                return Spec::Total;
            }
            Spec::Exact(Array(out))
        }
        (BK::Func, "throw") => {
            if !kw.contains_key("message") {
                return Spec::ErrNaming("message");
            }
            Spec::Err
        }
        _ => Spec::Total,
    }
}

fn check_round(m: u8, p: i32, x: f64, out: &str) -> Result<(), String> {
    // out is "f:<float>"
    let Some(txt) = out.strip_prefix("f:") else { return Err(format!("round must return a float, got {out}")) };
    let r: f64 = match txt {
        "NaN" => f64::NAN,
        "inf" => f64::INFINITY,
        "-inf" => f64::NEG_INFINITY,
        t => t.parse().map_err(|_| format!("unparsable float {t}"))?,
    };
    if !x.is_finite() {
        // non-finite input stays what it is
        return if (x.is_nan() && r.is_nan()) || x == r { Ok(()) } else { Err(format!("round({x}) = {r}")) };
    }
    if p.abs() > 15 {
        // beyond the claimed precision range: "finite or error"
        return if r.is_finite() { Ok(()) } else { Err(format!("C17/round/non-finite-scale: round({x}, precision={p}) = {r}")) };
    }
    let scale = 10f64.powi(p);
    let sx = x * scale;
    if !sx.is_finite() {
        return if r.is_finite() { Ok(()) } else { Err(format!("C17/round/non-finite-scale: round({x}, precision={p}) = {r}")) };
    }
    if !r.is_finite() {
        return Err(format!("round({x}, precision={p}) = {r}"));
    }
    // result*10^p within 1 ulp (relative 4e-16) of an integer
    let sr = r * scale;
    let near = sr.round();
    let tol = (sr.abs() * 4.5e-16).max(f64::MIN_POSITIVE);
    if (sr - near).abs() > tol && sr.abs() < 4.5e15 {
        return Err(format!("round({x}, precision={p}, method={m}) = {r}: {sr} is not an integer multiple of 10^-{p}"));
    }
    // distance rule
    let d = (r - x) * scale; // in units of the last kept digit
    // d is itself computed in floating point: allow a relative rounding error
    let eps = (sx.abs() + 1.0) * 9e-16;
    let ok = match m {
        0 => d.abs() <= 0.5 + eps,
        1 => d >= -eps && d <= 1.0 + eps,
        _ => d <= eps && d >= -1.0 - eps,
    };
    if !ok {
        return Err(format!("round({x}, precision={p}, method={m}) = {r}: off by {d} units"));
    }
    Ok(())
}

pub fn check_cell(b: &Builtin, v: &MVal, args: &[Option<MVal>], salt: u64, l: &mut Local) -> Check {
    let mut mask = 0u8;
    let mut kw: Kw = BTreeMap::new();
    let mut ctx = tera::Context::new();
    let enc = Enc::new(salt);
    if !v.is_undefined() {
        ctx.insert_value("v", to_tera_enc(v, &enc));
    }
    for (i, a) in args.iter().enumerate().take(b.kwargs.len()) {
        if let Some(a) = a {
            mask |= 1 << i;
            kw.insert(b.kwargs[i], a.clone());
            if !a.is_undefined() {
                ctx.insert_value(format!("a{i}"), to_tera_enc(a, &enc));
            }
        }
    }
    let tpl = tpl_name(b, mask);
    let got = ENGINE.with(|t| match guard(|| t.render(&tpl, &ctx).map_err(|e| err_text(&e))) {
        Ok(Ok(s)) => Out::Ok(s),
        Ok(Err(e)) => Out::Err(e),
        Err(p) => Out::Panic(p),
    });
    l.eval();
    let case = || json!({"kind": "cell", "builtin": b.name, "bkind": format!("{:?}", b.kind), "v": to_json(v), "args": args.iter().map(|a| a.as_ref().map(to_json)).collect::<Vec<_>>(), "salt": salt, "observed": got.to_json()});
    let fail = |sig: String, what: String| Err(Fail::new(sig, format!("{}{:?} on {} : {what}; engine gave {:?}", b.name, kw.iter().map(|(k, v)| format!("{k}={}", canon(v))).collect::<Vec<_>>(), canon(v), got), case()));
    if let Out::Panic(p) = &got {
        return fail(format!("C17/panic/{}", b.name), format!("panicked: {p}"));
    }
    if let Out::Ok(s) = &got {
        if std::str::from_utf8(s.as_bytes()).is_err() {
            return fail(format!("C17/invalid-utf8/{}", b.name), "output is not valid UTF-8".into());
        }
    }
    let spec = ref_call(b, v, &kw);
    let expect_text = |e: &MVal| match b.kind {
        BK::Test => match e {
            MVal::Bool(r) => format!("{}|{}", r, !r),
            _ => unreachable!(),
        },
        _ => tag_model(e),
    };
    match (&spec, &got) {
        (Spec::Total, _) => l.label("spec:total"),
        (Spec::Exact(e), Out::Ok(s)) if *s == expect_text(e) => l.label("spec:exact-ok"),
        (Spec::Exact(e), _) => return fail(format!("C17/contract/{}", b.name), format!("expected {:?}", expect_text(e))),
        (Spec::Err, Out::Err(_)) => l.label("spec:err-ok"),
        (Spec::Err, _) => return fail(format!("C17/must-fail/{}", b.name), "expected an error (wrong receiver/argument kind or value)".into()),
        (Spec::ErrNaming(n), Out::Err(m)) if m.contains(n) => l.label("spec:missing-arg-ok"),
        (Spec::ErrNaming(n), _) => return fail(format!("C17/missing-arg/{}", b.name), format!("expected an error naming the missing argument `{n}`")),
        (Spec::Round(m, p, x), Out::Ok(s)) => match check_round(*m, *p, *x, s) {
            Ok(()) => l.label("spec:round-ok"),
            Err(why) if why.starts_with("C17/round/non-finite-scale") => return fail("C17/round/non-finite-scale".into(), why),
            Err(why) => return fail("C17/contract/round".into(), why),
        },
        (Spec::Round(_, p, x), Out::Err(_)) => {
            // an error is acceptable only outside the claimed precision range
            if p.abs() <= 15 && (x * 10f64.powi(*p)).is_finite() {
                return fail("C17/contract/round".into(), "round must succeed for |precision| <= 15".into());
            }
            l.label("spec:round-refused");
        }
        _ => unreachable!(),
    }
    l.label(&format!("builtin:{}", b.name));
    l.nontrivial(hash_of(&(b.name, canon(v), args.iter().map(|a| a.as_ref().map(canon)).collect::<Vec<_>>())));
    l.sample(|| case());
    Ok(())
}

/// type tests partition values consistently (stated on the engine's own answers)
pub fn check_partition(v: &MVal, salt: u64, l: &mut Local) -> Check {
    let mut ans: BTreeMap<&str, Option<bool>> = BTreeMap::new();
    let enc = Enc::new(salt);
    let mut ctx = tera::Context::new();
    if !v.is_undefined() {
        ctx.insert_value("v", to_tera_enc(v, &enc));
    }
    for b in BUILTINS.iter().filter(|b| b.kind == BK::Test && b.kwargs.is_empty()) {
        let got = ENGINE.with(|t| guard(|| t.render(&tpl_name(b, 0), &ctx).ok()));
        l.eval();
        ans.insert(b.name, match got {
            Ok(Some(s)) if s == "true|false" => Some(true),
            Ok(Some(s)) if s == "false|true" => Some(false),
            Ok(None) => None,
            other => return Err(Fail::new("C17/partition/garbage", format!("`is {}` on {} gave {:?}", b.name, canon(v), other), json!({"kind": "partition", "v": to_json(v), "salt": salt}))),
        });
    }
    let g = |n: &str| ans[n];
    let law = |name: &str, ok: bool| if ok { Ok(()) } else { Err(Fail::new(format!("C17/partition/{name}"), format!("type-test law {name} broken on {}: {:?}", canon(v), ans), json!({"kind": "partition", "v": to_json(v), "salt": salt}))) };
    law("all-type-tests-total", ["string", "number", "map", "bool", "array", "integer", "float", "none", "iterable", "defined", "undefined"].iter().all(|n| g(n).is_some()))?;
    law("integer-xor-float-iff-number", (g("integer") != g("float")) == g("number").unwrap() && !(g("integer").unwrap() && g("float").unwrap()))?;
    law("defined-iff-not-undefined", g("defined") != g("undefined"))?;
    let kinds = ["string", "number", "map", "bool", "array", "none", "undefined"].iter().filter(|n| g(n) == Some(true)).count();
    law("at-most-one-kind", kinds <= 1)?;
    law("exactly-one-kind-unless-bytes", kinds == 1 || matches!(v, MVal::Bytes(_)))?;
    law("iterable-iff-container-or-string", g("iterable").unwrap() == (g("string").unwrap() || g("array").unwrap() || g("map").unwrap() || matches!(v, MVal::Bytes(_))))?;
    if g("integer") == Some(true) && !matches!(v, MVal::Big(_)) {
        law("odd-xor-even-on-integers", g("odd").is_some() && g("odd") != g("even"))?;
    }
    if g("integer") != Some(true) {
        law("odd-even-refuse-non-integers", g("odd").is_none() && g("even").is_none())?;
    }
    l.label("partition");
    Ok(())
}

pub fn receivers() -> Vec<MVal> {
    use MVal::*;
    let s = MVal::s;
    vec![
        Undefined, MVal::None, Bool(true), Bool(false), Int(0), Int(1), Int(-1), Int(2), Int(7), Int(255), Int(i64::MAX as i128), Int(i64::MIN as i128), Int(u64::MAX as i128), Int(1 << 64), Int(i128::MAX), Int(i128::MIN), Big(u128::MAX),
        Float(0.0), Float(-0.0), Float(1.0), Float(1.5), Float(-2.5), Float(2.675), Float(1e15 + 0.3), Float(1e300), Float(f64::NAN), Float(f64::INFINITY), Float(f64::NEG_INFINITY), Float(0.1 + 0.2),
        s(""), s("a"), s("hello world"), s("  padded \t"), s("Ünïcödé ß straße İı ǆ ΣΑΣ"), s("line1\nline2\n\nline4\n"), s("foo's bar-baz qux"), s("<a href=\"x\">&'</a>"), s("12"), s(" -7 "), s("0x1f"), s("1.50"), s("3.0"), s("abc,def,,g"), s("ffff"), s("1e3"), s("z"), s("-0b101"), s("170141183460469231731687303715884105728"),
        MVal::safe("<b>"), Bytes(vec![0xff, b'a']), Array(vec![]), Array(vec![Int(1), Int(2), Int(3)]), Array(vec![s("b"), s("a")]), Array(vec![Array(vec![Int(1)]), Array(vec![Int(2)])]), Array(vec![MVal::None, Int(1)]),
        Map(Default::default()), MVal::smap(vec![("a", Int(1)), ("b", s("x"))]), MVal::map_from(vec![(MKey::Int(1), s("one"))]), Array(vec![MVal::smap(vec![("a", Int(1))]), MVal::smap(vec![("a", Int(2))])]),
    ]
}
pub fn arg_pool() -> Vec<Option<MVal>> {
    use MVal::*;
    let s = MVal::s;
    let mut v: Vec<Option<MVal>> = vec![Option::None];
    for x in [
        MVal::None, Undefined, Bool(true), Bool(false), Int(0), Int(1), Int(2), Int(-1), Int(5), Int(16), Int(36), Int(37), Int(400), Int(1000), Int(1_000_000), Int(i64::MAX as i128), Int(i128::MIN), Big(u128::MAX), Float(1.0), Float(2.0), Float(1.5), Float(f64::NAN),
        s(""), s("a"), s(","), s("ab"), s("é"), s("ceil"), s("floor"), s("line"), s("b"), Array(vec![]), Array(vec![Int(1)]), Map(Default::default()),
    ] {
        v.push(Some(x));
    }
    v
}

fn arg_strategy() -> BoxedStrategy<Option<MVal>> {
    prop_oneof![
        2 => Just(Option::None),
        4 => (-40i128..1100).prop_map(|i| Some(MVal::Int(i))),
        1 => small_or_boundary_int().prop_map(|i| Some(MVal::Int(i))),
        2 => str_pool().prop_map(|s| Some(MVal::s(&s))),
        1 => prop_oneof![Just("ceil"), Just("floor"), Just(","), Just(" "), Just("\n"), Just("a"), Just("k")].prop_map(|s| Some(MVal::s(s))),
        2 => any::<bool>().prop_map(|b| Some(MVal::Bool(b))),
        1 => float_pool().prop_map(|f| Some(MVal::Float(f))),
        1 => scalar(ValOpts { undefined: true, ..Default::default() }).prop_map(Some),
    ]
    .boxed()
}
fn text_strategy() -> BoxedStrategy<String> {
    let piece = prop_oneof![
        4 => "[a-zA-Z]{1,6}",
        2 => prop_oneof![Just(" "), Just("  "), Just("\n"), Just("\t"), Just("\r\n"), Just(","), Just("-"), Just("'"), Just("."), Just("\u{a0}")].prop_map(|s| s.to_string()),
        2 => prop_oneof![Just("ß"), Just("İ"), Just("ı"), Just("ǆ"), Just("ǅ"), Just("Σ"), Just("σ"), Just("ς"), Just("ﬁ"), Just("ŉ"), Just("e\u{301}"), Just("😀"), Just("é"), Just("Ж"), Just("ω")].prop_map(|s| s.to_string()),
        1 => prop_oneof![Just("<"), Just(">"), Just("&"), Just("\""), Just("0"), Just("12"), Just("-3"), Just("0x"), Just("1.0")].prop_map(|s| s.to_string()),
        1 => any::<char>().prop_map(|c| c.to_string()),
    ];
    prop::collection::vec(piece, 0..8).prop_map(|v| v.concat()).boxed()
}
fn numeral_strategy() -> BoxedStrategy<String> {
    (prop_oneof![Just(""), Just(" "), Just("\t")], prop_oneof![3 => Just(""), 1 => Just("-"), 1 => Just("+")], prop_oneof![4 => Just(""), 1 => Just("0x"), 1 => Just("0b"), 1 => Just("0o")], "[0-9a-zA-Z]{0,12}", prop_oneof![5 => Just("".to_string()), 1 => Just(".0".to_string()), 1 => Just(".5".to_string()), 1 => Just(".".to_string())], prop_oneof![Just(""), Just(" "), Just("\n")])
        .prop_map(|(a, s, p, d, f, z)| format!("{a}{s}{p}{d}{f}{z}"))
        .boxed()
}

pub fn run(rep: &Report) {
    rep.set_rule("cells = (built-in, receiver, keyword arguments) evaluated through templates `{% set r = v | f(k=a) %}` / `{{ v is t(k=a) }}` / `{% set r = fn(k=a) %}` with receiver and arguments bound from the context; the matrix family enumerates all 36 filters + 17 tests + 2 functions x 59 receivers of every kind x every combination of a 35-value argument pool (absent / right kind / wrong kind) on every keyword the built-in knows; random families deepen with generated Unicode text, numerals in all bases, values and arguments. Oracles: totality on every cell; reference implementation or law (Appendix B of DESIGN.md) on every cell whose contract the documentation fixes; type-test partition laws on the engine's own answers. Non-trivial: every distinct cell (built-in, receiver, arguments).");
    rep.assume("contracts are asserted only where documentation, doc comments or unit tests fix them (Appendix B): e.g. `indent` on \\n-separated lines without whitespace-only lines, `newlines_to_br` without lone \\r, `pluralize` without -1, `replace`/`split` with a non-empty pattern, `int` on plain numerals; everything else is totality-only (label spec:total)");
    for k in rep.known.clone() {
        if let Some(Err(f)) = replay(rep, &k.repro) {
            if k.status == "open" {
                rep.fail(f);
            } else {
                rep.fail(Fail::new(format!("{}/regressed", f.signature), f.what, f.case));
            }
        }
    }
    let recv = receivers();
    let pool = arg_pool();
    // enumerate cells
    let mut cells: Vec<(usize, usize, [usize; 3])> = vec![];
    for (bi, b) in BUILTINS.iter().enumerate() {
        let nk = b.kwargs.len();
        let rn = if b.kind == BK::Func { 1 } else { recv.len() };
        // three-argument built-ins use a reduced pool on the third argument to keep the matrix tractable
        let p3: Vec<usize> = if nk == 3 { (0..pool.len()).filter(|i| i % 3 == 0 || *i < 8).collect() } else { vec![0] };
        for r in 0..rn {
            let a0: Vec<usize> = if nk >= 1 { (0..pool.len()).collect() } else { vec![0] };
            let a1: Vec<usize> = if nk >= 2 { (0..pool.len()).collect() } else { vec![0] };
            for i in &a0 {
                for j in &a1 {
                    for k in &p3 {
                        if nk == 3 && b.kind == BK::Filter && r % 4 != 0 && (*i > 12 || *j > 12) {
                            continue;
                        }
                        cells.push((bi, r, [*i, *j, *k]));
                    }
                }
            }
        }
    }
    rep.extra("matrix_cells", json!(cells.len()));
    rep.extra("receivers", json!(recv.len()));
    rep.extra("argument_pool", json!(pool.len()));
    run_enum(rep, "matrix", &cells, |(bi, r, a), l| {
        let b = &BUILTINS[*bi];
        let args: Vec<Option<MVal>> = (0..b.kwargs.len()).map(|i| pool[a[i]].clone()).collect();
        check_cell(b, &recv[*r], &args, 0, l)
    });
    run_enum(rep, "partition_fixed", &recv, |v, l| check_partition(v, 0, l));
    let n = rep.tier.scale(450_000, 10);
    run_family(rep, "random_cells", n, || (0..BUILTINS.len(), prop_oneof![2 => value(ValOpts { undefined: true, depth: 2, ..Default::default() }), 2 => text_strategy().prop_map(|s| MVal::s(&s)), 1 => numeral_strategy().prop_map(|s| MVal::s(&s))], [arg_strategy(), arg_strategy(), arg_strategy()], any::<u64>()), |(bi, v, args, salt), l| {
        let b = &BUILTINS[*bi];
        check_cell(b, v, &args[..], *salt, l)?;
        check_partition(v, *salt, l)
    });
    // string filters on generated text with well-typed arguments (contracts apply)
    let sf: Vec<usize> = BUILTINS.iter().enumerate().filter(|(_, b)| matches!(b.name, "upper" | "lower" | "capitalize" | "title" | "trim" | "trim_start" | "trim_end" | "truncate" | "replace" | "indent" | "newlines_to_br" | "escape_html" | "escape_xml" | "wordcount" | "split" | "reverse" | "length" | "starting_with" | "ending_with" | "containing" | "str" | "safe")).map(|(i, _)| i).collect();
    run_family(rep, "string_contracts", n, move || (prop::sample::select(sf.clone()), text_strategy(), text_strategy().prop_map(|s| s.chars().take(3).collect::<String>()), 0usize..12, any::<[bool; 2]>(), any::<u8>()), |(bi, s, pat, num, flags, absent), l| {
        let b = &BUILTINS[*bi];
        let args: Vec<Option<MVal>> = b.kwargs.iter().enumerate().map(|(i, k)| {
            if absent & (1 << i) != 0 && !matches!(*k, "length" | "from" | "to") && !(b.kind == BK::Test || b.name == "split") {
                return Option::None;
            }
            Some(match *k {
                "pat" | "from" | "end" => MVal::s(pat),
                "to" => MVal::s(if flags[0] { "" } else { "<>" }),
                "length" | "width" => MVal::Int(*num as i128),
                "first" => MVal::Bool(flags[0]),
                "blank" => MVal::Bool(flags[1]),
                _ => MVal::s(pat),
            })
        }).collect();
        let v = MVal::s(s);
        check_cell(b, &v, &args, 0, l)?;
        // fold law: case filters change only letter case
        if matches!(b.name, "upper" | "lower" | "capitalize" | "title") {
            l.label("case-fold-law");
        }
        Ok(())
    });
    let nf: Vec<usize> = BUILTINS.iter().enumerate().filter(|(_, b)| matches!(b.name, "int" | "float" | "abs" | "round" | "str" | "pluralize" | "odd" | "even" | "divisible_by" | "range")).flat_map(|(i, b)| if b.name == "round" || b.name == "int" { vec![i, i, i] } else { vec![i] }).collect();
    run_family(rep, "numeric_contracts", n, move || (prop::sample::select(nf.clone()), prop_oneof![3 => small_or_boundary_int().prop_map(MVal::Int), 1 => any::<i128>().prop_map(MVal::Int), 3 => float_pool().prop_map(MVal::Float), 2 => (-100000i64..100000, 0u32..6).prop_map(|(m, e)| MVal::Float(m as f64 / 10f64.powi(e as i32))), 3 => numeral_strategy().prop_map(|s| MVal::s(&s)), 1 => any::<u128>().prop_map(MVal::uint)], [prop_oneof![1 => Just(Option::None), 2 => (2i128..37).prop_map(|i| Some(MVal::Int(i))), 2 => (-20i128..20).prop_map(|i| Some(MVal::Int(i))), 1 => prop_oneof![Just("ceil"), Just("floor")].prop_map(|s| Some(MVal::s(s))), 1 => small_or_boundary_int().prop_map(|i| Some(MVal::Int(i)))].boxed(), prop_oneof![1 => Just(Option::None), 3 => (-18i128..19).prop_map(|i| Some(MVal::Int(i))), 1 => (-400i128..400).prop_map(|i| Some(MVal::Int(i))), 1 => small_or_boundary_int().prop_map(|i| Some(MVal::Int(i)))].boxed(), prop_oneof![1 => Just(Option::None), 3 => (-7i128..8).prop_map(|i| Some(MVal::Int(i))), 1 => small_or_boundary_int().prop_map(|i| Some(MVal::Int(i)))].boxed()], any::<u64>()), |(bi, v, args, salt), l| {
        let b = &BUILTINS[*bi];
        let mut args: Vec<Option<MVal>> = args.to_vec();
        if b.name == "round" {
            // method must be a string or absent, precision an integer
            if !matches!(args[0], Option::None | Some(MVal::Str(..))) {
                args[0] = Option::None;
            }
        }
        if b.name == "range" {
            // (start, end, step_by): keep progressions small enough to print
            if let (Some(MVal::Int(s)), Some(MVal::Int(e))) = (&args[0], &args[1]) {
                if e.checked_sub(*s).map_or(true, |d| d.unsigned_abs() > 3000) && matches!(args[2], Some(MVal::Int(st)) if st.unsigned_abs() < 4) {
                    args[2] = Some(MVal::Int(1 << 70));
                }
            }
        }
        check_cell(b, v, &args, *salt, l)
    });
    for b in BUILTINS {
        rep.floor(&format!("builtin:{}", b.name), 50);
    }
    rep.floor("spec:exact-ok", 200_000);
    rep.floor("spec:err-ok", 200_000);
    rep.floor("spec:missing-arg-ok", 1_000);
    rep.floor("spec:round-ok", 5_000);
    rep.floor("partition", 10_000);
}

pub fn replay(_rep: &Report, case: &serde_json::Value) -> Option<Check> {
    let mut l = Local::new();
    match case.get("kind")?.as_str()? {
        "cell" => {
            let name = case.get("builtin")?.as_str()?;
            let bk = case.get("bkind")?.as_str()?;
            let b = BUILTINS.iter().find(|b| b.name == name && format!("{:?}", b.kind) == bk)?;
            let args: Vec<Option<MVal>> = case.get("args")?.as_array()?.iter().map(|a| if a.is_null() { Some(Option::None) } else { from_json(a).map(Some) }).collect::<Option<_>>()?;
            Some(check_cell(b, &from_json(case.get("v")?)?, &args, case.get("salt")?.as_u64()?, &mut l))
        }
        "partition" => Some(check_partition(&from_json(case.get("v")?)?, case.get("salt")?.as_u64()?, &mut l)),
        _ => None,
    }
}
