//! C08 — Template text is reproduced verbatim except whitespace next to `-` markers.
use crate::core::*;
use proptest::prelude::*;
use serde_json::json;

use super::c02::R;

#[derive(Debug, Clone, PartialEq)]
pub struct Delims {
    pub bs: String,
    pub be: String,
    pub vs: String,
    pub ve: String,
    pub cs: String,
    pub ce: String,
}
impl Delims {
    pub fn default() -> Delims {
        Delims { bs: "{%".into(), be: "%}".into(), vs: "{{".into(), ve: "}}".into(), cs: "{#".into(), ce: "#}".into() }
    }
    pub fn tera(&self) -> tera::Delimiters {
        tera::Delimiters { block_start: self.bs.clone().into(), block_end: self.be.clone().into(), variable_start: self.vs.clone().into(), variable_end: self.ve.clone().into(), comment_start: self.cs.clone().into(), comment_end: self.ce.clone().into() }
    }
    pub fn json(&self) -> serde_json::Value {
        json!([self.bs, self.be, self.vs, self.ve, self.cs, self.ce])
    }
    pub fn from_json(j: &serde_json::Value) -> Option<Delims> {
        let a = j.as_array()?;
        let g = |i: usize| a.get(i).and_then(|x| x.as_str()).map(|s| s.to_string());
        Some(Delims { bs: g(0)?, be: g(1)?, vs: g(2)?, ve: g(3)?, cs: g(4)?, ce: g(5)? })
    }
    pub fn starts(&self) -> [&str; 3] {
        [&self.bs, &self.vs, &self.cs]
    }
    pub fn all(&self) -> [&str; 6] {
        [&self.bs, &self.be, &self.vs, &self.ve, &self.cs, &self.ce]
    }
}

#[derive(Debug, Clone, PartialEq)]
pub enum Seg {
    Text(String),
    /// index into EXPRS, `-` on the left / right delimiter
    Expr(usize, bool, bool),
    Comment(String, bool, bool),
    /// body, outer-left, inner-left (after `raw`), inner-right (before `endraw`), outer-right
    Raw(String, bool, bool, bool, bool),
    /// kind, flags of the opening tag (l, r), flags of the closing tag (l, r), inner segments
    Pair(PairKind, (bool, bool), (bool, bool), Vec<Seg>),
    /// a tag that produces nothing: `{% set zz = 1 %}`
    Set(bool, bool),
}
#[derive(Debug, Clone, Copy, PartialEq)]
pub enum PairKind {
    IfTrue,
    IfFalse,
    For(u8),
    FilterStr,
    SetBlock,
}
/// (source, what it prints) — only letters, digits, spaces, quotes and `_`, so that no delimiter set of the pool occurs inside
pub const EXPRS: &[(&str, &str)] = &[("1", "1"), ("\"a b\"", "a b"), ("\" s \"", " s "), ("true", "true"), ("\"\"", ""), ("'é '", "é "), ("zz_1", "V")];

// ------------------------------------------------------------------------------------------
// spelling

#[derive(Debug, Clone)]
enum Tok {
    /// literal text with the id of its node
    Text(usize, String),
    /// a delimiter-ish item: (trims the text before it, trims the text after it)
    Mark(bool, bool),
    /// `{%- raw ..%}`: trims the text before it; transparent for the markers before it (the raw body is literal text)
    RawOpen(bool),
    /// `{%.. endraw -%}`: trims the text after it; transparent for the markers after it
    RawClose(bool),
}

pub struct Spelled {
    pub source: String,
    /// byte offsets at which the speller wrote a start delimiter
    pub start_offsets: Vec<usize>,
    /// (text searched by the engine, terminator, expected position of the terminator)
    pub first_occurrence: Vec<(String, String, usize)>,
    /// byte ranges that are comment interiors or raw bodies (start delimiters inside them are not delimiters)
    pub opaque: Vec<(usize, usize)>,
}

fn dash(b: bool) -> &'static str {
    if b {
        "-"
    } else {
        ""
    }
}

struct Sp<'a> {
    d: &'a Delims,
    out: String,
    starts: Vec<usize>,
    firsts: Vec<(String, String, usize)>,
    opaque: Vec<(usize, usize)>,
    toks: Vec<Tok>,
    next_id: usize,
    /// inner padding of tags and expressions: none, one space, a newline, a tab (drawn from a stream derived from the segment list)
    pad: Mix,
}
impl<'a> Sp<'a> {
    /// no padding at all only under the default delimiters: custom delimiters made of operator-like characters
    /// (`..`, `.|`) would merge with the expression next to them, which is an ambiguity of the spelling, not of the engine
    fn pad_start(&mut self) -> &'static str {
        let p = ["", " ", " ", "\n", "\t", ""][(self.pad.next() % 6) as usize];
        if p.is_empty() && *self.d != Delims::default() { " " } else { p }
    }
    /// before a `-` end marker at least one whitespace character is kept (`1-%}` would be a minus sign in other dialects)
    fn pad_end(&mut self, dash: bool) -> &'static str {
        if dash {
            [" ", "\n", "  ", " "][(self.pad.next() % 4) as usize]
        } else {
            let p = ["", " ", " ", "\n", ""][(self.pad.next() % 5) as usize];
            if p.is_empty() && *self.d != Delims::default() { " " } else { p }
        }
    }
    fn open(&mut self, delim: &str, l: bool) {
        self.starts.push(self.out.len());
        self.out.push_str(delim);
        self.out.push_str(dash(l));
    }
    fn tag(&mut self, body: &str, l: bool, r: bool) {
        let bs = self.d.bs.clone();
        self.open(&bs, l);
        let (a, b) = (self.pad_start(), self.pad_end(r));
        self.out.push_str(a);
        self.out.push_str(body);
        self.out.push_str(b);
        self.out.push_str(dash(r));
        self.out.push_str(&self.d.be);
        self.toks.push(Tok::Mark(l, r));
    }
    fn text(&mut self, t: &str) -> usize {
        let id = self.next_id;
        self.next_id += 1;
        self.out.push_str(t);
        self.toks.push(Tok::Text(id, t.to_string()));
        id
    }
    fn segs(&mut self, segs: &[Seg], ids: &mut Vec<NodeId>) {
        for s in segs {
            match s {
                Seg::Text(t) if t.is_empty() => {}
                Seg::Text(t) => {
                    let id = self.text(t);
                    ids.push(NodeId::Text(id));
                }
                Seg::Expr(i, l, r) => {
                    let vs = self.d.vs.clone();
                    self.open(&vs, *l);
                    let (a, b) = (self.pad_start(), self.pad_end(*r));
                    self.out.push_str(a);
                    self.out.push_str(EXPRS[*i].0);
                    self.out.push_str(b);
                    self.out.push_str(dash(*r));
                    self.out.push_str(&self.d.ve);
                    self.toks.push(Tok::Mark(*l, *r));
                    ids.push(NodeId::Out(EXPRS[*i].1.to_string()));
                }
                Seg::Comment(body, l, r) => {
                    let cs = self.d.cs.clone();
                    self.open(&cs, *l);
                    let a = self.out.len() - dash(*l).len();
                    self.out.push_str(body);
                    self.out.push_str(dash(*r));
                    let b = self.out.len();
                    self.opaque.push((a, b));
                    self.out.push_str(&self.d.ce);
                    // the engine looks for the first end delimiter from the start of the comment (overlaps with the
                    // start delimiter included) and reads the markers from the characters next to the delimiters
                    // the markers are read from the characters next to the delimiters: a `-` right after the start
                    // delimiter is the start marker (and is consumed), a `-` right before the first end delimiter
                    // found after that is the end marker
                    let inner = format!("{}{}{}", dash(*l), body, dash(*r));
                    let l_eff = inner.starts_with('-');
                    let rest = if l_eff { &inner[1..] } else { &inner[..] };
                    let r_eff = rest.ends_with('-');
                    self.firsts.push((format!("{}{}", rest, self.d.ce), self.d.ce.clone(), rest.len()));
                    self.toks.push(Tok::Mark(l_eff, r_eff));
                    ids.push(NodeId::Out(String::new()));
                }
                Seg::Raw(body, lo, li, ri, ro) => {
                    self.tag("raw", *lo, *li);
                    self.toks.pop();
                    // the raw body is literal text that is first trimmed by the inner markers
                    let mut b: &str = body;
                    if *li {
                        b = b.trim_start();
                    }
                    if *ri {
                        b = b.trim_end();
                    }
                    self.toks.push(Tok::RawOpen(*lo));
                    let id = self.next_id;
                    self.next_id += 1;
                    let a = self.out.len();
                    self.out.push_str(body);
                    self.opaque.push((a, self.out.len()));
                    self.toks.push(Tok::Text(id, b.to_string()));
                    self.firsts.push((format!("{}{}", body, self.d.bs), self.d.bs.clone(), body.len()));
                    self.tag("endraw", *ri, *ro);
                    self.toks.pop();
                    self.toks.push(Tok::RawClose(*ro));
                    ids.push(NodeId::Text(id));
                }
                Seg::Set(l, r) => {
                    self.tag("set zz = 1", *l, *r);
                    ids.push(NodeId::Out(String::new()));
                }
                Seg::Pair(kind, (ol, or), (cl, cr), inner) => {
                    let (open, close) = match kind {
                        PairKind::IfTrue => ("if true".to_string(), "endif"),
                        PairKind::IfFalse => ("if false".to_string(), "endif"),
                        PairKind::For(n) => (format!("for zq in [{}]", (0..*n).map(|i| i.to_string()).collect::<Vec<_>>().join(", ")), "endfor"),
                        PairKind::FilterStr => ("filter str".to_string(), "endfilter"),
                        PairKind::SetBlock => ("set zb".to_string(), "endset"),
                    };
                    self.tag(&open, *ol, *or);
                    let mut sub = vec![];
                    self.segs(inner, &mut sub);
                    self.tag(close, *cl, *cr);
                    ids.push(NodeId::Pair(*kind, sub));
                }
            }
        }
    }
}
#[derive(Debug, Clone)]
enum NodeId {
    Text(usize),
    Out(String),
    Pair(PairKind, Vec<NodeId>),
}

/// Spells the segment list with the delimiter set and computes the reference output.
pub fn spell_and_model(segs: &[Seg], d: &Delims) -> (Spelled, String) {
    let mut sp = Sp { d, out: String::new(), starts: vec![], firsts: vec![], opaque: vec![], toks: vec![], next_id: 0, pad: Mix(hash_str(&format!("{:?}", segs))) };
    let mut ids = vec![];
    sp.segs(segs, &mut ids);
    // reference whitespace semantics on the flat token sequence: a text is trimmed at its start iff the item
    // directly before it carries `-` on its closing side, at its end iff the item directly after it carries `-` on its opening side
    let mut trimmed: Vec<String> = vec![String::new(); sp.next_id];
    let toks = &sp.toks;
    fn eff_right(toks: &[Tok], i: usize) -> bool {
        match &toks[i] {
            Tok::Mark(_, r) => *r,
            Tok::RawClose(ro) => *ro,
            Tok::RawOpen(_) => i > 0 && eff_right(toks, i - 1),
            Tok::Text(..) => false,
        }
    }
    fn eff_left(toks: &[Tok], i: usize) -> bool {
        match toks.get(i) {
            Some(Tok::Mark(l, _)) => *l,
            Some(Tok::RawOpen(lo)) => *lo,
            Some(Tok::RawClose(_)) => eff_left(toks, i + 1),
            _ => false,
        }
    }
    for (i, t) in toks.iter().enumerate() {
        if let Tok::Text(id, txt) = t {
            let mut s: &str = txt;
            if i > 0 && eff_right(toks, i - 1) {
                s = s.trim_start();
            }
            if eff_left(toks, i + 1) {
                s = s.trim_end();
            }
            trimmed[*id] = s.to_string();
        }
    }
    fn render(ids: &[NodeId], trimmed: &[String], out: &mut String) {
        for n in ids {
            match n {
                NodeId::Text(i) => out.push_str(&trimmed[*i]),
                NodeId::Out(s) => out.push_str(s),
                NodeId::Pair(k, inner) => {
                    let times = match k {
                        PairKind::IfTrue | PairKind::FilterStr => 1,
                        PairKind::IfFalse | PairKind::SetBlock => 0,
                        PairKind::For(n) => *n as usize,
                    };
                    for _ in 0..times {
                        render(inner, trimmed, out);
                    }
                }
            }
        }
    }
    let mut out = String::new();
    render(&ids, &trimmed, &mut out);
    (Spelled { source: sp.out, start_offsets: sp.starts, first_occurrence: sp.firsts, opaque: sp.opaque }, out)
}

/// The speller's source is unambiguous iff an overlapping scan finds start delimiters exactly where they
/// were written, and every comment/raw body ends at the first occurrence of its terminator.
pub fn unambiguous(sp: &Spelled, d: &Delims) -> bool {
    let b = sp.source.as_bytes();
    let mut found = vec![];
    let mut i = 0;
    while i + 1 < b.len() {
        // comment interiors and raw bodies are not scanned for delimiters by the engine either
        if let Some((_, e)) = sp.opaque.iter().find(|(a, e)| i >= *a && i < *e) {
            i = *e;
            continue;
        }
        if d.starts().iter().any(|s| b[i..].starts_with(s.as_bytes())) {
            found.push(i);
        }
        i += 1;
    }
    if found != sp.start_offsets {
        return false;
    }
    sp.first_occurrence.iter().all(|(hay, term, at)| hay.find(term.as_str()) == Some(*at))
}

fn render(src: &str, d: &Delims) -> R {
    match guard(|| {
        let mut t = tera::Tera::new();
        if *d != Delims::default() {
            if let Err(e) = t.set_delimiters(d.tera()) {
                return R::Syntax(format!("set_delimiters: {e}"));
            }
        }
        let mut c = tera::Context::new();
        c.insert("zz_1", "V");
        let one_off = t.render_str(src, &c, false);
        // the same source registered under a non-escaping name must render to the same text
        let registered = t.add_raw_template("t.txt", src).and_then(|_| t.render("t.txt", &c));
        // a sample of the sources also goes through a file (add_template_file): what is on disk is what is rendered
        if hash_str(src) % 16 == 0 {
            let dir = std::path::Path::new(VERIF_DIR).join("work").join("c08files");
            let _ = std::fs::create_dir_all(&dir);
            // one file per process and thread (the libFuzzer jobs are separate processes running the same code)
            let path = dir.join(format!("{}-{:?}.tpl", std::process::id(), std::thread::current().id()).replace(|c: char| !c.is_ascii_alphanumeric() && c != '.' && c != '-', "_"));
            if std::fs::write(&path, src).is_ok() {
                let from_file = t.add_template_file(&path, Some("f.txt")).and_then(|_| t.render("f.txt", &c));
                let _ = std::fs::remove_file(&path);
                match (&registered, &from_file) {
                    (Ok(a), Ok(b)) if a != b => return R::Err(format!("registered from a string the source renders {a:?}, loaded from a file with the same bytes {b:?}")),
                    (Ok(a), Err(e)) => return R::Err(format!("registered from a string the source renders {a:?}, loaded from a file it fails: {e}")),
                    (Err(e), Ok(b)) => return R::Err(format!("registered from a string the source fails ({e}), loaded from a file it renders {b:?}")),
                    _ => {}
                }
            }
        }
        match (&one_off, &registered) {
            (Ok(a), Ok(b)) if a != b => return R::Err(format!("render_str gives {a:?} but add_raw_template + render gives {b:?}")),
            (Ok(a), Err(e)) => return R::Err(format!("render_str gives {a:?} but add_raw_template + render fails: {e}")),
            (Err(e), Ok(b)) => return R::Err(format!("render_str fails ({e}) but add_raw_template + render gives {b:?}")),
            _ => {}
        }
        match one_off {
            Ok(s) => R::Ok(s),
            Err(e) => match e.kind() {
                tera::ErrorKind::SyntaxError(_) => R::Syntax(e.to_string()),
                _ => R::Err(e.to_string()),
            },
        }
    }) {
        Ok(r) => r,
        Err(p) => R::Panic(p),
    }
}

fn has_ws_marker_case(segs: &[Seg]) -> (bool, bool, bool) {
    // (a `-` marker faces text with whitespace at that end, raw present, comment present)
    fn flat<'a>(segs: &'a [Seg], out: &mut Vec<(&'a Seg, Option<(bool, bool)>)>) {
        for s in segs {
            match s {
                Seg::Pair(_, o, c, inner) => {
                    out.push((s, Some(*o)));
                    flat(inner, out);
                    out.push((s, Some(*c)));
                }
                _ => out.push((s, None)),
            }
        }
    }
    let mut v = vec![];
    flat(segs, &mut v);
    let marks = |x: &(&Seg, Option<(bool, bool)>)| -> Option<(bool, bool)> {
        match (x.0, x.1) {
            (_, Some(f)) => Some(f),
            (Seg::Expr(_, l, r), _) | (Seg::Comment(_, l, r), _) | (Seg::Set(l, r), _) => Some((*l, *r)),
            (Seg::Raw(_, lo, _, _, ro), _) => Some((*lo, *ro)),
            _ => None,
        }
    };
    let mut facing = false;
    for i in 0..v.len() {
        if let Seg::Text(t) = v[i].0 {
            if i > 0 {
                if let Some((_, true)) = marks(&v[i - 1]) {
                    facing |= t.trim_start() != t;
                }
            }
            if let Some(Some((true, _))) = v.get(i + 1).map(marks) {
                facing |= t.trim_end() != t;
            }
        }
        if let Seg::Raw(b, _, li, ri, _) = v[i].0 {
            facing |= (*li && b.trim_start() != b) || (*ri && b.trim_end() != b);
        }
    }
    (facing, v.iter().any(|x| matches!(x.0, Seg::Raw(..))), v.iter().any(|x| matches!(x.0, Seg::Comment(..))))
}

pub fn check_segments(segs: &[Seg], d: &Delims, l: &mut Local) -> Check {
    let dd = Delims::default();
    let (sp, model) = spell_and_model(segs, d);
    if !unambiguous(&sp, d) {
        l.excluded();
        return Ok(());
    }
    let case = |src: &str, dl: &Delims, exp: &str, got: &R| json!({"kind": "ws", "source": src, "delimiters": dl.json(), "expected": exp, "observed": got.json()});
    let got = render(&sp.source, d);
    l.eval();
    if got != R::Ok(model.clone()) {
        let sig = match &got {
            R::Panic(_) => "C08/panic",
            R::Syntax(_) | R::Err(_) => "C08/valid-source-rejected",
            _ => {
                if *d == dd {
                    "C08/wrong-output"
                } else {
                    "C08/wrong-output-custom-delimiters"
                }
            }
        };
        return Err(Fail::new(sig, format!("{:?} with delimiters {}: expected {:?}, engine gave {}", sp.source, d.json(), model, got.json()), case(&sp.source, d, &model, &got)));
    }
    // metamorphic: the same segment list spelled with the default delimiter set renders identically
    if *d != dd {
        let (sp2, model2) = spell_and_model(segs, &dd);
        if unambiguous(&sp2, &dd) {
            let got2 = render(&sp2.source, &dd);
            l.eval();
            if model2 != model || got2 != got {
                return Err(Fail::new("C08/respelling-changes-output", format!("{:?} ({}) renders {} but its default-delimiter spelling {:?} renders {}", sp.source, d.json(), got.json(), sp2.source, got2.json()), case(&sp2.source, &dd, &model, &got2)));
            }
            l.label("respelled");
        }
    }
    let (facing, raw, comment) = has_ws_marker_case(segs);
    l.label(if *d == dd { "delims:default" } else { "delims:custom" });
    if d.all().iter().any(|x| !x.is_ascii()) {
        l.label("delims:multibyte");
    }
    if facing {
        l.label("marker-faces-whitespace");
    }
    if raw {
        l.label("has:raw");
    }
    if comment {
        l.label("has:comment");
    }
    if segs.iter().any(|s| matches!(s, Seg::Pair(..))) {
        l.label("has:tag-pair");
    }
    if facing || raw || comment || *d != dd {
        l.nontrivial(hash_of(&(sp.source.clone(), d.json().to_string())));
    }
    l.sample(|| json!({"source": sp.source, "delimiters": d.json(), "output": model}));
    Ok(())
}

/// a source without any start delimiter renders to itself
pub fn check_plain(text: &str, d: &Delims, l: &mut Local) -> Check {
    if d.starts().iter().any(|s| text.contains(s)) {
        l.excluded();
        return Ok(());
    }
    let got = render(text, d);
    l.eval();
    if got != R::Ok(text.to_string()) {
        return Err(Fail::new(if matches!(got, R::Panic(_)) { "C08/panic" } else { "C08/plain-text-altered" }, format!("source without start delimiter {:?} (delimiters {}): engine gave {}", text, d.json(), got.json()), json!({"kind": "ws", "source": text, "delimiters": d.json(), "expected": text, "observed": got.json()})));
    }
    l.label("plain");
    if !text.is_ascii() {
        l.label("plain:multibyte");
    }
    if d.all().iter().any(|e| text.contains(&e[..e.chars().next().unwrap().len_utf8()])) {
        l.label("plain:partial-delimiter");
    }
    Ok(())
}

// ------------------------------------------------------------------------------------------
// generators

const WS: &[&str] = &[" ", "  ", "\t", "\n", "\r\n", "\u{a0}", "\u{2003}", "\u{3000}", "\u{b}", "\u{85}"];
fn text_piece(extra: Vec<String>) -> BoxedStrategy<String> {
    let extra2 = extra.clone();
    prop_oneof![
        6 => prop::sample::select(WS).prop_map(|s| s.to_string()),
        5 => "[a-zA-Z0-9]{1,3}",
        2 => prop::sample::select(vec!["{", "}", "%", "#", "-", "%}", "}}", "#}", "- ", " -", "<", ">", "\"", "'", "\\", "{ {", "{-", "-}"]).prop_map(|s| s.to_string()),
        2 => prop::sample::select(vec!["é", "日", "😀", "«", "»", "§", "¶", "Â", "Ã", "\u{ab}x", "\u{301}", "ß"]).prop_map(|s| s.to_string()),
        if extra.is_empty() { 0 } else { 3 } => prop::sample::select(if extra2.is_empty() { vec!["x".to_string()] } else { extra2 }),
        1 => any::<char>().prop_map(|c| c.to_string()),
    ]
    .boxed()
}
/// pieces that share bytes with the delimiters: single characters of two-character delimiters, and characters
/// with the same lead or continuation byte as a two-byte delimiter character
fn neighbours(d: &Delims) -> Vec<String> {
    let mut v = vec![];
    for x in d.all() {
        let cs: Vec<char> = x.chars().collect();
        if cs.len() == 2 {
            v.push(cs[0].to_string());
            v.push(cs[1].to_string());
            v.push(format!("{}{}", cs[1], cs[0]));
        } else if let Some(c) = cs.first() {
            let b = c.to_string().into_bytes();
            if b.len() == 2 {
                // same lead byte, other continuation; other lead byte, same continuation
                for alt in [[b[0], b[1] ^ 1], [b[0], 0x80 | ((b[1] + 7) & 0x3f)], [0xc2 + ((b[0] - 0xc2 + 1) % 30), b[1]]] {
                    if let Ok(s) = String::from_utf8(alt.to_vec()) {
                        v.push(s);
                    }
                }
            }
        }
    }
    v
}
fn text_strategy(d: &Delims, max: usize) -> BoxedStrategy<String> {
    prop::collection::vec(text_piece(neighbours(d)), 0..max).prop_map(|v| v.concat()).boxed()
}
fn seg_strategy(d: Delims, depth: u32) -> BoxedStrategy<Seg> {
    let t = text_strategy(&d, 6);
    let mut alts: Vec<(u32, BoxedStrategy<Seg>)> = vec![
        (6, t.clone().prop_map(Seg::Text).boxed()),
        (4, (0..EXPRS.len(), any::<bool>(), any::<bool>()).prop_map(|(i, l, r)| Seg::Expr(i, l, r)).boxed()),
        (3, (text_strategy(&d, 4), any::<bool>(), any::<bool>()).prop_map(|(b, l, r)| Seg::Comment(b, l, r)).boxed()),
        (3, (text_strategy(&d, 5), any::<[bool; 4]>()).prop_map(|(b, f)| Seg::Raw(b, f[0], f[1], f[2], f[3])).boxed()),
        (1, (any::<bool>(), any::<bool>()).prop_map(|(l, r)| Seg::Set(l, r)).boxed()),
    ];
    if depth > 0 {
        let inner = prop::collection::vec(seg_strategy(d.clone(), depth - 1), 0..4);
        alts.push((3, (prop::sample::select(vec![PairKind::IfTrue, PairKind::IfFalse, PairKind::For(0), PairKind::For(1), PairKind::For(2), PairKind::FilterStr, PairKind::SetBlock]), any::<[bool; 4]>(), inner).prop_map(|(k, f, inner)| Seg::Pair(k, (f[0], f[1]), (f[2], f[3]), merge_texts(inner))).boxed()));
    }
    proptest::strategy::Union::new_weighted(alts).boxed()
}
/// adjacent text segments are one literal text for the lexer: merge them so that the model sees the same thing
fn merge_texts(v: Vec<Seg>) -> Vec<Seg> {
    let mut out: Vec<Seg> = vec![];
    for s in v {
        // an empty literal text does not exist for the lexer
        if matches!(&s, Seg::Text(t) if t.is_empty()) {
            continue;
        }
        match (out.last_mut(), s) {
            (Some(Seg::Text(a)), Seg::Text(b)) => a.push_str(&b),
            (_, s) => out.push(s),
        }
    }
    out
}
pub fn segs_strategy(d: Delims) -> BoxedStrategy<Vec<Seg>> {
    prop::collection::vec(seg_strategy(d, 2), 0..7).prop_map(merge_texts).boxed()
}

const PUNCT: &[char] = &['{', '}', '%', '#', '<', '>', '[', ']', '(', ')', '$', '@', '!', '&', '*', '+', '^', '~', ':', ';', '?', '/', '|', '=', '.', ','];
const TWO_BYTE: &[char] = &['«', '»', '§', '¶', '¤', '¦', '¡', '¿', 'Ã', 'ß', 'µ', '×', '÷'];
fn delim() -> BoxedStrategy<String> {
    prop_oneof![
        5 => (prop::sample::select(PUNCT), prop::sample::select(PUNCT)).prop_map(|(a, b)| format!("{a}{b}")),
        3 => prop::sample::select(TWO_BYTE).prop_map(|c| c.to_string()),
    ]
    .boxed()
}
/// accepted delimiter sets whose members do not occur in the fixed tag/expression spellings and do not
/// produce ambiguous joins among themselves
pub fn delims_strategy() -> BoxedStrategy<Delims> {
    (delim(), delim(), delim(), delim(), delim(), delim(), any::<u8>())
        .prop_map(|(bs, be, vs, ve, cs, ce, share)| {
            // sometimes let end delimiters coincide with each other or with a start delimiter (start = end is accepted)
            let (be, ve, ce) = match share % 8 {
                0 => (be.clone(), be.clone(), ce),
                1 => (bs.clone(), ve, ce),
                2 => (be, vs.clone(), cs.clone()),
                _ => (be, ve, ce),
            };
            Delims { bs, be, vs, ve, cs, ce }
        })
        .prop_filter("valid and usable", |d| {
            let starts_distinct = d.bs != d.vs && d.bs != d.cs && d.vs != d.cs;
            // characters used inside tags and expressions by the speller
            let inside = |s: &str| s.chars().any(|c| c.is_alphanumeric() && c.is_ascii() || " \"'_=[],-".contains(c));
            let usable = d.all().iter().all(|x| !inside(x) || !x.is_ascii() && !x.chars().any(|c| c.is_ascii()));
            // `-` adjacency: a delimiter starting or ending with `-` would be confused with the markers
            starts_distinct && usable && d.all().iter().all(|x| !x.contains('-'))
        })
        .boxed()
}

pub fn run(rep: &Report) {
    rep.set_rule("sources are spelled from generated segment trees (literal text heavy in ASCII and Unicode whitespace, lone delimiter characters and end delimiters, multi-byte characters incl. ones sharing a lead or continuation byte with a two-byte delimiter; expressions, comments, raw blocks with four marker positions, set tags, if/for/filter/set-block pairs) with an independent `-` on every delimiter side, under the default delimiter set and under generated accepted sets (two ASCII punctuation characters or one two-byte character per delimiter, ends possibly equal to each other or to a start). Oracles: (1) reference whitespace semantics on the segment list, exact output; (2) metamorphic: the default-delimiter spelling of the same tree renders identically; (3) a source without any start delimiter renders to itself. Sources in which a join accidentally forms a start delimiter, or a comment/raw body contains its terminator early, are excluded by construction (counted in excluded_known). Non-trivial: a `-` marker facing text with whitespace at that end, or a raw/comment segment, or a non-default delimiter set; distinct by (source, delimiters).");
    rep.assume("whitespace = Unicode White_Space as removed by str::trim (the documentation says 'whitespace'); tags and expressions are spelled with fixed bodies made of letters, digits, spaces, quotes and _ = [ ] , so that generated delimiter sets never occur inside them");
    for k in rep.known.clone() {
        if let Some(Err(f)) = replay(rep, &k.repro) {
            if k.status == "open" {
                rep.fail(Fail::new(k.signature.clone(), f.what, f.case));
            } else {
                rep.fail(Fail::new(format!("{}/regressed", k.signature), f.what, f.case));
            }
        }
    }
    let n = rep.tier.scale(1_200_000, 8);
    run_family(rep, "default_delimiters", n, || segs_strategy(Delims::default()), |segs, l| check_segments(segs, &Delims::default(), l));
    run_family(rep, "custom_delimiters", n / 2, || delims_strategy().prop_flat_map(|d| (segs_strategy(d.clone()), Just(d))), |(segs, d), l| check_segments(segs, d, l));
    run_family(rep, "plain_text", n / 2, || prop_oneof![2 => Just(Delims::default()), 1 => delims_strategy()].prop_flat_map(|d| (text_strategy(&d, 12), Just(d))), |(t, d), l| check_plain(t, d, l));
    // delimiter sets in which two start delimiters coincide are documented as conflicts: if one is accepted, a comment
    // (or a tag) spelled with it is read as something else, i.e. "comments produce nothing" fails under an accepted set
    let pool: Vec<&str> = vec!["{{", "{%", "{#", "<<", "[[", "\u{e9}", "$$", "(("];
    let ends: Vec<&str> = vec!["}}", "%}", "#}", ">>", "]]", "\u{e8}", "$$", "))"];
    let mut conflicts: Vec<Delims> = vec![];
    for (i, a) in pool.iter().enumerate() {
        for (j, b) in pool.iter().enumerate() {
            if i == j {
                continue;
            }
            for which in 0..3 {
                // the pair that coincides: (block, variable), (block, comment), (variable, comment)
                let (bs, vs, cs) = match which {
                    0 => (*a, *a, *b),
                    1 => (*a, *b, *a),
                    _ => (*b, *a, *a),
                };
                conflicts.push(Delims { bs: bs.into(), be: ends[i].into(), vs: vs.into(), ve: ends[j].into(), cs: cs.into(), ce: ends[(i + j) % ends.len()].into() });
            }
        }
    }
    run_enum(rep, "conflicting_delimiters", &conflicts, |d, l| {
        l.eval();
        l.label("delims:conflicting");
        let mut t = tera::Tera::new();
        match guard(|| t.set_delimiters(d.tera()).is_ok()) {
            Ok(false) => Ok(()),
            Ok(true) => {
                let src = format!("a {} x {} b {} 1 {} c", d.cs, d.ce, d.vs, d.ve);
                let got = render(&src, d);
                Err(Fail::new("C08/conflicting-delimiters-accepted", format!("set_delimiters accepted {:?} although two start delimiters coincide; `{src}` then renders {}", d.json(), got.json()), json!({"kind": "conflict", "delimiters": d.json()})))
            }
            Err(p) => Err(Fail::new("C08/panic", p, json!({"kind": "conflict", "delimiters": d.json()}))),
        }
    });
    for (lab, min) in [("delims:conflicting", 100), ("marker-faces-whitespace", 100_000), ("has:raw", 100_000), ("has:comment", 100_000), ("has:tag-pair", 50_000), ("delims:custom", 50_000), ("delims:multibyte", 20_000), ("respelled", 30_000), ("plain", 50_000), ("plain:multibyte", 20_000), ("plain:partial-delimiter", 20_000)] {
        rep.floor(lab, min);
    }
}

pub fn replay(_rep: &Report, case: &serde_json::Value) -> Option<Check> {
    if case.get("kind").and_then(|x| x.as_str()) == Some("conflict") {
        let d = Delims::from_json(case.get("delimiters")?)?;
        let mut t = tera::Tera::new();
        return Some(if t.set_delimiters(d.tera()).is_ok() { Err(Fail::new("C08/conflicting-delimiters-accepted", format!("{:?} accepted", d.json()), case.clone())) } else { Ok(()) });
    }
    match case.get("kind")?.as_str()? {
        "ws" => {
            let d = Delims::from_json(case.get("delimiters")?)?;
            let src = case.get("source")?.as_str()?;
            let exp = case.get("expected")?.as_str()?;
            let got = render(src, &d);
            Some(if got == R::Ok(exp.to_string()) { Ok(()) } else { Err(Fail::new("C08/replay", format!("{:?}: expected {:?}, engine gave {}", src, exp, got.json()), case.clone())) })
        }
        _ => None,
    }
}
