//! C09 — Bytecode optimisation never changes what a template renders.
//! Uses the hooks of tera::verif (cfg tera_verif): per-thread switch for Chunk::optimize and the
//! recorder of instruction listings before/after the pass.
use crate::core::*;
use crate::expr::*;
use crate::exprgen;
use crate::mval::*;
use crate::stmt::*;
use proptest::prelude::*;
use proptest::strategy::Union;
use serde_json::json;

use super::c02::R;

fn bx(e: E) -> Box<E> {
    Box::new(e)
}
const ROOTS: &[&str] = &["a", "b", "c", "d", "xs"];
const FIELDS: &[&str] = &["x", "y", "z", "u", "list"];

/// an identifier path `root(.field)*` with optional `?.` steps
fn path() -> BoxedStrategy<E> {
    (prop::sample::select(ROOTS), prop::collection::vec((prop::sample::select(FIELDS), prop::bool::weighted(0.15)), 0..4))
        .prop_map(|(r, fs)| {
            let mut e = E::Var(r.to_string());
            for (f, opt) in fs {
                e = E::Attr(bx(e), f.to_string(), opt);
            }
            e
        })
        .boxed()
}
/// expressions in which paths sit next to jumps
fn pexpr(in_loop: bool) -> BoxedStrategy<E> {
    let leaf = prop_oneof![6 => path(), 1 => (0i64..3).prop_map(E::Int), 1 => Just(E::Str("s".into())), 1 => any::<bool>().prop_map(E::Bool), 1 => Just(E::Var("__tera_context".into())), if in_loop { 2 } else { 0 } => prop::sample::select(vec!["index", "first", "last"]).prop_map(E::Loop)];
    leaf.prop_recursive(3, 12, 3, |inner| {
        prop_oneof![
            4 => (inner.clone(), inner.clone(), any::<bool>()).prop_map(|(a, b, and)| E::Bin(if and { Bin::And } else { Bin::Or }, bx(a), bx(b))),
            4 => (inner.clone(), inner.clone(), inner.clone()).prop_map(|(c, a, b)| E::Ternary(bx(c), bx(a), bx(b))),
            2 => (inner.clone(), inner.clone()).prop_map(|(a, d)| E::Filter(bx(a), "default".into(), vec![("value".into(), d)])),
            1 => (inner.clone(), any::<bool>()).prop_map(|(a, neg)| E::Test(bx(a), "defined".into(), vec![], neg)),
            1 => inner.clone().prop_map(|a| E::Not(bx(a))),
            1 => (inner.clone(), inner.clone()).prop_map(|(a, b)| E::Bin(Bin::Concat, bx(a), bx(b))),
            1 => (inner.clone(), inner.clone()).prop_map(|(a, b)| E::Bin(Bin::Eq, bx(a), bx(b))),
            1 => (path(), inner.clone()).prop_map(|(p, i)| E::Index(bx(p), bx(i), false)),
            1 => (inner.clone(), path()).prop_map(|(elem, t)| E::Comp { elem: bx(elem), key: None, val: "e".into(), target: bx(t), cond: None }),
            1 => (path(), inner.clone(), path()).prop_map(|(elem, c, t)| E::Comp { elem: bx(elem), key: None, val: "e".into(), target: bx(t), cond: Some(bx(c)) }),
            1 => (inner.clone(), inner.clone()).prop_map(|(a, b)| E::Array(vec![Item::One(a), Item::One(b)])),
            1 => (path(), path()).prop_map(|(a, b)| E::Filter(bx(a), "replace".into(), vec![("from".into(), E::Str("s".into())), ("to".into(), b)])),
        ]
    })
    .prop_filter("limits", exprgen::within_limits)
    .boxed()
}
fn pbody(depth: u32, in_loop: bool, cap_in_loop: bool) -> BoxedStrategy<Vec<S>> {
    prop::collection::vec(pstmt(depth, in_loop, cap_in_loop), 0..4).boxed()
}
fn pstmt(depth: u32, in_loop: bool, cap_in_loop: bool) -> BoxedStrategy<S> {
    let mut opts: Vec<(u32, BoxedStrategy<S>)> = vec![
        (2, "[A-Z]".prop_map(S::Text).boxed()),
        (5, path().prop_map(S::Print).boxed()),
        (4, pexpr(in_loop).prop_map(S::Print).boxed()),
        (2, (prop::sample::select(ROOTS), pexpr(in_loop), any::<bool>()).prop_map(|(n, e, g)| S::Set { name: n.to_string(), e, global: g }).boxed()),
    ];
    if in_loop && !cap_in_loop {
        opts.push((3, prop_oneof![Just(S::Break), Just(S::Continue)].boxed()));
    }
    if depth > 0 {
        opts.push((5, (prop::collection::vec((pexpr(in_loop), pbody(depth - 1, in_loop, cap_in_loop)), 1..3), prop::option::of(pbody(depth - 1, in_loop, cap_in_loop))).prop_map(|(a, b)| S::If(a, b)).boxed()));
        opts.push((5, (prop::sample::select(vec!["e", "a", "xs"]), prop_oneof![3 => path(), 1 => pexpr(in_loop)], pbody(depth - 1, true, false), prop::option::of(pbody(depth - 1, in_loop, cap_in_loop))).prop_map(|(v, t, b, e)| S::For { key: None, val: v.to_string(), target: t, body: b, els: e.filter(|x| !x.is_empty()) }).boxed()));
        opts.push((1, (path(), pbody(depth - 1, true, false)).prop_map(|(t, b)| S::For { key: Some("k".into()), val: "e".into(), target: t, body: b, els: None }).boxed()));
        opts.push((2, (prop::sample::select(ROOTS), pbody(depth - 1, in_loop, in_loop)).prop_map(|(n, b)| S::SetBlock { name: n.to_string(), filters: vec![("upper".into(), vec![])], body: b, global: false }).boxed()));
        opts.push((2, (pbody(depth - 1, in_loop, in_loop), path()).prop_map(|(b, p)| S::Filter { name: "replace".into(), kwargs: vec![("from".into(), E::Str("A".into())), ("to".into(), E::Filter(bx(p), "default".into(), vec![("value".into(), E::Str("-".into()))]))], body: b }).boxed()));
    }
    Union::new_weighted(opts).boxed()
}

fn pvalue(depth: u32) -> BoxedStrategy<MVal> {
    let leaf = prop_oneof![3 => (0i128..3).prop_map(MVal::Int), 2 => Just(MVal::s("s<")), 1 => Just(MVal::None), 1 => Just(MVal::Bool(false)), 1 => Just(MVal::s("")), 1 => Just(MVal::Array(vec![]))];
    if depth == 0 {
        return leaf.boxed();
    }
    let inner = pvalue(depth - 1);
    prop_oneof![
        2 => leaf,
        5 => prop::collection::vec((prop::sample::select(FIELDS), prop_oneof![6 => inner.clone(), 1 => Just(MVal::Undefined)]), 0..5).prop_map(|v| MVal::Map(v.into_iter().map(|(k, v)| (MKey::Str(k.to_string()), v)).collect())),
        2 => prop::collection::vec(inner, 0..3).prop_map(MVal::Array),
    ]
    .boxed()
}
fn pctx() -> BoxedStrategy<Ctx> {
    prop::collection::vec(prop::option::weighted(0.85, pvalue(3)), ROOTS.len()).prop_map(|v| v.into_iter().enumerate().filter_map(|(i, x)| x.filter(|x| !x.is_undefined()).map(|x| (ROOTS[i].to_string(), x))).collect()).boxed()
}

/// contexts in which the outcome of every template is specified (no dependence on the iteration order of maps):
/// decided with the reference interpreter, which is used here as a filter only, not as an oracle
pub fn specified_contexts(tpls: &[(&str, &Vec<S>)], ctxs: &[Ctx], l: &mut Local) -> Vec<Ctx> {
    let mut map = std::collections::BTreeMap::new();
    for (n, b) in tpls {
        map.insert(n.to_string(), Tpl { body: (*b).clone(), autoescape: n.ends_with(".html"), ..Default::default() });
    }
    let comps = std::collections::BTreeMap::new();
    let w = World { templates: &map, components: &comps, escape: escape_html, autoescape_override: None, sorted_map_loops: false };
    ctxs.iter().filter(|c| {
        let ok = tpls.iter().all(|(n, _)| model_render(&w, n, c, None, None).is_some());
        if !ok {
            l.discard();
        }
        ok
    }).cloned().collect()
}

// ---------------------------------------------------------------------------------------------
// listings

#[derive(Debug, Clone, PartialEq)]
struct Ins {
    text: String,
    name: String,
    jump: Option<usize>,
    strs: Vec<String>,
}
fn parse_listing(l: &str) -> Vec<Ins> {
    let mut out: Vec<Ins> = vec![];
    for line in l.lines().skip(1) {
        // the index is zero-padded to four digits and simply grows beyond that for chunks of 10 000 instructions and more
        let digits = line.bytes().take_while(|b| b.is_ascii_digit()).count();
        let is_new = digits >= 4 && line.len() > digits + 1 && line.as_bytes()[digits] == b' ' && line[..digits].parse::<usize>().ok() == Some(out.len());
        if !is_new {
            if let Some(last) = out.last_mut() {
                last.text.push('\n');
                last.text.push_str(line);
            }
            continue;
        }
        let text = line[digits + 1..].to_string();
        let name: String = text.chars().take_while(|c| c.is_alphanumeric()).collect();
        let jump = if matches!(name.as_str(), "Jump" | "PopJumpIfFalse" | "JumpIfFalseOrPop" | "JumpIfTrueOrPop" | "Iterate") { text[name.len()..].trim_matches(|c| c == '(' || c == ')').parse().ok() } else { None };
        let strs = if matches!(name.as_str(), "LoadName" | "LoadAttr" | "LoadPath" | "WritePath") { text.split('"').skip(1).step_by(2).map(|s| s.to_string()).collect() } else { vec![] };
        out.push(Ins { text, name, jump, strs });
    }
    out
}

/// the structural claim: optimised = original with only `LoadName LoadAttr* [WriteTop]` groups merged,
/// no absorbed instruction (other than the first of a group) is a jump target, every jump lands on the image of its target
fn check_structure(name: &str, before: &str, after: &str) -> Result<(bool, bool), String> {
    let b = parse_listing(before);
    let a = parse_listing(after);
    let mut target = vec![false; b.len() + 1];
    for i in &b {
        if let Some(t) = i.jump {
            if t > b.len() {
                return Err(format!("{name}: original jump target {t} out of range"));
            }
            target[t] = true;
        }
    }
    let mut map = vec![usize::MAX; b.len() + 1];
    let (mut i, mut j) = (0usize, 0usize);
    let mut fused = false;
    let mut jump_adjacent = false;
    while j < a.len() {
        if i >= b.len() {
            return Err(format!("{name}: optimised listing is longer than the original explains (at {j}: {})", a[j].text));
        }
        let ins = &a[j];
        if ins.name == "LoadPath" || ins.name == "WritePath" {
            let n = ins.strs.len();
            if n == 0 {
                return Err(format!("{name}: empty path at {j}"));
            }
            if b[i].name != "LoadName" || b[i].strs.first() != ins.strs.first() {
                return Err(format!("{name}: {} at {j} does not start from LoadName({:?}) (original {i}: {})", ins.text, ins.strs[0], b[i].text));
            }
            if b[i].strs[0] == "__tera_context" {
                return Err(format!("{name}: the magic context variable was fused at {j}"));
            }
            map[i] = j;
            let start = i;
            i += 1;
            for k in 1..n {
                if i >= b.len() || b[i].name != "LoadAttr" || b[i].strs.first() != ins.strs.get(k) {
                    return Err(format!("{name}: {} at {j}: original {i} is not LoadAttr({:?})", ins.text, ins.strs.get(k)));
                }
                if target[i] {
                    return Err(format!("{name}: {} at {j} absorbs original instruction {i} which is a jump target", ins.text));
                }
                map[i] = j;
                i += 1;
            }
            if ins.name == "WritePath" {
                if i >= b.len() || b[i].name != "WriteTop" {
                    return Err(format!("{name}: {} at {j}: original {i} is not WriteTop", ins.text));
                }
                if target[i] {
                    return Err(format!("{name}: {} at {j} absorbs a WriteTop (original {i}) which is a jump target", ins.text));
                }
                map[i] = j;
                i += 1;
            } else if n == 1 {
                return Err(format!("{name}: LoadPath with a single element at {j}"));
            }
            fused = true;
            // a jump next to the group (before it, after it, or targeting its first instruction)
            if target[start] || target.get(i).copied().unwrap_or(false) || (start > 0 && b[start - 1].jump.is_some()) || b.get(i).map_or(false, |x| x.jump.is_some()) {
                jump_adjacent = true;
            }
        } else {
            let same = if ins.jump.is_some() { ins.name == b[i].name } else { ins.text == b[i].text };
            if !same {
                return Err(format!("{name}: instruction {j} `{}` differs from original {i} `{}`", ins.text, b[i].text));
            }
            map[i] = j;
            i += 1;
        }
        j += 1;
    }
    if i != b.len() {
        return Err(format!("{name}: original instructions from {i} on are missing in the optimised listing"));
    }
    map[b.len()] = a.len();
    for (bi, ins) in b.iter().enumerate() {
        if let Some(t) = ins.jump {
            let aj = &a[map[bi]];
            match aj.jump {
                Some(at) if at == map[t] => {}
                other => return Err(format!("{name}: jump `{}` at original {bi} pointed to {t} (image {}), optimised `{}` points to {:?}", ins.text, map[t], aj.text, other)),
            }
        }
    }
    Ok((fused, jump_adjacent))
}

fn build(tpls: &[(String, String)], optimize: bool, record: bool) -> Result<(tera::Tera, Vec<(String, String, String)>), String> {
    tera::verif::set_optimize(optimize);
    tera::verif::set_recording(record);
    let mut t = tera::Tera::new();
    let r = t.add_raw_templates(tpls.to_vec());
    let listings = tera::verif::take_listings();
    tera::verif::set_recording(false);
    tera::verif::set_optimize(true);
    r.map_err(|e| e.to_string())?;
    Ok((t, listings))
}
fn render(t: &tera::Tera, entry: &str, ctx: &tera::Context) -> R {
    match guard(|| match t.render(entry, ctx) {
        Ok(s) => R::Ok(s),
        Err(e) => {
            let _ = e.to_string();
            R::Err(first_line(&e.to_string()))
        }
    }) {
        Ok(r) => r,
        Err(p) => R::Panic(p),
    }
}

pub fn check_sources(tpls: &[(String, String)], entries: &[String], ctxs: &[Ctx], salt: u64, l: &mut Local) -> Check {
    let case = || json!({"kind": "onoff", "templates": tpls, "entries": entries, "contexts": ctxs.iter().map(ctx_to_json).collect::<Vec<_>>(), "salt": salt});
    let off = guard(|| build(tpls, false, false));
    let on = guard(|| build(tpls, true, true));
    l.eval();
    let (off, on) = match (off, on) {
        (Ok(a), Ok(b)) => (a, b),
        (a, b) => return Err(Fail::new("C09/panic-at-registration", format!("panic while registering: off={:?} on={:?}", a.err(), b.err()), case())),
    };
    let (t_off, (t_on, listings)) = match (off, on) {
        (Ok((a, _)), Ok(b)) => (a, b),
        (Err(_), Err(_)) => {
            l.label("rejected-both");
            return Ok(());
        }
        (a, b) => return Err(Fail::new("C09/acceptance-differs", format!("registration differs: pass off {:?}, pass on {:?}", a.err(), b.err()), case())),
    };
    // structure
    let mut any_fused = false;
    let mut any_adjacent = false;
    for (name, before, after) in &listings {
        match check_structure(name, before, after) {
            Ok((f, adj)) => {
                any_fused |= f;
                any_adjacent |= adj;
            }
            Err(why) => {
                let mut c = case();
                c["chunk"] = json!(name);
                c["before"] = json!(before);
                c["after"] = json!(after);
                return Err(Fail::new("C09/structure", why, c));
            }
        }
    }
    l.label_n("chunks-checked", listings.len() as u64);
    if listings.is_empty() {
        return Err(Fail::new("C09/hook", "no listing was recorded for an accepted template set".to_string(), case()));
    }
    // behaviour
    for (ci, ctx) in ctxs.iter().enumerate() {
        let tc = ctx_to_tera_enc(ctx, &Enc::new(salt));
        for e in entries {
            let a = render(&t_off, e, &tc);
            let b = render(&t_on, e, &tc);
            l.evals_n(2);
            let same = match (&a, &b) {
                (R::Ok(x), R::Ok(y)) => x == y,
                (R::Err(_), R::Err(_)) => true,
                _ => false,
            };
            if !same {
                let mut c = case();
                c["failing_entry"] = json!(e);
                c["failing_context"] = json!(ci);
                c["pass_off"] = a.json();
                c["pass_on"] = b.json();
                let sig = if matches!(a, R::Panic(_)) || matches!(b, R::Panic(_)) { "C09/panic" } else { "C09/behaviour-differs" };
                return Err(Fail::new(sig, format!("{:?} entry {e} ctx {}: pass off -> {}, pass on -> {}", tpls, ctx_to_json(ctx), a.json(), b.json()), c));
            }
            l.label(match a {
                R::Ok(_) => "render:ok",
                _ => "render:error",
            });
        }
    }
    if any_fused {
        l.label("set:fused");
    }
    if any_adjacent {
        l.label("set:fused-next-to-jump");
        l.nontrivial(hash_of(&tpls.to_vec()));
    }
    l.sample(|| json!({"template": tpls[0].1.chars().take(400).collect::<String>(), "listing_after": listings[0].2.lines().take(14).collect::<Vec<_>>()}));
    Ok(())
}

/// fixed shapes named in the property: every short-circuit / ternary / loop / branch shape whose jump
/// target falls next to a variable path
fn fixed_shapes() -> Vec<String> {
    let paths = ["a", "a.x", "a.x.y", "a.u", "b.zz.q", "a?.x", "a?.x.y", "a.x?.y", "__tera_context", "__tera_context.a"];
    let mut v = vec![];
    for p in paths {
        for q in ["b", "b.y", "c.x.z"] {
            v.push(format!("{{{{ {p} and {q} }}}}"));
            v.push(format!("{{{{ {p} or {q} }}}}"));
            v.push(format!("{{{{ false and {p} }}}}|{{{{ true or {p} }}}}|{{{{ {q} and {p} }}}}"));
            v.push(format!("{{{{ {p} if {q} else c }}}}"));
            v.push(format!("{{{{ c if {q} else {p} }}}}"));
            v.push(format!("{{{{ {p} if c else {q} }}}}"));
            v.push(format!("{{% if {q} %}}{{{{ {p} }}}}{{% endif %}}{{{{ {q} }}}}"));
            v.push(format!("{{% if {q} %}}X{{% else %}}{{{{ {p} }}}}{{% endif %}}"));
            v.push(format!("{{% if {q} %}}{{{{ {p} }}}}{{% elif {p} %}}{{{{ {q} }}}}{{% else %}}{{{{ {p} }}}}{{% endif %}}"));
            v.push(format!("{{% for e in xs %}}{{{{ {p} }}}}{{% endfor %}}{{{{ {q} }}}}"));
            v.push(format!("{{% for e in xs %}}{{{{ e.x }}}}{{% if {q} %}}{{% continue %}}{{% endif %}}{{{{ {p} }}}}{{% endfor %}}"));
            v.push(format!("{{% for e in xs %}}{{% if e.x %}}{{% break %}}{{% endif %}}{{{{ {p} }}}}{{% else %}}{{{{ {q} }}}}{{% endfor %}}{{{{ {p} }}}}"));
            v.push(format!("{{{{ [{p} for e in xs if {q}] }}}}"));
            v.push(format!("{{{{ [e.x for e in xs] }}}}{{{{ {p} }}}}{{{{ {q} }}}}"));
            v.push(format!("{{{{ {q} | default(value={p}) }}}}"));
            v.push(format!("{{% set s = {p} %}}{{{{ s }}}}{{% set_global g = {q} and {p} %}}{{{{ g }}}}"));
            v.push(format!("{{% filter upper %}}{{{{ {p} }}}}{{% endfilter %}}{{% set t %}}{{{{ {q} }}}}{{% endset %}}{{{{ t }}}}"));
            v.push(format!("{{{{ {p} is defined }}}}{{{{ {q} is not defined and {p} }}}}"));
            v.push(format!("{{{{ not {p} or {q} }}}}"));
        }
    }
    v
}
fn fixed_contexts() -> Vec<Ctx> {
    let full = MVal::smap(vec![("x", MVal::smap(vec![("y", MVal::Int(1)), ("z", MVal::None), ("u", MVal::Undefined)])), ("y", MVal::s("<s>")), ("u", MVal::Undefined), ("list", MVal::Array(vec![MVal::Int(1)]))]);
    let xs = MVal::Array(vec![MVal::smap(vec![("x", MVal::Int(0))]), MVal::smap(vec![("x", MVal::Int(1))]), MVal::smap(vec![])]);
    let mut out = vec![];
    for a in [Some(full.clone()), Some(MVal::None), Some(MVal::Int(3)), Some(MVal::smap(vec![])), Some(MVal::smap(vec![("x", MVal::None)])), None] {
        for b in [Some(full.clone()), Some(MVal::Bool(false)), None] {
            let mut c = Ctx::new();
            if let Some(a) = &a {
                c.insert("a".into(), a.clone());
            }
            if let Some(b) = &b {
                c.insert("b".into(), b.clone());
            }
            c.insert("c".into(), full.clone());
            c.insert("xs".into(), xs.clone());
            out.push(c);
        }
    }
    out
}

/// the structure walk reads the Debug listing of `Chunk`: make sure it still looks the way the reader expects before
/// judging anything with it (a change of that format is not a violation of C09)
fn listing_format_ok() -> Result<(), String> {
    tera::verif::set_recording(true);
    tera::verif::set_optimize(true);
    let mut t = tera::Tera::new();
    let r = t.add_raw_template("probe", "{{ a.b }}{% if c %}x{% endif %}");
    let listings = tera::verif::take_listings();
    tera::verif::set_recording(false);
    r.map_err(|e| e.to_string())?;
    let (_, before, _) = listings.iter().find(|(n, _, _)| n.contains("probe")).or(listings.first()).ok_or("no listing was recorded")?;
    let ins = parse_listing(before);
    let names: Vec<&str> = ins.iter().map(|i| i.name.as_str()).collect();
    let want = ["LoadName", "LoadAttr", "WriteTop", "LoadName", "PopJumpIfFalse"];
    if names.len() < want.len() || names[..want.len()] != want || ins[0].strs != ["a"] || ins[1].strs != ["b"] || ins[4].jump.is_none() {
        return Err(format!("the listing of `{{{{ a.b }}}}{{% if c %}}x{{% endif %}}` does not read as {:?}: {:?}", want, before));
    }
    Ok(())
}

pub fn run(rep: &Report) {
    if let Err(why) = guard(listing_format_ok).unwrap_or_else(|p| Err(p)) {
        rep.inconclusive(&format!("the instruction listing format is not the one the structure walk reads ({why}); structural claims not judged"));
        return;
    }
    rep.set_rule("every template set is registered twice on the same thread, once with the optimisation pass switched off (hook) and once with it on while the instruction listings before/after the pass are recorded (hook); (1) structure: a lock-step walk over both listings checks that the optimised chunk is the original with only `LoadName LoadAttr* [WriteTop]` groups replaced by LoadPath/WritePath with the same names, that no absorbed instruction other than the first of a group is a jump target, and that every jump lands on the image of its original target, for the main chunk and every block/component chunk; (2) behaviour: both registrations are rendered with the same contexts (each path position present, missing, none, explicit undefined or of a non-map kind) and must give the same text or both fail. Families: 570 fixed shapes x 18 contexts (exhaustive), generated path-heavy programs (and/or, ternaries, if/elif, loops with break/continue, comprehensions, kwargs, captures, ?. and __tera_context), the expression and statement generators of C02/C03. Non-trivial: a set whose optimised listing fuses a group adjacent to a jump; distinct by sources.");
    rep.assume("hooks are additive and cfg-guarded (tera/src/verif.rs); the listing is the Debug output of Chunk");
    for k in rep.known.clone() {
        if let Some(Err(f)) = replay(rep, &k.repro) {
            rep.fail(f);
        }
    }
    let shapes = fixed_shapes();
    let fctx = fixed_contexts();
    rep.extra("fixed_shapes", json!(shapes.len()));
    run_enum(rep, "fixed_shapes", &shapes, |src, l| check_sources(&[("t.html".to_string(), src.clone())], &["t.html".to_string()], &fctx, 0, l));
    let n = rep.tier.scale(120_000, 12);
    run_family(rep, "path_programs", n, || (pbody(3, false, false), pbody(1, false, false), prop::collection::vec(pctx(), 3), any::<u64>()), |(main, inc, ctxs, salt), l| {
        let mut m = main.clone();
        m.push(S::Include("inc".into()));
        let ctxs = &specified_contexts(&[("inc", inc), ("main.html", &m)], ctxs, l);
        check_sources(&[("inc".to_string(), print_body(inc)), ("main.html".to_string(), print_body(&m))], &["main.html".to_string(), "inc".to_string()], ctxs, *salt, l)
    });
    run_family(rep, "path_expressions", n, || (pexpr(false), prop::collection::vec(pctx(), 4), any::<u64>(), any::<u64>()), |(e, ctxs, noise, salt), l| {
        let ctxs = &ctxs.iter().filter(|c| eval_print(e, *c).is_some()).cloned().collect::<Vec<_>>();
        let src = format!("{{{{ {} }}}}|{{% if {} %}}T{{% endif %}}", print(e, Mode::Noisy(*noise)), print(e, Mode::Minimal));
        check_sources(&[("t".to_string(), src)], &["t".to_string()], ctxs, *salt, l)
    });
    run_family(rep, "c02_expressions", n, || (exprgen::expr_strategy(4, exprgen::GenOpts::default()), prop::collection::vec(exprgen::ctx_strategy(), 2), any::<u64>()), |(e, ctxs, salt), l| {
        let ctxs = &ctxs.iter().filter(|c| eval_print(e, *c).is_some()).cloned().collect::<Vec<_>>();
        check_sources(&[("t".to_string(), format!("{{{{ {} }}}}", print(e, Mode::Minimal)))], &["t".to_string()], ctxs, *salt, l)
    });
    run_family(rep, "c03_programs", n / 2, || (crate::stmtgen::body(3, false, false, crate::stmtgen::SOpts { includes: &["inc1"] }), crate::stmtgen::body(1, false, false, crate::stmtgen::SOpts { includes: &[] }), crate::stmtgen::ctxs(), any::<u64>()), |(main, inc, (ctx, _), salt), l| {
        let (inc, main) = (crate::stmtgen::with_obs(inc.clone(), false), crate::stmtgen::with_obs(main.clone(), false));
        let ctxs = specified_contexts(&[("inc1", &inc), ("main.html", &main)], &[ctx.clone()], l);
        check_sources(&[("inc1".to_string(), print_body(&inc)), ("main.html".to_string(), print_body(&main))], &["main.html".to_string()], &ctxs, *salt, l)
    });
    // inheritance and components: block and component chunks go through the pass too
    let inh: Vec<(String, String)> = vec![
        ("base.html".into(), "{% block a %}{{ a.x }}{% block b %}{{ a and b.y }}{% endblock %}{% endblock %}{% component c(v, w=1) %}{{ v.x or w }}{{ v.x.y if w else v }}{% endcomponent c %}".into()),
        ("child.html".into(), "{% extends \"base.html\" %}{% block b %}{{ super() }}{{ b.y if a.x else c.x.z }}{{ <c v={a} /> }}{% endblock %}".into()),
    ];
    run_enum(rep, "inheritance_and_components", &[inh], |tpls, l| check_sources(tpls, &["base.html".to_string(), "child.html".to_string()], &fctx, 0, l));
    for (lab, min) in [("set:fused", 50_000), ("set:fused-next-to-jump", 20_000), ("render:ok", 100_000), ("render:error", 50_000), ("chunks-checked", 100_000)] {
        rep.floor(lab, min);
    }
}

pub fn replay(_rep: &Report, case: &serde_json::Value) -> Option<Check> {
    let mut l = Local::new();
    match case.get("kind")?.as_str()? {
        "onoff" => {
            let tpls: Vec<(String, String)> = case.get("templates")?.as_array()?.iter().map(|p| Some((p.get(0)?.as_str()?.to_string(), p.get(1)?.as_str()?.to_string()))).collect::<Option<_>>()?;
            let entries: Vec<String> = case.get("entries")?.as_array()?.iter().filter_map(|x| x.as_str().map(|s| s.to_string())).collect();
            let ctxs: Vec<Ctx> = case.get("contexts")?.as_array()?.iter().map(ctx_from_json).collect::<Option<_>>()?;
            Some(check_sources(&tpls, &entries, &ctxs, case.get("salt").and_then(|x| x.as_u64()).unwrap_or(0), &mut l))
        }
        _ => None,
    }
}
