//! C16 — Collection filters keep their contracts (sort, unique, group_by, nth, join, ...).
use crate::core::*;
use crate::gen::*;
use crate::mval::*;
use proptest::prelude::*;
use serde_json::json;
use std::cmp::Ordering;
use std::collections::BTreeMap;

const SEP: char = '\u{1}';

/// template fragment printing a value `e` with a kind tag, so that `1`, `"1"` and `1.0` differ
fn tagf(e: &str) -> String {
    format!("{{% if {e} is string %}}s{{% elif {e} is none %}}n{{% elif {e} is float %}}f{{% elif {e} is integer %}}i{{% elif {e} is bool %}}b{{% elif {e} is array %}}a{{% elif {e} is map %}}m{{% else %}}?{{% endif %}}:{{{{ {e} | str }}}}")
}
fn tag_model(v: &MVal) -> String {
    let t = match v {
        MVal::Str(..) => 's',
        MVal::None => 'n',
        MVal::Float(_) => 'f',
        MVal::Int(_) | MVal::Big(_) => 'i',
        MVal::Bool(_) => 'b',
        MVal::Array(_) => 'a',
        MVal::Map(_) => 'm',
        _ => '?',
    };
    format!("{}:{}", t, v.display())
}

fn engine() -> tera::Tera {
    let mut t = tera::Tera::new();
    let s = SEP;
    let v: Vec<(String, String)> = vec![
        ("sortp".into(), format!("{{% for e in xs | sort %}}{}{s}{{% endfor %}}", tagf("e"))),
        ("sorta".into(), "{% for e in xs | sort(attribute=attr) %}{{ e.t }},{% endfor %}".into()),
        ("uniq".into(), format!("{{% for e in xs | unique %}}{}{s}{{% endfor %}}", tagf("e"))),
        ("grp".into(), format!("{{% for key, items in xs | group_by(attribute=attr) %}}{}=[{{% for e in items %}}{{{{ e.t }}}},{{% endfor %}}]{s}{{% endfor %}}", tagf("key"))),
        ("rev2".into(), "{{ xs | reverse | reverse }}".into()),
        ("rev1".into(), format!("{{% for e in xs | reverse %}}{}{s}{{% endfor %}}", tagf("e"))),
        ("ident".into(), "{{ xs }}".into()),
        ("splitjoin".into(), "{{ s | split(pat=p) | join(sep=p) }}".into()),
        ("splitparts".into(), "{% for e in s | split(pat=p) %}{{ p in e }},{% endfor %}".into()),
        ("first".into(), format!("{{% set e = xs | first %}}{}", tagf("e"))),
        ("last".into(), format!("{{% set e = xs | last %}}{}", tagf("e"))),
        ("nth".into(), format!("{{% set e = xs | nth(n=n) %}}{}", tagf("e"))),
        ("len".into(), "{{ xs | length }}|{% for e in xs %}x{% endfor %}".into()),
        ("kvp".into(), format!("{{% set ks = m | keys %}}{{% set vs = m | values %}}{{% set ps = m | pairs %}}{{{{ ks | length }}}},{{{{ vs | length }}}},{{{{ ps | length }}}}|{{% for p in ps %}}{{{{ p[0] == ks[loop.index0] and p[1] == vs[loop.index0] and p | length == 2 }}}},{{% endfor %}}|{{% for p in ps %}}{{% set k = p[0] %}}{{% set w = p[1] %}}{}={}{s}{{% endfor %}}", tagf("k"), tagf("w"))),
        ("join".into(), "{{ xs | join(sep=p) }}".into()),
        ("join0".into(), "{{ xs | join }}".into()),
    ];
    t.add_raw_templates(v).expect("C16 templates");
    t
}
thread_local! {
    static ENGINE: tera::Tera = engine();
}
fn run_t(tpl: &str, binds: &[(&str, tera::Value)]) -> Out {
    let mut c = tera::Context::new();
    for (k, v) in binds {
        c.insert_value(k.to_string(), v.clone());
    }
    ENGINE.with(|t| match guard(|| t.render(tpl, &c).map_err(|e| err_text(&e))) {
        Ok(Ok(s)) => Out::Ok(s),
        Ok(Err(e)) => Out::Err(e),
        Err(p) => Out::Panic(p),
    })
}
fn sigp(base: &str, got: &Out) -> String {
    if matches!(got, Out::Panic(_)) {
        format!("C16/panic/{base}")
    } else {
        format!("C16/{base}")
    }
}

/// follow a dotted attribute path like the documentation describes (`name.1` indexes tuples/arrays)
pub fn get_path<'a>(v: &'a MVal, path: &str) -> Option<&'a MVal> {
    match v {
        MVal::Undefined => return None,
        MVal::None => return Some(v),
        _ => {}
    }
    let mut cur = v;
    for part in path.split('.') {
        match (part.parse::<usize>(), cur) {
            (Ok(i), MVal::Array(a)) => cur = a.get(i)?,
            (Ok(_), _) => return None,
            (Err(_), MVal::Map(m)) => cur = m.get(&MKey::Str(part.to_string()))?,
            _ => return None,
        }
    }
    Some(cur)
}

#[derive(Debug)]
pub enum SortExp {
    MustErr(&'static str),
    /// indices in the order a stable sort of the non-none keys gives, and indices of none keys in input order
    Ok { sorted_non_none: Vec<usize>, nones: Vec<usize> },
}
pub fn ref_sort_keys(keys: &[Option<&MVal>]) -> SortExp {
    if keys.iter().any(|k| k.is_none()) {
        return SortExp::MustErr("missing attribute");
    }
    let keys: Vec<&MVal> = keys.iter().map(|k| k.unwrap()).collect();
    let non: Vec<usize> = (0..keys.len()).filter(|i| !matches!(keys[*i], MVal::None)).collect();
    for a in 0..non.len() {
        for b in a + 1..non.len() {
            if lt_cmp(keys[non[a]], keys[non[b]]).is_none() {
                return SortExp::MustErr("incomparable keys");
            }
        }
    }
    let mut sorted = non.clone();
    sorted.sort_by(|a, b| lt_cmp(keys[*a], keys[*b]).unwrap());
    SortExp::Ok { sorted_non_none: sorted, nones: (0..keys.len()).filter(|i| matches!(keys[*i], MVal::None)).collect() }
}

fn split_segs(s: &str) -> Vec<String> {
    let mut v: Vec<String> = s.split(SEP).map(|x| x.to_string()).collect();
    v.pop();
    v
}

pub fn check_sort_plain(xs: &[MVal], salt: u64, l: &mut Local) -> Check {
    let arr = MVal::Array(xs.to_vec());
    let case = json!({"kind": "sort_plain", "xs": to_json(&arr), "salt": salt});
    let got = run_t("sortp", &[("xs", to_tera_enc(&arr, &Enc::new(salt)))]);
    l.eval();
    let keys: Vec<Option<&MVal>> = xs.iter().map(Some).collect();
    let exp = ref_sort_keys(&keys);
    let bad = |why: String| Err(Fail::new(sigp("sort", &got), format!("{} | sort: {why}; got {:?}", canon(&arr), got), case.clone()));
    match (&exp, &got) {
        (_, Out::Panic(_)) => return bad("panicked".into()),
        (SortExp::MustErr(w), Out::Ok(_)) => return bad(format!("must be refused ({w})")),
        (SortExp::MustErr(_), Out::Err(_)) => l.label("sort:refused"),
        (SortExp::Ok { .. }, Out::Err(_)) => return bad("all keys are mutually comparable, must sort".into()),
        (SortExp::Ok { sorted_non_none, nones }, Out::Ok(s)) => {
            let segs = split_segs(s);
            if segs.len() != xs.len() {
                return bad(format!("output has {} elements, input {}", segs.len(), xs.len()));
            }
            // projection on non-none elements must be exactly the stable order; nones all kept
            let non: Vec<&String> = segs.iter().filter(|x| !x.starts_with("n:")).collect();
            let expn: Vec<String> = sorted_non_none.iter().map(|i| tag_model(&xs[*i])).collect();
            if non.len() != expn.len() || non.iter().zip(&expn).any(|(a, b)| *a != b) {
                return bad(format!("non-none elements expected in stable order {:?}", expn));
            }
            if segs.len() - non.len() != nones.len() {
                return bad("none elements lost or invented".into());
            }
            if xs.len() >= 2 {
                l.label("sort:ok");
            }
            if !nones.is_empty() {
                l.label("sort:with-none");
            }
            if xs.len() >= 21 {
                l.label("sort:len>=21");
            }
            // ties between differently printed equal keys exercise stability
            if (0..xs.len()).any(|i| (i + 1..xs.len()).any(|j| eq(&xs[i], &xs[j]) && tag_model(&xs[i]) != tag_model(&xs[j]))) {
                l.label("sort:visible-tie");
            }
        }
    }
    l.nontrivial(hash_of(&(canon(&arr), salt, 1)));
    l.sample(|| json!({"template": "{% for e in xs | sort %}..{% endfor %}", "case": case.clone(), "observed": got.to_json()}));
    Ok(())
}

/// elements are maps {k: key (optional), t: tag}
pub fn check_sort_attr(keys: &[Option<MVal>], path: &str, salt: u64, l: &mut Local) -> Check {
    // build elements: attribute path `k`, `k.j` or `k.0`
    let wrap = |k: &MVal| -> MVal {
        match path {
            "k" => k.clone(),
            "k.j" => MVal::smap(vec![("j", k.clone())]),
            _ => MVal::Array(vec![k.clone(), MVal::Int(99)]),
        }
    };
    let elems: Vec<MVal> = keys.iter().enumerate().map(|(i, k)| {
        let mut e = vec![("t", MVal::Int(i as i128))];
        if let Some(k) = k {
            e.push(("k", wrap(k)));
        }
        MVal::smap(e)
    }).collect();
    let arr = MVal::Array(elems.clone());
    let case = json!({"kind": "sort_attr", "keys": keys.iter().map(|k| k.as_ref().map(to_json)).collect::<Vec<_>>(), "path": path, "salt": salt});
    let got = run_t("sorta", &[("xs", to_tera_enc(&arr, &Enc::new(salt))), ("attr", tera::Value::from(path))]);
    l.eval();
    let kref: Vec<Option<&MVal>> = elems.iter().map(|e| get_path(e, path)).collect();
    // an explicit undefined key cannot happen here (not generated)
    let exp = ref_sort_keys(&kref);
    let bad = |why: String| Err(Fail::new(sigp("sort-attribute", &got), format!("sort(attribute={path}) keys {:?}: {why}; got {:?}", keys.iter().map(|k| k.as_ref().map(canon)).collect::<Vec<_>>(), got), case.clone()));
    match (&exp, &got) {
        (_, Out::Panic(_)) => return bad("panicked".into()),
        (_, Out::Err(_)) if keys.is_empty() => return bad("empty input must sort".into()),
        (SortExp::MustErr(_), Out::Ok(_)) if keys.is_empty() => {}
        (SortExp::MustErr(w), Out::Ok(_)) => return bad(format!("must be refused ({w})")),
        (SortExp::MustErr(_), Out::Err(_)) => l.label("sorta:refused"),
        (SortExp::Ok { .. }, Out::Err(_)) => return bad("all keys present and mutually comparable, must sort".into()),
        (SortExp::Ok { sorted_non_none, nones }, Out::Ok(s)) => {
            let tags: Vec<usize> = s.split(',').filter(|x| !x.is_empty()).filter_map(|x| x.parse().ok()).collect();
            let mut perm = tags.clone();
            perm.sort();
            if perm != (0..keys.len()).collect::<Vec<_>>() {
                return bad(format!("output tags {:?} are not a permutation of the input", tags));
            }
            let is_none = |i: usize| nones.contains(&i);
            let non: Vec<usize> = tags.iter().copied().filter(|i| !is_none(*i)).collect();
            if non != *sorted_non_none {
                return bad(format!("expected stable order {:?} of the elements with a non-none key, got {:?}", sorted_non_none, non));
            }
            let nn: Vec<usize> = tags.iter().copied().filter(|i| is_none(*i)).collect();
            if nn != *nones {
                return bad(format!("elements with none keys must keep their input order {:?}, got {:?}", nones, nn));
            }
            if keys.len() >= 2 {
                l.label("sorta:ok");
            }
            if (0..keys.len()).any(|i| (i + 1..keys.len()).any(|j| matches!((&keys[i], &keys[j]), (Some(a), Some(b)) if eq(a, b)))) {
                l.label("sorta:tie");
            }
        }
    }
    l.label(&format!("sorta:path={path}"));
    l.nontrivial(hash_of(&(canon(&arr), salt, 2)));
    Ok(())
}

pub fn check_unique(xs: &[MVal], salt: u64, l: &mut Local) -> Check {
    let arr = MVal::Array(xs.to_vec());
    let got = run_t("uniq", &[("xs", to_tera_enc(&arr, &Enc::new(salt)))]);
    l.eval();
    let exp: String = super::c15::ref_unique(xs).iter().map(|v| format!("{}{}", tag_model(v), SEP)).collect();
    if got != Out::Ok(exp.clone()) {
        return Err(Fail::new(sigp("unique", &got), format!("{} | unique: expected {:?}, got {:?}", canon(&arr), exp, got), json!({"kind": "unique", "xs": to_json(&arr), "salt": salt})));
    }
    l.label("unique");
    Ok(())
}

pub fn check_group_by(keys: &[Option<MVal>], salt: u64, l: &mut Local) -> Check {
    let elems: Vec<MVal> = keys.iter().enumerate().map(|(i, k)| {
        let mut e = vec![("t", MVal::Int(i as i128))];
        if let Some(k) = k {
            e.push(("k", k.clone()));
        }
        MVal::smap(e)
    }).collect();
    let arr = MVal::Array(elems);
    let case = json!({"kind": "group_by", "keys": keys.iter().map(|k| k.as_ref().map(to_json)).collect::<Vec<_>>(), "salt": salt});
    let got = run_t("grp", &[("xs", to_tera_enc(&arr, &Enc::new(salt))), ("attr", tera::Value::from("k"))]);
    l.eval();
    let bad = |why: String| Err(Fail::new(sigp("group_by", &got), format!("group_by keys {:?}: {why}; got {:?}", keys.iter().map(|k| k.as_ref().map(canon)).collect::<Vec<_>>(), got), case.clone()));
    if matches!(got, Out::Panic(_)) {
        return bad("panicked".into());
    }
    let missing = keys.iter().any(|k| k.is_none());
    let unkeyable = keys.iter().flatten().any(|k| !matches!(k, MVal::None) && k.as_key().is_none());
    // stringified collisions ("1" vs 1): docs say keys are stringified, engine keeps them typed: not generated
    let mut groups: BTreeMap<MKey, Vec<usize>> = BTreeMap::new();
    for (i, k) in keys.iter().enumerate() {
        if let Some(k) = k {
            if let Some(key) = k.as_key() {
                groups.entry(key).or_default().push(i);
            }
        }
    }
    match &got {
        Out::Err(_) => {
            // justified only by a missing attribute (docs and MIGRATION disagree: discard or error) or a key that cannot be a map key
            if !(missing || unkeyable) {
                return bad("every attribute is present and usable as a key: must group".into());
            }
            l.label("group_by:refused");
        }
        Out::Ok(s) => {
            if unkeyable {
                return bad("a float/array/map attribute cannot key a group: expected an error".into());
            }
            if keys.is_empty() {
                if !s.is_empty() {
                    return bad("empty input must give no groups".into());
                }
                return Ok(());
            }
            let mut segs = split_segs(s);
            segs.sort();
            let mut exp: Vec<String> = groups.iter().map(|(k, idx)| format!("{}=[{}]", tag_model(&key_to_val(k)), idx.iter().map(|i| format!("{i},")).collect::<String>())).collect();
            exp.sort();
            if segs != exp {
                return bad(format!("expected groups {:?}", exp));
            }
            l.label("group_by:ok");
            if groups.values().any(|g| g.len() >= 2) {
                l.label("group_by:multi-element-group");
            }
            if keys.iter().flatten().any(|k| matches!(k, MVal::None)) {
                l.label("group_by:none-discarded");
            }
        }
        _ => unreachable!(),
    }
    l.nontrivial(hash_of(&(canon(&arr), salt, 3)));
    l.sample(|| json!({"template": "xs | group_by(attribute=\"k\")", "case": case.clone(), "observed": got.to_json()}));
    Ok(())
}

pub fn check_agreement(xs: &[MVal], n: usize, sep: &str, salt: u64, l: &mut Local) -> Check {
    let arr = MVal::Array(xs.to_vec());
    let t = to_tera_enc(&arr, &Enc::new(salt));
    let case = json!({"kind": "agreement", "xs": to_json(&arr), "n": n, "sep": sep, "salt": salt});
    let fail = |what: &str, exp: String, got: &Out| Err(Fail::new(sigp(what, got), format!("{what} on {}: expected {:?}, got {:?}", canon(&arr), exp, got), case.clone()));
    let ident = run_t("ident", &[("xs", t.clone())]);
    let rev2 = run_t("rev2", &[("xs", t.clone())]);
    if !ident.is_ok() || rev2 != ident {
        return fail("reverse-twice", format!("{:?}", ident), &rev2);
    }
    let exp: String = xs.iter().rev().map(|v| format!("{}{}", tag_model(v), SEP)).collect();
    let got = run_t("rev1", &[("xs", t.clone())]);
    if got != Out::Ok(exp.clone()) {
        return fail("reverse", exp, &got);
    }
    let pick = |i: Option<usize>| i.and_then(|i| xs.get(i)).map(tag_model).unwrap_or("n:".to_string());
    for (tpl, exp) in [("first", pick(Some(0))), ("last", pick(xs.len().checked_sub(1))), ("nth", pick(Some(n)))] {
        let got = run_t(tpl, &[("xs", t.clone()), ("n", tera::Value::from(n as u64))]);
        if got != Out::Ok(exp.clone()) {
            return fail(tpl, exp, &got);
        }
    }
    // positions that cannot exist (negative, far out of range, of another kind): no contract beyond "does not panic"
    for bad in [tera::Value::from(-(n as i64) - 1), tera::Value::from(i64::MIN), tera::Value::from(u64::MAX), tera::Value::from(i128::MIN), tera::Value::from(1.5), tera::Value::from("1")] {
        let got = run_t("nth", &[("xs", t.clone()), ("n", bad.clone())]);
        if let Out::Panic(p) = &got {
            return Err(Fail::new("C16/panic/nth", format!("{} | nth(n={}) panicked: {p}", canon(&arr), bad), case.clone()));
        }
        l.eval();
    }
    let exp = format!("{}|{}", xs.len(), "x".repeat(xs.len()));
    let got = run_t("len", &[("xs", t.clone())]);
    if got != Out::Ok(exp.clone()) {
        return fail("length", exp, &got);
    }
    let exp = xs.iter().map(|v| v.display()).collect::<Vec<_>>().join(sep);
    let got = run_t("join", &[("xs", t.clone()), ("p", tera::Value::from(sep))]);
    if got != Out::Ok(exp.clone()) {
        return fail("join", exp, &got);
    }
    let exp = xs.iter().map(|v| v.display()).collect::<Vec<_>>().join("");
    let got = run_t("join0", &[("xs", t.clone())]);
    if got != Out::Ok(exp.clone()) {
        return fail("join-default", exp, &got);
    }
    l.evals_n(9);
    l.label("agreement");
    if n < xs.len() {
        l.label("nth:in-range");
    } else {
        l.label("nth:out-of-range");
    }
    if xs.iter().any(|v| v.display().is_empty()) {
        l.label("join:empty-element");
    }
    Ok(())
}

pub fn check_split_join(s: &str, p: &str, l: &mut Local) -> Check {
    let got = run_t("splitjoin", &[("s", tera::Value::from(s)), ("p", tera::Value::from(p))]);
    l.eval();
    let case = json!({"kind": "split_join", "s": s, "p": p});
    if got != Out::Ok(s.to_string()) {
        return Err(Fail::new(sigp("split-join", &got), format!("{:?} | split(pat={:?}) | join(sep=same): got {:?}", s, p, got), case));
    }
    if !p.is_empty() {
        let got = run_t("splitparts", &[("s", tera::Value::from(s)), ("p", tera::Value::from(p))]);
        l.eval();
        match &got {
            Out::Ok(o) if o.split(',').filter(|x| !x.is_empty()).all(|x| x == "false") => {
                let parts = o.split(',').filter(|x| !x.is_empty()).count();
                if parts != s.matches(p).count() + 1 {
                    return Err(Fail::new("C16/split-count", format!("{:?} split on {:?} gave {parts} parts", s, p), case));
                }
                if parts > 1 {
                    l.label("split:multi");
                }
                if s.starts_with(p) || s.ends_with(p) || s.contains(&format!("{p}{p}")) {
                    l.label("split:empty-part");
                }
            }
            _ => return Err(Fail::new(sigp("split-parts", &got), format!("a part of {:?} split on {:?} contains the separator: {:?}", s, p, got), case)),
        }
    }
    Ok(())
}

pub fn check_kvp(m: &BTreeMap<MKey, MVal>, salt: u64, l: &mut Local) -> Check {
    let mv = MVal::Map(m.clone());
    let got = run_t("kvp", &[("m", to_tera_enc(&mv, &Enc::new(salt)))]);
    l.eval();
    let case = json!({"kind": "kvp", "m": to_json(&mv), "salt": salt});
    let bad = |why: String| Err(Fail::new(sigp("keys-values-pairs", &got), format!("keys/values/pairs of {}: {why}; got {:?}", canon(&mv), got), case.clone()));
    let Out::Ok(s) = &got else { return bad("must succeed".into()) };
    let parts: Vec<&str> = s.splitn(3, '|').collect();
    if parts.len() != 3 {
        return bad("unexpected output shape".into());
    }
    if parts[0] != format!("{0},{0},{0}", m.len()) {
        return bad(format!("lengths {} differ from the map size {}", parts[0], m.len()));
    }
    if !parts[1].split(',').filter(|x| !x.is_empty()).all(|x| x == "true") {
        return bad("pairs[i] != [keys[i], values[i]] at some position".into());
    }
    let mut segs = split_segs(parts[2]);
    segs.sort();
    let mut exp: Vec<String> = m.iter().map(|(k, v)| format!("{}={}", tag_model(&key_to_val(k)), tag_model(v))).collect();
    exp.sort();
    if segs != exp {
        return bad(format!("multiset of pairs differs: expected {:?}", exp));
    }
    l.label("kvp");
    if m.len() >= 2 {
        l.label("kvp:multi");
        l.nontrivial(hash_of(&(canon(&mv), salt, 4)));
    }
    Ok(())
}

fn key_strategy() -> BoxedStrategy<MVal> {
    // keys for sort/group_by: mostly mutually comparable within one draw is decided by the caller
    prop_oneof![
        4 => small_or_boundary_int().prop_map(MVal::Int),
        3 => float_pool().prop_map(MVal::Float),
        3 => str_pool().prop_map(|s| MVal::Str(s, false)),
        1 => any::<bool>().prop_map(MVal::Bool),
        2 => Just(MVal::None),
        1 => prop::collection::vec(small_or_boundary_int().prop_map(MVal::Int), 0..3).prop_map(MVal::Array),
        1 => prop::collection::vec(scalar(ValOpts { bytes: false, ..Default::default() }), 0..3).prop_map(MVal::Array),
        1 => Just(MVal::smap(vec![("q", MVal::Int(1))])),
    ]
    .boxed()
}
/// arrays whose elements are drawn from one *class* (so that sorting usually succeeds) with an
/// optional foreign element
fn keys_strategy(max: usize) -> BoxedStrategy<Vec<MVal>> {
    let class = prop_oneof![
        3 => prop::collection::vec(prop_oneof![3 => small_or_boundary_int().prop_map(MVal::Int), 2 => float_pool().prop_map(MVal::Float), 1 => any::<u128>().prop_map(MVal::uint)], 0..max),
        2 => prop::collection::vec(str_pool().prop_map(|s| MVal::Str(s, false)), 0..max),
        1 => prop::collection::vec(any::<bool>().prop_map(MVal::Bool), 0..max),
        2 => prop::collection::vec(prop::collection::vec((-2i128..3).prop_map(MVal::Int), 0..3).prop_map(MVal::Array), 0..max),
        2 => prop::collection::vec(key_strategy(), 0..max),
    ];
    (class, prop::collection::vec((any::<u16>(), prop_oneof![3 => Just(MVal::None), 1 => key_strategy()]), 0..3)).prop_map(|(mut v, ins)| {
        for (pos, x) in ins {
            let at = (pos as usize * (v.len() + 1)) >> 16;
            v.insert(at, x);
        }
        v
    }).boxed()
}

pub fn run(rep: &Report) {
    rep.set_rule("arrays of 0..60 generated elements (one kind class plus inserted none/foreign elements; integers in random encodings, floats incl. NaN, strings, bools, nested arrays, maps) through `sort`, `sort(attribute=)` with paths k / k.j / k.0 on tagged elements, `unique`, `group_by`, and the agreement laws reverse/first/last/nth/length/join/split/keys/values/pairs, all observed through templates that print every element with a kind tag. Oracles: sort = refusal iff a missing attribute or two non-none keys incomparable in the reference order, otherwise the exact stable permutation (none keys kept in input order, their position not judged); unique = first occurrences of the reference equality classes; group_by = exact partition by typed key. Non-trivial: array with >= 2 elements; distinct by canonical input + encoding salt.");
    rep.assume("group_by with a missing attribute may discard (documentation) or refuse (MIGRATION.md, code): both accepted; inputs whose keys collide once stringified are not generated; explicit undefined elements are not generated");
    for k in rep.known.clone() {
        if let Some(Err(f)) = replay(rep, &k.repro) {
            rep.fail(f);
        }
    }
    let n = rep.tier.scale(360_000, 10);
    run_family(rep, "sort_plain", n, || (prop_oneof![4 => keys_strategy(14), 1 => keys_strategy(60)], any::<u64>()), |(xs, salt), l| {
        check_sort_plain(xs, *salt, l)?;
        check_unique(xs, *salt, l)
    });
    run_family(rep, "sort_attribute", n, || (prop_oneof![4 => keys_strategy(14), 1 => keys_strategy(40)], prop::collection::vec(any::<u16>(), 0..2), prop_oneof![Just("k"), Just("k.j"), Just("k.0")], any::<u64>()), |(ks, drop, path, salt), l| {
        let mut keys: Vec<Option<MVal>> = ks.iter().cloned().map(Some).collect();
        for d in drop {
            if !keys.is_empty() && d % 4 == 0 {
                let at = (*d as usize * keys.len()) >> 16;
                keys[at] = None;
            }
        }
        check_sort_attr(&keys, path, *salt, l)
    });
    run_family(rep, "group_by", n, || (prop::collection::vec(prop_oneof![8 => prop_oneof![(-2i128..3).prop_map(MVal::Int), (0usize..4).prop_map(|i| MVal::s(["x", "y", "", "é"][i])), any::<bool>().prop_map(MVal::Bool), Just(MVal::None), small_or_boundary_int().prop_map(MVal::Int)].prop_map(Some), 1 => Just(None), 1 => prop_oneof![Just(MVal::Float(1.5)), Just(MVal::Array(vec![]))].prop_map(Some)], 0..14), any::<u64>(), any::<bool>()), |(keys, salt, clean), l| {
        let keys: Vec<Option<MVal>> = if *clean { keys.iter().filter(|k| matches!(k, Some(x) if x.as_key().is_some() || matches!(x, MVal::None))).cloned().collect() } else { keys.clone() };
        check_group_by(&keys, *salt, l)
    });
    run_family(rep, "agreement", n, || (prop::collection::vec(prop_oneof![2 => scalar(ValOpts { bytes: false, ..Default::default() }), 1 => value(ValOpts { depth: 2, max_len: 3, bytes: false, ..Default::default() })], 0..10), 0usize..12, str_pool(), any::<u64>()), |(xs, nth, sep, salt), l| check_agreement(xs, *nth, sep, *salt, l));
    run_family(rep, "split_join", n, || (prop::collection::vec(prop_oneof![3 => Just("a".to_string()), 3 => Just(",".to_string()), 1 => Just("ab".to_string()), 1 => Just("é".to_string()), 1 => Just(" ".to_string()), 1 => any::<char>().prop_map(|c| c.to_string())], 0..12).prop_map(|v| v.concat()), prop_oneof![3 => Just(",".to_string()), 2 => Just("a".to_string()), 1 => Just("ab".to_string()), 1 => Just(",,".to_string()), 1 => Just("".to_string()), 1 => Just("é".to_string()), 1 => any::<char>().prop_map(|c| c.to_string())]), |(s, p), l| check_split_join(s, p, l));
    run_family(rep, "keys_values_pairs", rep.tier.scale(180_000, 10), || (prop::collection::vec((key_pool(), scalar(ValOpts { bytes: false, ..Default::default() })), 0..12), any::<u64>()), |(e, salt), l| check_kvp(&e.iter().cloned().collect(), *salt, l));
    for (lab, min) in [("sort:ok", 20_000), ("sort:refused", 10_000), ("sort:with-none", 5_000), ("sort:len>=21", 2_000), ("sort:visible-tie", 2_000), ("sorta:ok", 20_000), ("sorta:refused", 10_000), ("sorta:tie", 10_000), ("sorta:path=k.0", 10_000), ("group_by:ok", 20_000), ("group_by:multi-element-group", 10_000), ("group_by:none-discarded", 5_000), ("group_by:refused", 5_000), ("nth:in-range", 10_000), ("nth:out-of-range", 10_000), ("join:empty-element", 5_000), ("split:multi", 10_000), ("split:empty-part", 10_000), ("kvp:multi", 10_000)] {
        rep.floor(lab, min);
    }
}

pub fn replay(_rep: &Report, case: &serde_json::Value) -> Option<Check> {
    let mut l = Local::new();
    let u = |k: &str| case.get(k).and_then(|x| x.as_u64());
    let arr = |k: &str| match from_json(case.get(k)?)? {
        MVal::Array(a) => Some(a),
        _ => None,
    };
    let keys = || -> Option<Vec<Option<MVal>>> { case.get("keys")?.as_array()?.iter().map(|k| if k.is_null() { Some(None) } else { from_json(k).map(Some) }).collect() };
    match case.get("kind")?.as_str()? {
        "sort_plain" => Some(check_sort_plain(&arr("xs")?, u("salt")?, &mut l)),
        "unique" => Some(check_unique(&arr("xs")?, u("salt")?, &mut l)),
        "sort_attr" => Some(check_sort_attr(&keys()?, case.get("path")?.as_str()?, u("salt")?, &mut l)),
        "group_by" => Some(check_group_by(&keys()?, u("salt")?, &mut l)),
        "agreement" => Some(check_agreement(&arr("xs")?, u("n")? as usize, case.get("sep")?.as_str()?, u("salt")?, &mut l)),
        "split_join" => Some(check_split_join(case.get("s")?.as_str()?, case.get("p")?.as_str()?, &mut l)),
        "kvp" => match from_json(case.get("m")?)? {
            MVal::Map(m) => Some(check_kvp(&m, u("salt")?, &mut l)),
            _ => None,
        },
        _ => None,
    }
}
