//! C02 — Expressions follow the documented operators, precedence and undefined rules.
use crate::core::*;
use crate::expr::*;
use crate::exprgen::*;
use crate::mval::*;
use proptest::prelude::*;
use serde_json::json;

#[derive(Debug, Clone, PartialEq)]
pub enum R {
    Ok(String),
    /// rendering error
    Err(String),
    Syntax(String),
    Panic(String),
}
impl R {
    pub fn json(&self) -> serde_json::Value {
        match self {
            R::Ok(s) => json!({"ok": s}),
            R::Err(s) => json!({"render_error": first_line(s)}),
            R::Syntax(s) => json!({"syntax_error": first_line(s)}),
            R::Panic(s) => json!({"panic": s}),
        }
    }
}

pub fn render_src(src: &str, ctx: &tera::Context, autoescape: bool) -> R {
    match guard(|| {
        let mut t = tera::Tera::new();
        match t.render_str(src, ctx, autoescape) {
            Ok(s) => R::Ok(s),
            Err(e) => {
                let txt = e.to_string();
                match e.kind() {
                    tera::ErrorKind::SyntaxError(_) => R::Syntax(txt),
                    _ => R::Err(txt),
                }
            }
        }
    }) {
        Ok(r) => r,
        Err(p) => R::Panic(p),
    }
}

fn ops_in(e: &E, out: &mut std::collections::BTreeSet<u8>, flags: &mut (bool, bool)) {
    // flags: (poison present, undefined-tolerant construct present)
    let mut kw = |k: &Vec<(String, E)>, out: &mut std::collections::BTreeSet<u8>, flags: &mut (bool, bool)| {
        for (_, x) in k {
            ops_in(x, out, flags)
        }
    };
    match e {
        E::Bin(op, l, r) => {
            out.insert(op.level());
            if *op == Bin::Div && **r == E::Int(0) {
                flags.0 = true;
            }
            ops_in(l, out, flags);
            ops_in(r, out, flags);
        }
        E::Not(x) => {
            out.insert(3);
            ops_in(x, out, flags)
        }
        E::Neg(x) => {
            out.insert(10);
            ops_in(x, out, flags)
        }
        E::Test(x, n, k, _) => {
            out.insert(4);
            if n == "defined" || n == "undefined" {
                flags.1 = true;
            }
            ops_in(x, out, flags);
            kw(k, out, flags)
        }
        E::Filter(x, n, k) => {
            out.insert(9);
            if n == "default" {
                flags.1 = true;
            }
            ops_in(x, out, flags);
            kw(k, out, flags)
        }
        E::Ternary(c, a, b) => {
            out.insert(0);
            ops_in(c, out, flags);
            ops_in(a, out, flags);
            ops_in(b, out, flags)
        }
        E::Attr(b, _, opt) => {
            if *opt {
                flags.1 = true;
            }
            ops_in(b, out, flags)
        }
        E::Index(b, i, opt) => {
            if *opt {
                flags.1 = true;
            }
            ops_in(b, out, flags);
            ops_in(i, out, flags)
        }
        E::Slice(b, s, t, st, _) => {
            ops_in(b, out, flags);
            for x in [s, t, st].into_iter().flatten() {
                ops_in(x, out, flags)
            }
        }
        E::Array(items) => {
            for i in items {
                match i {
                    Item::One(x) | Item::Spread(x) => ops_in(x, out, flags),
                }
            }
        }
        E::Map(en) => {
            for i in en {
                match i {
                    Entry::Kv(_, x) | Entry::Spread(x) => ops_in(x, out, flags),
                }
            }
        }
        E::Comp { elem, target, cond, .. } => {
            out.insert(12);
            ops_in(elem, out, flags);
            ops_in(target, out, flags);
            if let Some(c) = cond {
                ops_in(c, out, flags)
            }
        }
        E::Call(n, k) => {
            if n == "throw" {
                flags.0 = true;
            }
            kw(k, out, flags)
        }
        _ => {}
    }
}

fn label_constructs(e: &E, l: &mut Local) {
    fn go(e: &E, l: &mut Local) {
        let mut kw = |k: &Vec<(String, E)>, l: &mut Local| {
            for (_, x) in k {
                go(x, l)
            }
        };
        match e {
            E::Bin(op, a, b) => {
                l.label(&format!("op:{}", op.sym()));
                go(a, l);
                go(b, l)
            }
            E::Not(x) => {
                l.label("op:not");
                go(x, l)
            }
            E::Neg(x) => {
                l.label("op:neg");
                go(x, l)
            }
            E::Test(x, n, k, neg) => {
                l.label(if *neg { "form:is-not" } else { "form:is" });
                l.label(&format!("test:{n}"));
                go(x, l);
                kw(k, l)
            }
            E::Filter(x, n, k) => {
                l.label(&format!("filter:{n}"));
                go(x, l);
                kw(k, l)
            }
            E::Ternary(c, a, b) => {
                l.label("form:ternary");
                go(c, l);
                go(a, l);
                go(b, l)
            }
            E::Attr(b, _, opt) => {
                l.label(if *opt { "form:?." } else { "form:." });
                go(b, l)
            }
            E::Index(b, i, opt) => {
                l.label(if *opt { "form:?[" } else { "form:[]" });
                go(b, l);
                go(i, l)
            }
            E::Slice(b, s, t, st, _) => {
                l.label("form:slice");
                go(b, l);
                for x in [s, t, st].into_iter().flatten() {
                    go(x, l)
                }
            }
            E::Array(items) => {
                l.label("form:array-literal");
                for i in items {
                    match i {
                        Item::One(x) => go(x, l),
                        Item::Spread(x) => {
                            l.label("form:array-spread");
                            go(x, l)
                        }
                    }
                }
            }
            E::Map(en) => {
                l.label("form:map-literal");
                for i in en {
                    match i {
                        Entry::Kv(_, x) => go(x, l),
                        Entry::Spread(x) => {
                            l.label("form:map-spread");
                            go(x, l)
                        }
                    }
                }
            }
            E::Comp { elem, target, cond, key, .. } => {
                l.label("form:comprehension");
                if key.is_some() {
                    l.label("form:comprehension-kv");
                }
                if cond.is_some() {
                    l.label("form:comprehension-if");
                }
                go(elem, l);
                go(target, l);
                if let Some(c) = cond {
                    go(c, l)
                }
            }
            E::Call(n, k) => {
                l.label(&format!("fn:{n}"));
                kw(k, l)
            }
            _ => {}
        }
    }
    if l.frozen {
        return;
    }
    go(e, l)
}

pub fn case_json(e: &E, ctx: &Ctx, noise: u64, salt: u64) -> serde_json::Value {
    json!({"kind": "expr", "minimal": format!("{{{{ {} }}}}", print(e, Mode::Minimal)), "full": format!("{{{{ {} }}}}", print(e, Mode::Full)), "noisy": format!("{{{{ {} }}}}", print(e, Mode::Noisy(noise))), "context": ctx_to_json(ctx), "salt": salt, "ast": format!("{:?}", e)})
}

/// Renders `e` in the three spellings and compares with the reference evaluation.
pub fn check_tree(e: &E, ctx: &Ctx, noise: u64, salt: u64, l: &mut Local) -> Check {
    let exp = match eval_print(e, ctx) {
        Some(x) => x,
        None => {
            l.discard();
            return Ok(());
        }
    };
    let tctx = ctx_to_tera_enc(ctx, &Enc::new(salt));
    let spellings = [("minimal", print(e, Mode::Minimal)), ("full", print(e, Mode::Full)), ("noisy", print(e, Mode::Noisy(noise)))];
    for (which, sp) in &spellings {
        let src = format!("{{{{ {} }}}}", sp);
        let got = render_src(&src, &tctx, false);
        l.eval();
        let verdict = match (&exp, &got) {
            (Ok(t), R::Ok(s)) if t == s => None,
            (Err(()), R::Err(_)) => None,
            (_, R::Panic(_)) => Some("C02/panic"),
            (_, R::Syntax(_)) => Some("C02/well-formed-expression-rejected"),
            (Ok(_), R::Ok(_)) => Some("C02/wrong-value"),
            (Ok(_), R::Err(_)) => Some("C02/expected-value-got-error"),
            (Err(()), R::Ok(_)) => Some("C02/expected-error-got-value"),
        };
        if let Some(sig) = verdict {
            let mut case = case_json(e, ctx, noise, salt);
            case["failing_spelling"] = json!(which);
            case["source"] = json!(src);
            case["expected"] = json!(match &exp {
                Ok(t) => json!({"ok": t}),
                Err(()) => json!("render error"),
            });
            case["observed"] = got.json();
            return Err(Fail::new(sig, format!("{src} ({which} spelling) with {}: expected {:?}, engine gave {:?}", ctx_to_json(ctx), exp, got.json().to_string()), case));
        }
    }
    l.label(if exp.is_ok() { "outcome:value" } else { "outcome:error" });
    let mut ops = std::collections::BTreeSet::new();
    let mut flags = (false, false);
    ops_in(e, &mut ops, &mut flags);
    label_constructs(e, l);
    let differs = spellings[0].1 != spellings[1].1;
    if differs {
        l.label("spelling:parentheses-matter");
    }
    if flags.0 {
        l.label("has:poison");
        if exp.is_ok() {
            l.label("has:poison-not-evaluated");
        }
    }
    if flags.1 {
        l.label("has:undefined-tolerant-construct");
    }
    if differs || flags.0 || flags.1 || ops.len() >= 2 {
        l.nontrivial(hash_of(&(spellings[0].1.clone(), ctx_to_json(ctx).to_string())));
    }
    l.sample(|| json!({"source": format!("{{{{ {} }}}}", spellings[0].1), "noisy": format!("{{{{ {} }}}}", spellings[2].1), "expected": format!("{:?}", exp)}));
    Ok(())
}

// ---------------------------------------------------------------------------------------------
// enumerated families

fn operand_pool() -> Vec<E> {
    let a = |v: Vec<E>| E::Array(v.into_iter().map(Item::One).collect());
    vec![
        E::Int(0), E::Int(1), E::Int(2), E::Int(3), E::Int(5), E::Int(7), E::Float(0.5), E::Float(2.0), E::Float(0.1), E::Float(0.2), E::Float(0.3), E::Str("".into()), E::Str("a".into()), E::Str("ab".into()), E::Str("b".into()), E::Str("2".into()),
        E::Bool(true), E::Bool(false), E::None, a(vec![]), a(vec![E::Int(1)]), a(vec![E::Int(1), E::Int(2)]), a(vec![E::Str("a".into())]), a(vec![E::Bool(true)]), a(vec![E::Bool(false), E::Int(0)]),
    ]
}
fn bx(e: E) -> Box<E> {
    Box::new(e)
}
fn res(e: &E) -> Option<Result<String, ()>> {
    eval_print(e, &Ctx::new())
}

/// Pairs of trees that spell the same token sequence up to parentheses; `make(x, y, z)` builds both.
/// For every pair the operand pool is searched for triples on which the two trees give different
/// results; the engine must agree with the reference on both trees for those operands.
fn discriminating_pairs() -> Vec<(String, E, E)> {
    let pool = operand_pool();
    let mut out = vec![];
    let mut push_pair = |name: String, make: &dyn Fn(&E, &E, &E) -> (E, E), out: &mut Vec<(String, E, E)>| {
        let mut found = 0;
        'search: for x in &pool {
            for y in &pool {
                for z in &pool {
                    let (l, r) = make(x, y, z);
                    if let (Some(a), Some(b)) = (res(&l), res(&r)) {
                        if a != b && (a.is_ok() || b.is_ok()) {
                            out.push((name.clone(), l, r));
                            found += 1;
                            if found >= 3 {
                                break 'search;
                            }
                        }
                    }
                }
            }
        }
        if found == 0 {
            out.push((format!("{name} [indistinguishable]"), E::None, E::None));
        }
    };
    for p in ALL_BIN {
        for q in ALL_BIN {
            push_pair(format!("{} / {}", p.sym(), q.sym()), &|x, y, z| (E::Bin(q, bx(E::Bin(p, bx(x.clone()), bx(y.clone()))), bx(z.clone())), E::Bin(p, bx(x.clone()), bx(E::Bin(q, bx(y.clone()), bx(z.clone()))))), &mut out);
        }
    }
    for p in ALL_BIN {
        // prefix operators against a binary operator: (not x) p y  vs  not (x p y); x p (not y) is unambiguous
        push_pair(format!("not / {}", p.sym()), &|x, y, _| (E::Bin(p, bx(E::Not(bx(x.clone()))), bx(y.clone())), E::Not(bx(E::Bin(p, bx(x.clone()), bx(y.clone()))))), &mut out);
        push_pair(format!("unary - / {}", p.sym()), &|x, y, _| (E::Bin(p, bx(E::Neg(bx(x.clone()))), bx(y.clone())), E::Neg(bx(E::Bin(p, bx(x.clone()), bx(y.clone()))))), &mut out);
        // filters, tests and subscripts bind to the nearest operand
        for f in ["length", "str", "abs", "upper", "first"] {
            push_pair(format!("{} / | {f}", p.sym()), &|x, y, _| (E::Filter(bx(E::Bin(p, bx(x.clone()), bx(y.clone()))), f.into(), vec![]), E::Bin(p, bx(x.clone()), bx(E::Filter(bx(y.clone()), f.into(), vec![])))), &mut out);
        }
        for t in ["string", "number", "none", "bool", "odd"] {
            for neg in [false, true] {
                push_pair(format!("{} / is {}{t}", p.sym(), if neg { "not " } else { "" }), &|x, y, _| (E::Test(bx(E::Bin(p, bx(x.clone()), bx(y.clone()))), t.into(), vec![], neg), E::Bin(p, bx(x.clone()), bx(E::Test(bx(y.clone()), t.into(), vec![], neg)))), &mut out);
                push_pair(format!("is {}{t} / {}", if neg { "not " } else { "" }, p.sym()), &|x, y, _| (E::Bin(p, bx(E::Test(bx(x.clone()), t.into(), vec![], neg)), bx(y.clone())), E::Test(bx(E::Bin(p, bx(x.clone()), bx(y.clone()))), t.into(), vec![], neg)), &mut out);
            }
        }
        push_pair(format!("{} / [0]", p.sym()), &|x, y, _| (E::Index(bx(E::Bin(p, bx(x.clone()), bx(y.clone()))), bx(E::Int(0)), false), E::Bin(p, bx(x.clone()), bx(E::Index(bx(y.clone()), bx(E::Int(0)), false)))), &mut out);
        push_pair(format!("{} / [:1]", p.sym()), &|x, y, _| (E::Slice(bx(E::Bin(p, bx(x.clone()), bx(y.clone()))), None, Some(bx(E::Int(1))), None, false), E::Bin(p, bx(x.clone()), bx(E::Slice(bx(y.clone()), None, Some(bx(E::Int(1))), None, false)))), &mut out);
        // the ternary binds loosest, in every operand position
        push_pair(format!("ternary-then / {}", p.sym()), &|x, y, z| (E::Ternary(bx(z.clone()), bx(E::Bin(p, bx(x.clone()), bx(y.clone()))), bx(E::Int(9))), E::Bin(p, bx(x.clone()), bx(E::Ternary(bx(z.clone()), bx(y.clone()), bx(E::Int(9)))))), &mut out);
        push_pair(format!("ternary-else / {}", p.sym()), &|x, y, z| (E::Ternary(bx(z.clone()), bx(E::Int(9)), bx(E::Bin(p, bx(x.clone()), bx(y.clone())))), E::Bin(p, bx(E::Ternary(bx(z.clone()), bx(E::Int(9)), bx(x.clone()))), bx(y.clone()))), &mut out);
        push_pair(format!("ternary-cond / {}", p.sym()), &|x, y, z| (E::Ternary(bx(E::Bin(p, bx(x.clone()), bx(y.clone()))), bx(z.clone()), bx(E::Int(9))), E::Bin(p, bx(E::Ternary(bx(x.clone()), bx(z.clone()), bx(E::Int(9)))), bx(y.clone()))), &mut out);
    }
    // unary operators against filters and each other
    push_pair("unary - / | abs".into(), &|x, _, _| (E::Filter(bx(E::Neg(bx(x.clone()))), "abs".into(), vec![]), E::Neg(bx(E::Filter(bx(x.clone()), "abs".into(), vec![])))), &mut out);
    push_pair("unary - / | str".into(), &|x, _, _| (E::Filter(bx(E::Neg(bx(x.clone()))), "str".into(), vec![]), E::Neg(bx(E::Filter(bx(x.clone()), "str".into(), vec![])))), &mut out);
    push_pair("not / | length".into(), &|x, _, _| (E::Filter(bx(E::Not(bx(x.clone()))), "str".into(), vec![]), E::Not(bx(E::Filter(bx(x.clone()), "length".into(), vec![])))), &mut out);
    push_pair("not / is".into(), &|x, _, _| (E::Test(bx(E::Not(bx(x.clone()))), "bool".into(), vec![], false), E::Not(bx(E::Test(bx(x.clone()), "bool".into(), vec![], false)))), &mut out);
    push_pair("unary - / [0]".into(), &|x, _, _| (E::Index(bx(E::Neg(bx(x.clone()))), bx(E::Int(0)), false), E::Neg(bx(E::Index(bx(x.clone()), bx(E::Int(0)), false)))), &mut out);
    push_pair("nested ternary".into(), &|x, y, z| (E::Ternary(bx(y.clone()), bx(E::Ternary(bx(x.clone()), bx(E::Int(1)), bx(E::Int(2)))), bx(z.clone())), E::Ternary(bx(x.clone()), bx(E::Int(1)), bx(E::Ternary(bx(y.clone()), bx(E::Int(2)), bx(z.clone()))))), &mut out);
    out
}

/// laziness: a poison operand in a position the documentation says is not evaluated
fn lazy_cases() -> Vec<(String, E, String)> {
    let poisons: Vec<(&str, E)> = vec![
        ("1/0", E::Bin(Bin::Div, bx(E::Int(1)), bx(E::Int(0)))),
        ("u.x.y", E::Attr(bx(E::Attr(bx(E::Var("u".into())), "x".into(), false)), "y".into(), false)),
        ("throw", E::Call("throw".into(), vec![("message".into(), E::Str("boom".into()))])),
        ("'a'+1", E::Bin(Bin::Add, bx(E::Str("a".into())), bx(E::Int(1)))),
        ("[][0].x", E::Attr(bx(E::Var("w".into())), "k".into(), false)),
    ];
    let falsy: Vec<E> = vec![E::Int(0), E::Float(0.0), E::Str("".into()), E::Bool(false), E::None, E::Array(vec![]), E::Map(vec![])];
    let truthy: Vec<E> = vec![E::Int(2), E::Float(0.5), E::Str("x".into()), E::Bool(true), E::Array(vec![Item::One(E::Int(0))])];
    let mut out = vec![];
    for (pn, p) in &poisons {
        for f in &falsy {
            out.push((format!("falsy and {pn}"), E::Bin(Bin::And, bx(f.clone()), bx(p.clone())), res(f).unwrap().unwrap()));
            out.push((format!("ternary else taken, then = {pn}"), E::Ternary(bx(f.clone()), bx(p.clone()), bx(E::Str("E".into()))), "E".into()));
            out.push((format!("(falsy and {pn}) or 'd'"), E::Bin(Bin::Or, bx(E::Bin(Bin::And, bx(f.clone()), bx(p.clone()))), bx(E::Str("d".into()))), "d".into()));
        }
        for t in &truthy {
            out.push((format!("truthy or {pn}"), E::Bin(Bin::Or, bx(t.clone()), bx(p.clone())), res(t).unwrap().unwrap()));
            out.push((format!("ternary then taken, else = {pn}"), E::Ternary(bx(t.clone()), bx(E::Str("T".into())), bx(p.clone())), "T".into()));
            out.push((format!("truthy and falsy and {pn}"), E::Bin(Bin::And, bx(E::Bin(Bin::And, bx(t.clone()), bx(E::Int(0)))), bx(p.clone())), "0".into()));
        }
        out.push((format!("comprehension over [] with element {pn}"), E::Comp { elem: bx(p.clone()), key: None, val: "c".into(), target: bx(E::Array(vec![])), cond: None }, "[]".into()));
        out.push((format!("comprehension with false condition, element {pn}"), E::Comp { elem: bx(p.clone()), key: None, val: "c".into(), target: bx(E::Array(vec![Item::One(E::Int(1))])), cond: Some(bx(E::Bool(false))) }, "[]".into()));
        out.push((format!("nested ternaries skipping {pn}"), E::Ternary(bx(E::Bool(false)), bx(p.clone()), bx(E::Ternary(bx(E::Bool(true)), bx(E::Int(1)), bx(p.clone())))), "1".into()));
    }
    out
}

/// the documented undefined rules, as a hand-written table (independent of the evaluator):
/// (expression source, context name, expected: Some(text) / None = error)
fn undefined_table() -> Vec<(&'static str, &'static str, Option<&'static str>)> {
    // contexts: "empty" = nothing bound; "m" = {m: {k: 1, n: none, un: <explicit undefined>, inner: {}}}
    vec![
        // unbound variable
        ("u", "empty", None),
        ("u + 1", "empty", None),
        ("1 - u", "empty", None),
        ("-u", "empty", None),
        ("u.x", "empty", None),
        ("u[0]", "empty", None),
        ("u[0:1]", "empty", None),
        ("u is defined", "empty", Some("false")),
        ("u is undefined", "empty", Some("true")),
        ("u is not defined", "empty", Some("true")),
        ("u | default(value=3)", "empty", Some("3")),
        ("u or 4", "empty", Some("4")),
        ("u and 4", "empty", None),
        ("(u and 4) is defined", "empty", Some("false")),
        ("not u", "empty", Some("true")),
        ("1 if u else 2", "empty", Some("2")),
        ("u?.x is defined", "empty", Some("false")),
        ("u?.x", "empty", None),
        ("u?.x | default(value=5)", "empty", Some("5")),
        ("u?[0] is defined", "empty", Some("false")),
        ("u?[0] or 6", "empty", Some("6")),
        ("u?[0:1] is defined", "empty", Some("false")),
        ("u?.x?.y or 7", "empty", Some("7")),
        ("u?.x.y", "empty", None),
        ("u < 1", "empty", None),
        // missing last field
        ("m.zz", "m", None),
        ("m.zz is defined", "m", Some("false")),
        ("m.zz | default(value=1)", "m", Some("1")),
        ("m.zz or 2", "m", Some("2")),
        ("m['zz'] is defined", "m", Some("false")),
        ("m['zz']", "m", None),
        ("m.zz + 1", "m", None),
        ("3 if m.zz else 4", "m", Some("4")),
        ("not m.zz", "m", Some("true")),
        ("m.zz?.q is defined", "m", Some("false")),
        ("m.k", "m", Some("1")),
        ("m.k is defined", "m", Some("true")),
        // missing middle field: two levels of undefined
        ("m.zz.q", "m", None),
        ("m.zz.q is defined", "m", None),
        ("m.zz.q | default(value=1)", "m", None),
        ("m.zz.q or 2", "m", None),
        ("m['zz'].q is defined", "m", None),
        ("m['zz']['q'] is defined", "m", None),
        ("m.zz[0] is defined", "m", None),
        ("m.inner.q is defined", "m", Some("false")),
        ("m.inner.q.r is defined", "m", None),
        ("m.inner.q?.r is defined", "m", Some("false")),
        // explicit undefined stored in a map behaves like a missing field
        ("m.un", "m", None),
        ("m['un']", "m", None),
        ("m.un is defined", "m", Some("false")),
        ("m.un | default(value=8)", "m", Some("8")),
        ("m.un or 9", "m", Some("9")),
        ("m.un.x is defined", "m", None),
        ("m.un?.x is defined", "m", Some("false")),
        // none is a value: printing it gives nothing, fields of it are undefined, `?.` shortcuts it
        ("m.n", "m", Some("")),
        ("m.n is defined", "m", Some("true")),
        ("m.n is none", "m", Some("true")),
        ("m.n | default(value=1)", "m", Some("")),
        ("m.n | default(value=1, boolean=true)", "m", Some("1")),
        ("m.n.x is defined", "m", Some("false")),
        ("m.n?.x is defined", "m", Some("false")),
        ("m.n?.x.y is defined", "m", None),
        ("m.n + 1", "m", None),
        ("m.n or 5", "m", Some("5")),
        // unsupported operand types are errors, not coercions
        ("'1' + 1", "empty", None),
        ("1 + '1'", "empty", None),
        ("'a' * 2", "empty", None),
        ("true + 1", "empty", None),
        ("[1] + [2]", "empty", None),
        ("'a' < 1", "empty", None),
        ("none < 1", "empty", None),
        ("[1] < 'a'", "empty", None),
        ("-'a'", "empty", None),
        ("1 in 5", "empty", None),
        ("'a' ~ 1", "empty", Some("a1")),
        ("1 ~ 2", "empty", Some("12")),
        ("1 == '1'", "empty", Some("false")),
        ("1 == 1.0", "empty", Some("true")),
        ("2 ** 3 ** 2", "empty", Some("512")),
        ("-2 ** 2", "empty", Some("4")),
        ("7 // 2", "empty", Some("3")),
        ("-7 // 2", "empty", Some("-4")),
        ("-7 % 3", "empty", Some("2")),
        ("7 / 2", "empty", Some("3.5")),
        ("1 + 2 * 3", "empty", Some("7")),
        ("1 + 2 | str ~ 'x'", "empty", None),
        ("(1 + 2) | str ~ 'x'", "empty", Some("3x")),
        ("not 1 == 2", "empty", Some("true")),
        ("not true and false", "empty", Some("false")),
        ("1 in [1] == true", "empty", None),
        ("(1 in [1]) == true", "empty", Some("true")),
        ("1 in [1, 2] and 2 in [2]", "empty", Some("true")),
        ("2 > 1 and 1 < 2 or 1 / 0", "empty", Some("true")),
        ("0 and 1 / 0", "empty", Some("0")),
        ("'' or 0 or [] or 'end'", "empty", Some("end")),
        ("1 and 'x' and [2]", "empty", Some("[2]")),
        ("'a' ~ (-1)", "empty", Some("a-1")),
        ("'a' ~ (1 not in [2])", "empty", Some("atrue")),
        ("'a' ~ (u is not defined)", "empty", Some("atrue")),
    ]
}
fn table_ctx(name: &str) -> Ctx {
    let mut c = Ctx::new();
    if name == "xs" {
        c.insert("xs".into(), MVal::Array(vec![MVal::Int(7), MVal::Int(8)]));
    }
    if name == "m" {
        c.insert("m".into(), MVal::smap(vec![("k", MVal::Int(1)), ("n", MVal::None), ("un", MVal::Undefined), ("inner", MVal::smap(vec![]))]));
    }
    c
}

pub fn check_table_row(src: &str, ctxname: &str, exp: Option<&str>, l: &mut Local) -> Check {
    let ctx = table_ctx(ctxname);
    let tctx = ctx_to_tera(&ctx);
    let full = format!("{{{{ {src} }}}}");
    let got = render_src(&full, &tctx, false);
    l.eval();
    let ok = match (&exp, &got) {
        (Some(t), R::Ok(s)) => *t == s,
        (None, R::Err(_)) => true,
        _ => false,
    };
    l.label("table-row");
    l.nontrivial(hash_str(&full));
    if !ok {
        let sig = match (src, &got) {
            (_, R::Panic(_)) => "C02/panic".to_string(),
            _ => "C02/documented-rule".to_string(),
        };
        return Err(Fail::new(sig, format!("{full} in context `{ctxname}`: documented outcome {:?}, engine gave {}", exp, got.json()), json!({"kind": "table", "source": src, "ctx": ctxname, "expected": exp, "observed": got.json()})));
    }
    Ok(())
}

pub fn run(rep: &Report) {
    rep.set_rule("families: (1) exhaustive operator matrix: for every ordered pair of the 18 binary operators, prefix not / unary - / filters / tests / subscripts / slices / ternaries against every binary operator, the typed operand pool is searched for operands on which the two possible groupings give different results, and both groupings are rendered in minimal-parentheses (from the documented table), fully parenthesised and noisy (redundant parentheses, random whitespace/newlines, quote styles, keyword spellings) spelling; (2) random expressions of depth <= 5 over all forms (literals, variables, ./[] access, ?. ?[, slices, arithmetic, comparison, logic, ~, in/not in, is/is not with the built-in tests, filters with kwargs, range/throw, ternaries, array/map literals with spreads, comprehensions) x contexts binding the 15 free variables to values of their nominal kind, another kind, or nothing, in random integer encodings; (3) laziness: poison operands in positions that must not be evaluated; (4) a hand-written table of the documented undefined/type rules. Oracle: reference evaluator (text must be equal, or both must fail at render time; a syntax error on a well-formed expression is a failure). Non-trivial: minimal and full spellings differ, or a poison operand / undefined-tolerant construct is present, or >= 2 operator levels; distinct by (minimal source, context).");
    rep.assume("outcomes the documentation does not settle are not generated or discarded (counted in discarded_budget): undefined as operand of ==, !=, ~, in; undefined stored in array/map literals; iteration order of maps with >= 2 entries; built-in calls whose contract is open (C17 label spec:total)");
    rep.assume("parser limits are respected by construction: depth <= 18 of 40, <= 3 of 4 nested subscripts, <= 2 array dimensions, no consecutive unary operators, no unary operator directly after ~, ?. ?[ and . only on identifier chains, integer literals within i64, float literals without exponent");
    // known findings (fixed repros)
    for k in rep.known.clone() {
        if let Some(c) = replay(rep, &k.repro) {
            if let Err(f) = c {
                if k.status == "open" {
                    rep.fail(Fail::new(k.signature.clone(), f.what, f.case));
                } else {
                    rep.fail(Fail::new(format!("{}/regressed", k.signature), f.what, f.case));
                }
            }
        }
    }
    // self-check of the evaluator against the hand-written table, then the engine against the table
    let table = undefined_table();
    run_enum(rep, "documented_rules_table", &table, |(src, cn, exp), l| check_table_row(src, cn, *exp, l));
    let pairs = discriminating_pairs();
    let indist = pairs.iter().filter(|p| p.0.ends_with("[indistinguishable]")).count();
    rep.extra("matrix_pairs_total", json!(pairs.iter().map(|p| p.0.trim_end_matches(" [indistinguishable]").to_string()).collect::<std::collections::BTreeSet<_>>().len()));
    rep.extra("matrix_pairs_indistinguishable", json!(pairs.iter().filter(|p| p.0.ends_with("[indistinguishable]")).map(|p| p.0.clone()).collect::<Vec<_>>()));
    let _ = indist;
    let pairs: Vec<_> = pairs.into_iter().filter(|p| !p.0.ends_with("[indistinguishable]")).collect();
    run_enum(rep, "operator_matrix", &pairs, |(name, a, b), l| {
        l.label("matrix-pair");
        for (i, t) in [a, b].into_iter().enumerate() {
            check_tree(t, &Ctx::new(), 0x9e37 + i as u64, 0, l).map_err(|mut f| {
                f.what = format!("[{name}] {}", f.what);
                f
            })?;
            check_tree(t, &Ctx::new(), 0x51ed + i as u64 * 77, 0, l)?;
        }
        Ok(())
    });
    let lazy = lazy_cases();
    run_enum(rep, "laziness", &lazy, |(name, e, exp), l| {
        l.label("lazy-case");
        // independent expectation (hand-written), then the three spellings against the evaluator
        let got = render_src(&format!("{{{{ {} }}}}", print(e, Mode::Minimal)), &tera::Context::new(), false);
        l.eval();
        if got != R::Ok(exp.clone()) {
            return Err(Fail::new(if matches!(got, R::Panic(_)) { "C02/panic" } else { "C02/laziness" }, format!("{name}: `{}` must give {:?} without evaluating the poison operand, engine gave {}", print(e, Mode::Minimal), exp, got.json()), case_json(e, &Ctx::new(), 1, 0)));
        }
        check_tree(e, &Ctx::new(), 3, 0, l)
    });
    let n = rep.tier.scale(300_000, 25);
    run_family(rep, "random_expressions", n, || (expr_strategy(4, GenOpts::default()), ctx_strategy(), any::<u64>(), any::<u64>()), |(e, ctx, noise, salt), l| check_tree(e, ctx, *noise, *salt, l));
    run_family(rep, "random_expressions_deep", n / 6, || (expr_strategy(6, GenOpts::default()), ctx_strategy(), any::<u64>(), any::<u64>()), |(e, ctx, noise, salt), l| check_tree(e, ctx, *noise, *salt, l));
    // typed families: more successful evaluations of each class
    for (name, ty) in [("numeric", Ty::Num), ("strings", Ty::Str), ("booleans", Ty::Bool), ("arrays", Ty::Arr)] {
        run_family(rep, &format!("typed_{name}"), n / 4, move || (gen(4, ty, GenOpts::default()).prop_filter("limits", within_limits), ctx_strategy(), any::<u64>(), any::<u64>()), |(e, ctx, noise, salt), l| check_tree(e, ctx, *noise, *salt, l));
    }
    for op in ALL_BIN {
        rep.floor(&format!("op:{}", op.sym()), 2_000);
    }
    for (lab, min) in [("outcome:value", 150_000), ("outcome:error", 50_000), ("spelling:parentheses-matter", 100_000), ("has:poison-not-evaluated", 1_000), ("has:undefined-tolerant-construct", 20_000), ("form:ternary", 20_000), ("form:?.", 5_000), ("form:?[", 2_000), ("form:slice", 5_000), ("form:comprehension", 5_000), ("form:comprehension-if", 1_000), ("form:comprehension-kv", 500), ("form:array-spread", 1_000), ("form:map-spread", 500), ("form:is-not", 5_000), ("op:not", 10_000), ("op:neg", 10_000), ("fn:range", 2_000), ("matrix-pair", 1_000), ("lazy-case", 100), ("table-row", 85)] {
        rep.floor(lab, min);
    }
}

pub fn replay(_rep: &Report, case: &serde_json::Value) -> Option<Check> {
    let mut l = Local::new();
    match case.get("kind")?.as_str()? {
        "table" => {
            let exp = case.get("expected").and_then(|x| x.as_str());
            Some(check_table_row(case.get("source")?.as_str()?, case.get("ctx")?.as_str()?, exp, &mut l))
        }
        "expr" | "render_expect" => {
            // source-level replay: each recorded spelling must give the recorded expectation
            let ctx = ctx_from_json(case.get("context")?)?;
            let salt = case.get("salt").and_then(|x| x.as_u64()).unwrap_or(0);
            let tctx = ctx_to_tera_enc(&ctx, &Enc::new(salt));
            let exp = case.get("expected")?;
            for key in ["minimal", "full", "noisy", "source"] {
                let Some(src) = case.get(key).and_then(|x| x.as_str()) else { continue };
                let got = render_src(src, &tctx, false);
                let ok = match (exp.get("ok").and_then(|x| x.as_str()), &got) {
                    (Some(t), R::Ok(s)) => t == s,
                    (None, R::Err(_)) => true,
                    _ => false,
                };
                if !ok {
                    return Some(Err(Fail::new("C02/replay", format!("{src}: expected {exp}, engine gave {}", got.json()), case.clone())));
                }
            }
            Some(Ok(()))
        }
        _ => None,
    }
}
