//! C11 — Cyclic or dangling template graphs are rejected; accepted graphs render finitely.
//! Registration and rendering run in worker subprocesses (unbounded recursion would abort the process).
use crate::core::*;
use proptest::prelude::*;
use serde_json::json;
use std::collections::{BTreeMap, BTreeSet};

const DIRS: [&str; 4] = ["", "themeA/", "themeB/", "misc/"];

#[derive(Debug, Clone)]
pub struct NodeSpec {
    /// directory index and base name index: the template is DIRS[dir] + "t{base}.txt"
    pub dir: u8,
    pub base: u8,
    /// extends: target node index (or a missing name), spelled short or full
    pub extends: Option<(u8, bool)>,
    /// includes: (target, spelled with full name?, placement 0 top, 1 block, 2 component body, 3 capture, 4 dead branch, 5 loop)
    pub includes: Vec<(u8, bool, u8)>,
}
#[derive(Debug, Clone)]
pub struct GraphSpec {
    pub nodes: Vec<NodeSpec>,
    pub prefixes: Vec<u8>,
}

pub fn graph_strategy(max_nodes: usize) -> BoxedStrategy<GraphSpec> {
    // targets: an index into the node list (modulo its length), or sometimes a missing name (>= 200)
    let target = || prop_oneof![12 => 0u8..64, 1 => 200u8..210];
    let node = (0u8..4, 0u8..6, prop::option::weighted(0.3, (target(), any::<bool>())), prop::collection::vec((target(), any::<bool>(), 0u8..6), 0..3)).prop_map(|(dir, base, extends, includes)| NodeSpec { dir, base, extends, includes });
    (prop::collection::vec(node, 2..=max_nodes), prop::collection::vec(1u8..3, 0..3)).prop_map(|(nodes, prefixes)| GraphSpec { nodes, prefixes }).boxed()
}
/// long chains and cycles: node i extends/includes node i+1 (and the last one closes or not)
pub fn chain_strategy() -> BoxedStrategy<GraphSpec> {
    (2usize..33, any::<bool>(), prop::option::of(0usize..33), prop::collection::vec(1u8..3, 0..2), any::<bool>()).prop_map(|(n, use_extends, close_to, prefixes, spread_dirs)| {
        let mut nodes = vec![];
        for i in 0..n {
            let target = if i + 1 < n { Some((i + 1) as u8) } else { close_to.map(|c| (c % n) as u8) };
            let dir = if spread_dirs { (i % 3) as u8 } else { 0 };
            nodes.push(NodeSpec { dir, base: i as u8, extends: if use_extends { target.map(|t| (t, i % 2 == 0)) } else { None }, includes: if use_extends { vec![] } else { target.map(|t| (t, i % 2 == 0, (i % 6) as u8)).into_iter().collect() } });
        }
        GraphSpec { nodes, prefixes }
    }).boxed()
}

pub struct Built {
    pub sources: Vec<(String, String)>,
    pub prefixes: Vec<String>,
    /// resolved edges (by template name), None = unresolved
    pub extends: BTreeMap<String, Option<String>>,
    pub includes: BTreeMap<String, Vec<Option<String>>>,
}

pub fn build(g: &GraphSpec) -> Built {
    // distinct prefixes in order
    let mut prefixes: Vec<String> = vec![];
    for p in &g.prefixes {
        let s = DIRS[*p as usize % 4].to_string();
        if !s.is_empty() && !prefixes.contains(&s) {
            prefixes.push(s);
        }
    }
    // distinct template names (first spec for a name wins); bases beyond u8 range of the small pool are fine
    let mut names: Vec<(String, String)> = vec![]; // (full name, short name)
    let mut node_of: Vec<Option<usize>> = vec![];
    for n in &g.nodes {
        let short = format!("t{}.txt", n.base);
        let full = format!("{}{}", DIRS[n.dir as usize % 4], short);
        if let Some(i) = names.iter().position(|x| x.0 == full) {
            node_of.push(Some(i));
            continue;
        }
        names.push((full, short));
        node_of.push(Some(names.len() - 1));
    }
    let all: BTreeSet<String> = names.iter().map(|n| n.0.clone()).collect();
    let resolve = |name: &str| -> Option<String> {
        if all.contains(name) {
            return Some(name.to_string());
        }
        for p in &prefixes {
            let c = format!("{p}{name}");
            if all.contains(&c) {
                return Some(c);
            }
        }
        None
    };
    // spelled target of an edge: index into the node list (possibly beyond -> a missing name)
    let spell = |t: u8, full: bool| -> String {
        let idx = if t >= 200 { None } else { Some(t as usize % g.nodes.len()) };
        match idx.and_then(|i| g.nodes.get(i)) {
            Some(n) => {
                let short = format!("t{}.txt", n.base);
                if full {
                    format!("{}{}", DIRS[n.dir as usize % 4], short)
                } else {
                    short
                }
            }
            None => format!("missing{}.txt", t),
        }
    };
    let mut sources = vec![];
    let mut extends = BTreeMap::new();
    let mut includes = BTreeMap::new();
    let mut done = BTreeSet::new();
    for (ni, n) in g.nodes.iter().enumerate() {
        let full = names[node_of[ni].unwrap()].0.clone();
        if !done.insert(full.clone()) {
            continue;
        }
        let mut src = String::new();
        if let Some((t, f)) = n.extends {
            let target = spell(t, f);
            src.push_str(&format!("{{% extends \"{target}\" %}}"));
            extends.insert(full.clone(), resolve(&target));
        }
        src.push_str(&format!("[{full}]"));
        let mut incs = vec![];
        let mut in_block = String::new();
        let mut comp = String::new();
        for (k, (t, f, place)) in n.includes.iter().enumerate() {
            let target = spell(*t, *f);
            let inc = format!("{{% include \"{target}\" %}}");
            incs.push(resolve(&target));
            match place % 6 {
                0 => {
                    if n.extends.is_some() {
                        // text outside blocks of a child is ignored at render time but the include is still an edge
                        src.push_str(&inc)
                    } else {
                        src.push_str(&inc)
                    }
                }
                1 => in_block.push_str(&inc),
                2 => comp.push_str(&format!("{{% component K{ni}_{k}() %}}{inc}{{% endcomponent K{ni}_{k} %}}")),
                3 => in_block.push_str(&format!("{{% set cap %}}{inc}{{% endset %}}{{{{ cap }}}}")),
                4 => in_block.push_str(&format!("{{% if false %}}{inc}{{% endif %}}")),
                _ => in_block.push_str(&format!("{{% for q in [1] %}}{inc}{{% endfor %}}")),
            }
        }
        src.push_str(&comp);
        // every template defines (or overrides) block b: roots define it, children override it
        src.push_str(&format!("{{% block b %}}{in_block}{{% endblock %}}"));
        includes.insert(full.clone(), incs);
        sources.push((full, src));
    }
    Built { sources, prefixes, extends, includes }
}

#[derive(Debug, Clone, PartialEq, Eq, PartialOrd, Ord)]
pub enum Fault {
    MissingParent,
    MissingInclude,
    ExtendsCycle,
    IncludeCycle,
}
/// independent graph analysis
pub fn analyse(b: &Built) -> BTreeSet<Fault> {
    let mut faults = BTreeSet::new();
    for (_, t) in &b.extends {
        if t.is_none() {
            faults.insert(Fault::MissingParent);
        }
    }
    for (_, ts) in &b.includes {
        if ts.iter().any(|t| t.is_none()) {
            faults.insert(Fault::MissingInclude);
        }
    }
    // extends cycle: follow the (unique) resolved parent edge from every template
    for (start, _) in &b.sources {
        let mut seen = BTreeSet::new();
        let mut cur = start.clone();
        seen.insert(cur.clone());
        while let Some(Some(p)) = b.extends.get(&cur) {
            if !seen.insert(p.clone()) {
                faults.insert(Fault::ExtendsCycle);
                break;
            }
            cur = p.clone();
        }
    }
    // include cycle: any cycle in the resolved include graph (colouring DFS)
    let mut colour: BTreeMap<&str, u8> = BTreeMap::new();
    fn dfs<'a>(n: &'a str, b: &'a Built, colour: &mut BTreeMap<&'a str, u8>) -> bool {
        colour.insert(n, 1);
        for t in b.includes.get(n).into_iter().flatten().flatten() {
            match colour.get(t.as_str()).copied().unwrap_or(0) {
                1 => return true,
                0 => {
                    if dfs(t, b, colour) {
                        return true;
                    }
                }
                _ => {}
            }
        }
        colour.insert(n, 2);
        false
    }
    for (n, _) in &b.sources {
        if colour.get(n.as_str()).copied().unwrap_or(0) == 0 && dfs(n, b, &mut colour) {
            faults.insert(Fault::IncludeCycle);
            break;
        }
    }
    faults
}

/// growth of the registration cost on layered acyclic graphs (every template of a layer includes / every second one extends
/// the templates of the next layer): the number of paths doubles with every layer while the number of edges grows linearly.
/// A walk that forgets what it has visited is exponential here. Judged by growth, not by a wall-clock limit: only when the
/// largest size takes seconds AND costs more than 64 times a size with 8 layers less.
pub fn check_layered_growth(l: &mut Local) -> Check {
    let build = |layers: usize| -> Vec<(String, String)> {
        let mut v = vec![];
        for i in 0..layers {
            for j in 0..2 {
                let body = if i + 1 < layers { format!("{{% include \"l{}_0\" %}}{{% include \"l{}_1\" %}}{{% block b %}}{{% include \"l{}_{}\" %}}{{% endblock %}}", i + 1, i + 1, i + 1, j) } else { "leaf".to_string() };
                v.push((format!("l{i}_{j}"), body));
            }
        }
        v
    };
    let time = |layers: usize| -> Result<f64, String> {
        let set = build(layers);
        let t0 = std::time::Instant::now();
        let r = guard(|| tera::Tera::new().add_raw_templates(set).map_err(|e| e.to_string()))?;
        r.map_err(|e| format!("an acyclic layered set of {layers} layers was rejected: {e}"))?;
        Ok(t0.elapsed().as_secs_f64())
    };
    let mut times = vec![];
    for layers in [6usize, 10, 14, 18, 22, 26] {
        let t = match time(layers) {
            Ok(t) => t,
            Err(why) => return Err(Fail::new("C11/valid-graph-rejected", why, json!({"kind": "layered", "layers": layers}))),
        };
        l.eval();
        times.push((layers, t));
        // stop early once the trend is unmistakable (the next size would take 16 times longer)
        if t > 2.0 {
            break;
        }
    }
    l.label("layered-growth");
    l.nontrivial(hash_str("layered-growth"));
    if let Some(&(big, tb)) = times.last() {
        if tb > 2.0 {
            let base = times.iter().find(|(n, _)| *n + 8 == big).map(|x| x.1).unwrap_or(0.0).max(0.0005);
            if tb / base > 64.0 {
                return Err(Fail::new("C11/exponential-registration", format!("registering an acyclic layered include graph: seconds per number of layers {:?}: the cost explodes with depth although the graph grows linearly (a cycle walk that does not remember visited templates)", times), json!({"kind": "layered", "times": times})));
            }
        }
    }
    Ok(())
}

/// the same graph reached step by step: every template is first registered as a stub without edges, then each is
/// re-added with its real source in a permuted order. Whatever the instance holds after a successful add must be a
/// graph the analysis accepts (no cycle closed by a re-add, no dangling edge), and must render finitely.
pub fn check_incremental(g: &GraphSpec, order: u64, l: &mut Local) -> Check {
    let b = build(g);
    let stub = |n: &str| format!("[stub {n}]{{% block b %}}{{% endblock %}}");
    let mut steps: Vec<usize> = (0..b.sources.len()).collect();
    let mut m = Mix(order);
    for i in (1..steps.len()).rev() {
        steps.swap(i, (m.next() % (i as u64 + 1)) as usize);
    }
    let case = || json!({"kind": "incremental_graph", "templates": b.sources, "prefixes": b.prefixes, "order": steps});
    let mut t = tera::Tera::new();
    if t.set_fallback_prefixes(b.prefixes.clone()).is_err() {
        return Ok(());
    }
    if let Err(e) = t.add_raw_templates(b.sources.iter().map(|(n, _)| (n.clone(), stub(n))).collect::<Vec<_>>()) {
        return Err(Fail::new("C11/valid-graph-rejected", format!("stubs without edges were rejected: {}", first_line(&e.to_string())), case()));
    }
    // the graph the instance holds: edges of the templates re-added successfully so far
    let mut cur = Built { sources: b.sources.clone(), prefixes: b.prefixes.clone(), extends: BTreeMap::new(), includes: BTreeMap::new() };
    for &i in &steps {
        let (name, src) = &b.sources[i];
        let mut next = Built { sources: cur.sources.clone(), prefixes: cur.prefixes.clone(), extends: cur.extends.clone(), includes: cur.includes.clone() };
        if let Some(e) = b.extends.get(name) {
            next.extends.insert(name.clone(), e.clone());
        }
        if let Some(e) = b.includes.get(name) {
            next.includes.insert(name.clone(), e.clone());
        }
        let faults = analyse(&next);
        let r = match guard(|| t.add_raw_template(name, src).map_err(|e| e.to_string())) {
            Ok(r) => r,
            Err(p) => return Err(Fail::new("C11/panic", format!("re-adding {name} panicked: {p}"), case())),
        };
        l.eval();
        match (r, faults.is_empty()) {
            (Ok(()), false) => return Err(Fail::new("C11/faulty-graph-accepted", format!("re-adding {name} = {src:?} over stubs and earlier re-adds was accepted although the instance then holds {:?} (order {:?}, prefixes {:?})", faults, steps, b.prefixes), case())),
            (Ok(()), true) => {
                cur = next;
                l.label("incremental:step-accepted");
            }
            (Err(_), false) => l.label("incremental:faulty-step-refused"),
            (Err(m), true) => return Err(Fail::new("C11/valid-graph-rejected", format!("re-adding {name} = {src:?} was refused ({}) although the resulting graph has no dangling edge or cycle (order {:?}, prefixes {:?})", first_line(&m), steps, b.prefixes), case())),
        }
    }
    // what the instance holds now is acyclic: every template renders finitely
    for (n, _) in &b.sources {
        if let Err(p) = guard(|| t.render(n, &tera::Context::new()).map_err(|e| e.to_string())) {
            return Err(Fail::new("C11/panic", format!("render({n}) panicked: {p}"), case()));
        }
        l.eval();
    }
    l.label("incremental:graph");
    if !analyse(&b).is_empty() {
        l.nontrivial(hash_of(&(b.sources.clone(), steps.clone(), 7u8)));
    }
    Ok(())
}

fn depth_of(b: &Built) -> usize {
    // longest include/extends path (acyclic graphs only)
    fn go(n: &str, b: &Built, memo: &mut BTreeMap<String, usize>, guard: usize) -> usize {
        if guard > 64 {
            return 0;
        }
        if let Some(d) = memo.get(n) {
            return *d;
        }
        let mut d = 0;
        for t in b.includes.get(n).into_iter().flatten().flatten() {
            d = d.max(1 + go(t, b, memo, guard + 1));
        }
        if let Some(Some(p)) = b.extends.get(n) {
            d = d.max(1 + go(p, b, memo, guard + 1));
        }
        memo.insert(n.to_string(), d);
        d
    }
    let mut memo = BTreeMap::new();
    b.sources.iter().map(|(n, _)| go(n, b, &mut memo, 0)).max().unwrap_or(0)
}

pub fn check_graph(g: &GraphSpec, l: &mut Local) -> Check {
    let b = build(g);
    let faults = analyse(&b);
    let case = || json!({"kind": "graph", "templates": b.sources, "prefixes": b.prefixes, "expected_faults": faults.iter().map(|f| format!("{:?}", f)).collect::<Vec<_>>()});
    let mut t = tera::Tera::new();
    if let Err(e) = t.set_fallback_prefixes(b.prefixes.clone()) {
        return Err(Fail::new("C11/prefixes-rejected", e.to_string(), case()));
    }
    let r = match guard(|| t.add_raw_templates(b.sources.clone())) {
        Ok(r) => r,
        Err(p) => return Err(Fail::new("C11/panic", format!("registration panicked: {p}"), case())),
    };
    l.eval();
    match (&r, faults.is_empty()) {
        (Ok(()), false) => return Err(Fail::new("C11/faulty-graph-accepted", format!("a set with {:?} was accepted: {:?} prefixes {:?}", faults, b.sources, b.prefixes), case())),
        (Err(e), true) => return Err(Fail::new("C11/valid-graph-rejected", format!("a set without dangling edges or cycles was rejected: {} :: {:?} prefixes {:?}", first_line(&e.to_string()), b.sources, b.prefixes), case())),
        (Err(e), false) => {
            let _ = e.to_string();
            l.label("graph:rejected");
            if faults.len() == 1 {
                let f = faults.iter().next().unwrap();
                let ok = match (f, e.kind()) {
                    (Fault::MissingParent, tera::ErrorKind::MissingParent { .. }) => true,
                    (Fault::ExtendsCycle, tera::ErrorKind::CircularExtend { .. }) => true,
                    (Fault::IncludeCycle, tera::ErrorKind::CircularInclude { .. }) => true,
                    // no dedicated kind exists for a dangling include: anything but the three other kinds (the wording of the message is not pinned)
                    (Fault::MissingInclude, k) => !matches!(k, tera::ErrorKind::MissingParent { .. } | tera::ErrorKind::CircularExtend { .. } | tera::ErrorKind::CircularInclude { .. }),
                    _ => false,
                };
                if !ok {
                    return Err(Fail::new("C11/wrong-error-kind", format!("the only fault is {:?} but the error is {:?}: {:?} prefixes {:?}", f, first_line(&e.to_string()), b.sources, b.prefixes), case()));
                }
                l.label(&format!("single-fault:{:?}", f));
            } else {
                l.label("graph:several-faults");
            }
        }
        (Ok(()), true) => {
            l.label("graph:accepted");
            // fallback prefixes are part of how edges resolve: documented as "needs to be called before adding templates,
            // it will error otherwise" — changing them under a loaded set would leave edges dangling
            if let Ok(Ok(())) = guard(|| t.clone().set_fallback_prefixes(vec!["zz-other/".to_string()])) {
                return Err(Fail::new("C11/prefixes-changed-after-load", format!("set_fallback_prefixes succeeded on an instance that already holds {} templates (prefixes {:?})", b.sources.len(), b.prefixes), case()));
            }
            // every template renders (terminates) with text or an error value
            for (n, _) in &b.sources {
                match guard(|| t.render(n, &tera::Context::new()).map_err(|e| e.to_string())) {
                    Ok(_) => l.eval(),
                    Err(p) => return Err(Fail::new("C11/panic", format!("render({n}) panicked: {p}"), case())),
                }
            }
            let d = depth_of(&b);
            if d >= 4 {
                l.label("graph:depth>=4");
            }
            if d >= 16 {
                l.label("graph:depth>=16");
            }
        }
    }
    if !b.prefixes.is_empty() {
        l.label("graph:with-prefixes");
        if b.sources.iter().any(|(n, _)| b.sources.iter().any(|(m, _)| m != n && m.ends_with(n.as_str()))) {
            l.label("graph:exact-name-shadows-prefixed");
        }
    }
    if !faults.is_empty() || depth_of(&b) >= 4 {
        l.nontrivial(hash_of(&(b.sources.clone(), b.prefixes.clone())));
    }
    l.sample(|| json!({"templates": b.sources, "prefixes": b.prefixes, "faults": faults.iter().map(|f| format!("{:?}", f)).collect::<Vec<_>>()}));
    Ok(())
}

pub fn worker(w: &WorkerArgs) -> i32 {
    std::env::set_var("VERIF_WORKERS", "1");
    // reference environment for the termination claim: 8 MiB stack
    std::env::set_var("VERIF_STACK_MB", "8");
    let mut rep = Report::new("C11", w.tier, w.seed);
    rep.strict = true;
    let fam = format!("{}#{}", w.family, w.shard);
    let quick = |n: u64| w.tier.scale(n, 10) / w.nshards.max(1);
    match w.family.as_str() {
        "random_graphs" => run_family(&rep, &fam, quick(900_000), || graph_strategy(9), |g, l| {
            w.trace_case(|| { let b = build(g); json!({"kind": "graph", "templates": b.sources, "prefixes": b.prefixes}) });
            check_graph(g, l)
        }),
        "chains_and_cycles" => run_family(&rep, &fam, quick(200_000), chain_strategy, |g, l| {
            w.trace_case(|| { let b = build(g); json!({"kind": "graph", "templates": b.sources, "prefixes": b.prefixes}) });
            l.label("shape:chain-or-ring");
            check_graph(g, l)
        }),
        "incremental_graphs" => run_family(&rep, &fam, quick(300_000), || (prop_oneof![2 => graph_strategy(6), 1 => chain_strategy()], any::<u64>()), |(g, order), l| {
            w.trace_case(|| { let b = build(g); json!({"kind": "incremental_graph", "templates": b.sources, "prefixes": b.prefixes}) });
            check_incremental(g, *order, l)
        }),
        "layered" => {
            let mut l = Local::new();
            let r = check_layered_growth(&mut l);
            rep.merge(l);
            if let Err(f) = r {
                rep.fail(f);
            }
        }
        "fixed" => {
            let cases: Vec<_> = fixed_cases().into_iter().enumerate().filter(|(i, _)| *i as u64 % w.nshards.max(1) == w.shard).map(|(_, c)| c).collect();
            run_enum(&rep, &fam, &cases, |(label, sources, prefixes, expect_ok), l| {
                w.trace_case(|| json!({"kind": "graph", "templates": sources, "prefixes": prefixes}));
                check_fixed(label, sources, prefixes, *expect_ok, l)
            });
        }
        _ => return 2,
    }
    let mut l = Local::new();
    l.evals = rep.evals.load(std::sync::atomic::Ordering::Relaxed);
    l.labels = rep.labels.lock().unwrap().clone();
    l.nontrivial = rep.nontrivial.lock().unwrap().clone();
    l.samples = rep.samples.lock().unwrap().iter().take(2).cloned().collect();
    let fails: Vec<Fail> = rep.violations.lock().unwrap().clone();
    if !rep.inconclusive.lock().unwrap().is_empty() {
        return 4;
    }
    write_worker_result(&w.out, &l, &fails);
    0
}

/// hand-written sets: (label, sources, prefixes, must be accepted and render finitely?)
fn fixed_cases() -> Vec<(String, Vec<(String, String)>, Vec<String>, bool)> {
    let s = |v: &[(&str, &str)]| -> Vec<(String, String)> { v.iter().map(|(a, b)| (a.to_string(), b.to_string())).collect() };
    let p = |v: &[&str]| -> Vec<String> { v.iter().map(|x| x.to_string()).collect() };
    let mut long = vec![];
    // long rings and chains: no length at which a cycle stops being seen, or a valid chain stops being accepted
    for n in [33usize, 64, 100, 126, 127, 128, 129, 130, 131, 200, 257, 300] {
        let ring = |tag: &str, tail: usize| -> Vec<(String, String)> {
            let mut v: Vec<(String, String)> = (0..n).map(|i| (format!("r{i}"), format!("{{% {tag} \"r{}\" %}}", (i + 1) % n))).collect();
            for k in 0..tail {
                v.push((format!("tail{k}"), format!("{{% {tag} \"{}\" %}}", if k + 1 < tail { format!("tail{}", k + 1) } else { "r0".to_string() })));
            }
            v
        };
        long.push((format!("include ring of {n}"), ring("include", 0), p(&[]), false));
        long.push((format!("include ring of {n} entered from a tail"), ring("include", 3), p(&[]), false));
        long.push((format!("extends ring of {n}"), ring("extends", 0), p(&[]), false));
        long.push((format!("extends ring of {n} entered from a tail"), ring("extends", 2), p(&[]), false));
        let chain: Vec<(String, String)> = (0..n).map(|i| (format!("c{i}"), if i + 1 < n { format!("{i},{{% include \"c{}\" %}}", i + 1) } else { "end".to_string() })).collect();
        long.push((format!("acyclic include chain of {n}"), chain, p(&[]), true));
        let ext: Vec<(String, String)> = (0..n).map(|i| (format!("e{i}"), if i == 0 { "{% block b %}root{% endblock %}".to_string() } else { format!("{{% extends \"e{}\" %}}{{% block b %}}{i},{{{{ super() }}}}{{% endblock %}}", i - 1) })).collect();
        long.push((format!("acyclic extends chain of {n}"), ext, p(&[]), true));
    }
    let mut fixed = vec![
        ("self-include".into(), s(&[("a", "{% include \"a\" %}")]), p(&[]), false),
        ("self-extends".into(), s(&[("a", "{% extends \"a\" %}")]), p(&[]), false),
        ("self-include through prefix".into(), s(&[("themes/a", "{% include \"a\" %}")]), p(&["themes/"]), false),
        ("self-extends through prefix".into(), s(&[("themes/a", "{% extends \"a\" %}")]), p(&["themes/"]), false),
        ("two-cycle of includes through prefixes".into(), s(&[("themes/a", "{% include \"b\" %}"), ("themes/b", "{% include \"a\" %}")]), p(&["themes/"]), false),
        ("two-cycle of extends through prefixes".into(), s(&[("themes/a", "{% extends \"b\" %}"), ("themes/b", "{% extends \"a\" %}")]), p(&["themes/"]), false),
        ("exact name shadows the prefixed one: no cycle".into(), s(&[("themes/a", "{% extends \"a\" %}{% block b %}child{% endblock %}"), ("a", "root{% block b %}{% endblock %}")]), p(&["themes/"]), true),
        ("include cycle entered from a tail".into(), s(&[("t", "{% include \"a\" %}"), ("a", "{% include \"b\" %}"), ("b", "{% include \"a\" %}")]), p(&[]), false),
        ("extends cycle entered from a tail".into(), s(&[("t", "{% extends \"a\" %}"), ("a", "{% extends \"b\" %}"), ("b", "{% extends \"a\" %}")]), p(&[]), false),
        ("include cycle through a component body".into(), s(&[("a", "{% component K() %}{% include \"b\" %}{% endcomponent K %}x"), ("b", "{% include \"a\" %}")]), p(&[]), false),
        ("include cycle through a dead branch".into(), s(&[("a", "{% if false %}{% include \"b\" %}{% endif %}"), ("b", "{% include \"a\" %}")]), p(&[]), false),
        ("include of a child whose parent includes nothing".into(), s(&[("base", "B{% block x %}{% endblock %}"), ("child", "{% extends \"base\" %}{% block x %}c{% endblock %}"), ("main", "{% include \"child\" %}")]), p(&[]), true),
        // finding F10: accepted, must terminate (now with an error)
        ("include in a block inherited by the included child".into(), s(&[("C", "{% block x %}{% include \"t\" %}{% endblock %}"), ("t", "{% extends \"C\" %}{% block x %}{{ super() }}{% endblock %}")]), p(&[]), true),
        // finding F9
        ("block nested in its own super chain".into(), s(&[("T0", "{% block a %}A{% block b %}B{% endblock %}{% endblock %}"), ("T2", "{% extends \"T0\" %}{% block b %}{% block a %}{{ super() }}{% endblock %}{% endblock %}")]), p(&[]), true),
        // no include cycle (the component is called, not included): accepted, and bounded by the component nesting limit
        ("component whose body includes a template that calls it again".into(), s(&[("lib", "{% component K() %}{% include \"again\" %}{% endcomponent K %}x"), ("again", "{{ <K /> }}")]), p(&[]), true),
        ("two components calling each other through includes".into(), s(&[("lib", "{% component A() %}{% include \"toB\" %}{% endcomponent A %}{% component B() %}{% include \"toA\" %}{% endcomponent B %}"), ("toB", "{{ <B /> }}"), ("toA", "{{ <A /> }}"), ("main", "{{ <A /> }}")]), p(&[]), true),
        ("diamond of includes".into(), s(&[("a", "{% include \"b\" %}{% include \"c\" %}"), ("b", "{% include \"d\" %}"), ("c", "{% include \"d\" %}"), ("d", "x")]), p(&[]), true),
        ("same target included many times".into(), s(&[("a", &"{% include \"b\" %}".repeat(40)), ("b", &"{% include \"c\" %}".repeat(40)), ("c", "x")]), p(&[]), true),
    ];
    fixed.extend(long);
    fixed
}
fn check_fixed(label: &str, sources: &[(String, String)], prefixes: &[String], expect_ok: bool, l: &mut Local) -> Check {
    let case = || json!({"kind": "fixed_graph", "label": label, "templates": sources, "prefixes": prefixes, "expect_ok": expect_ok});
    let mut t = tera::Tera::new();
    let _ = t.set_fallback_prefixes(prefixes.to_vec());
    let r = match guard(|| t.add_raw_templates(sources.to_vec()).map_err(|e| e.to_string())) {
        Ok(r) => r,
        Err(p) => return Err(Fail::new("C11/panic", format!("{label}: {p}"), case())),
    };
    l.eval();
    l.label("fixed-case");
    l.nontrivial(hash_str(label));
    match (r, expect_ok) {
        (Ok(()), false) => Err(Fail::new("C11/faulty-graph-accepted", format!("{label}: accepted {:?}", sources), case())),
        (Err(m), true) => Err(Fail::new("C11/valid-graph-rejected", format!("{label}: {}", first_line(&m)), case())),
        (Err(_), false) => Ok(()),
        (Ok(()), true) => {
            for (n, _) in sources {
                if let Err(p) = guard(|| t.render(n, &tera::Context::new()).map_err(|e| e.to_string())) {
                    return Err(Fail::new("C11/panic", format!("{label}: render({n}) panicked: {p}"), case()));
                }
                l.eval();
            }
            Ok(())
        }
    }
}

pub fn run(rep: &Report) {
    rep.set_rule("directed graphs over 2-9 templates (and chains/rings of 2-32): at most one extends edge per node, 0-2 include edges placed at top level, inside a block, inside a component body, inside a capture, inside a dead branch or inside a loop; targets may be missing; templates live in no directory or in one of three directories of which up to two are fallback prefixes (in either order), so that references spelled with short names resolve through prefixes and exact names shadow prefixed ones; self-loops, 2-cycles, long cycles, cycles entered from a tail, several faults at once. Oracle: independent graph analysis on the generated edges after resolution (exact name, then prefixes in order): any unresolved target, extends cycle or include cycle -> rejected, otherwise accepted; with exactly one fault class the ErrorKind (or message for unknown include targets) must be the corresponding one. Every accepted set is rendered from every template and must return. Registration and rendering run in worker subprocesses; a worker death is pinpointed and reported. Non-trivial: graph with a cycle, a dangling edge or depth >= 4; distinct by (sources, prefixes).");
    rep.assume("termination is checked for the generated depths (<= 32) in the reference environment; with several fault classes present only rejected-vs-accepted is compared (which error is reported first is not specified)");
    for k in rep.known.clone() {
        // crash-class repros run in the `fixed` worker family (a regression would abort this process)
        if k.repro.get("crash_class").and_then(|x| x.as_bool()).unwrap_or(false) {
            continue;
        }
        if let Some(Err(f)) = replay(rep, &k.repro) {
            rep.fail(f);
        }
    }
    let on_abnormal = |fam: &'static str| {
        move |rep: &Report, shard: u64, desc: &str, case: Option<serde_json::Value>, timed_out: bool| {
            if timed_out {
                rep.inconclusive(&format!("{fam} shard {shard} timed out (last case: {})", case.map(|c| c.to_string().chars().take(400).collect::<String>()).unwrap_or_default()));
                return;
            }
            let mut c = case.unwrap_or(json!({}));
            c["kind"] = json!("graph");
            rep.fail(Fail::new("C11/unbounded-recursion", format!("{fam} shard {shard}: worker {desc} while registering or rendering {}", c.to_string().chars().take(600).collect::<String>()), c));
        }
    };
    run_in_workers(rep, "fixed", 16, 300, on_abnormal("fixed"));
    run_in_workers(rep, "incremental_graphs", 16, 120, on_abnormal("incremental_graphs"));
    run_in_workers(rep, "layered", 1, 600, on_abnormal("layered"));
    rep.floor("layered-growth", 1);
    rep.floor("incremental:faulty-step-refused", 20_000);
    rep.floor("incremental:step-accepted", 200_000);
    run_in_workers(rep, "random_graphs", 16, 120, on_abnormal("random_graphs"));
    run_in_workers(rep, "chains_and_cycles", 16, 120, on_abnormal("chains_and_cycles"));
    for (lab, min) in [("graph:accepted", 90_000), ("graph:rejected", 300_000), ("single-fault:MissingParent", 9_000), ("single-fault:MissingInclude", 9_000), ("single-fault:ExtendsCycle", 9_000), ("single-fault:IncludeCycle", 9_000), ("graph:several-faults", 30_000), ("graph:with-prefixes", 300_000), ("graph:exact-name-shadows-prefixed", 30_000), ("graph:depth>=4", 15_000), ("graph:depth>=16", 3_000), ("fixed-case", 18)] {
        rep.floor(lab, min);
    }
}

pub fn replay(_rep: &Report, case: &serde_json::Value) -> Option<Check> {
    let mut l = Local::new();
    if case.get("kind").and_then(|x| x.as_str()) == Some("layered") {
        return Some(check_layered_growth(&mut l));
    }
    let sources: Vec<(String, String)> = case.get("templates")?.as_array()?.iter().map(|p| Some((p.get(0)?.as_str()?.to_string(), p.get(1)?.as_str()?.to_string()))).collect::<Option<_>>()?;
    let prefixes: Vec<String> = case.get("prefixes").and_then(|x| x.as_array()).map(|a| a.iter().filter_map(|x| x.as_str().map(|s| s.to_string())).collect()).unwrap_or_default();
    match case.get("kind")?.as_str()? {
        "incremental_graph" => {
            // source-level replay: after every accepted re-add, a fresh instance given the current sources in one batch must accept them
            let order: Vec<usize> = case.get("order").and_then(|x| x.as_array()).map(|a| a.iter().filter_map(|x| x.as_u64().map(|v| v as usize)).collect()).unwrap_or_else(|| (0..sources.len()).collect());
            let stub = |n: &str| format!("[stub {n}]{{% block b %}}{{% endblock %}}");
            let mut t = tera::Tera::new();
            let _ = t.set_fallback_prefixes(prefixes.clone());
            let mut cur: Vec<(String, String)> = sources.iter().map(|(n, _)| (n.clone(), stub(n))).collect();
            if t.add_raw_templates(cur.clone()).is_err() {
                return Some(Ok(()));
            }
            for i in order {
                let Some((n, src)) = sources.get(i) else { continue };
                if t.add_raw_template(n, src).is_ok() {
                    cur[i].1 = src.clone();
                    let mut fresh = tera::Tera::new();
                    let _ = fresh.set_fallback_prefixes(prefixes.clone());
                    if let Err(e) = fresh.add_raw_templates(cur.clone()) {
                        return Some(Err(Fail::new("C11/faulty-graph-accepted", format!("re-adding {n} was accepted, but a fresh instance rejects the resulting set: {}", first_line(&e.to_string())), case.clone())));
                    }
                }
            }
            Some(Ok(()))
        }
        "fixed_graph" => Some(check_fixed(case.get("label")?.as_str()?, &sources, &prefixes, case.get("expect_ok")?.as_bool()?, &mut l)),
        "graph" => {
            // source-level replay: accepted iff no expected fault was recorded; accepted sets must render
            let faulty = case.get("expected_faults").and_then(|x| x.as_array()).map(|a| !a.is_empty());
            match faulty {
                Some(f) => Some(check_fixed("replay", &sources, &prefixes, !f, &mut l)),
                None => {
                    // crash-class replay: just run it (the process dies if the defect is still there)
                    let mut t = tera::Tera::new();
                    let _ = t.set_fallback_prefixes(prefixes);
                    if t.add_raw_templates(sources.clone()).is_ok() {
                        for (n, _) in &sources {
                            let _ = t.render(n, &tera::Context::new());
                        }
                    }
                    Some(Ok(()))
                }
            }
        }
        _ => None,
    }
}
