//! C19 — Data put in a context through serde is represented faithfully.
use crate::core::*;
use crate::mval::*;
use proptest::prelude::*;
use serde::de::DeserializeOwned;
use serde::{Deserialize, Serialize};
use serde_json::json;
use std::collections::{BTreeMap, HashMap};
use std::fmt::Debug;

/// A member of the type family: knows its own reference model (the data it stands for).
pub trait Fam: Serialize + DeserializeOwned + Clone + Debug + 'static {
    fn model(&self) -> MVal;
    fn strat() -> BoxedStrategy<Self>;
    fn tyname() -> String;
}
pub trait FamKey: Fam + Ord + std::hash::Hash + Eq {
    fn mkey(&self) -> MKey;
}

macro_rules! int_fam {
    ($($t:ty),*) => {$(
        impl Fam for $t {
            fn model(&self) -> MVal { MVal::uint_or_int(*self as i128, (*self as u128), <$t>::MIN != 0) }
            fn strat() -> BoxedStrategy<Self> {
                // extremes of this width and of every narrower width (+-1), in both signs where representable
                let mut pool: Vec<$t> = vec![<$t>::MIN, <$t>::MAX, 0 as $t, 1 as $t, <$t>::MAX - 1, <$t>::MAX / 2 + 1];
                for p in [7u32, 8, 15, 16, 31, 32, 53, 63, 64, 127] {
                    for d in [-1i128, 0, 1] {
                        if p < 127 {
                            let v = (1i128 << p) + d;
                            if let Ok(x) = <$t>::try_from(v) { pool.push(x); }
                            if let Ok(x) = <$t>::try_from(-v) { pool.push(x); }
                        }
                    }
                    if p >= 63 {
                        if let Ok(x) = <$t>::try_from((1u128 << p) + 1) { pool.push(x); }
                        if let Ok(x) = <$t>::try_from((1u128 << p) - 1) { pool.push(x); }
                    }
                }
                prop_oneof![3 => any::<$t>(), 3 => prop::sample::select(pool), 2 => (0u8..6).prop_map(|x| x as $t)].boxed()
            }
            fn tyname() -> String { stringify!($t).to_string() }
        }
        impl FamKey for $t {
            fn mkey(&self) -> MKey { self.model().as_key().unwrap() }
        }
    )*};
}
impl MVal {
    /// helper for the macro: signed types use the i128 view, unsigned the u128 view
    pub fn uint_or_int(i: i128, u: u128, signed: bool) -> MVal {
        if signed {
            MVal::Int(i)
        } else {
            MVal::uint(u)
        }
    }
}
int_fam!(i8, i16, i32, i64, i128, u8, u16, u32, u64, u128);

impl Fam for f64 {
    fn model(&self) -> MVal {
        MVal::Float(*self)
    }
    fn strat() -> BoxedStrategy<Self> {
        prop_oneof![3 => any::<f64>(), 2 => prop_oneof![Just(0.0), Just(-0.0), Just(f64::NAN), Just(f64::INFINITY), Just(f64::NEG_INFINITY), Just(f64::MAX), Just(f64::MIN_POSITIVE), Just(5e-324), Just(1.0), Just(0.1)], 1 => (-50i32..50).prop_map(|x| x as f64 / 4.0)].boxed()
    }
    fn tyname() -> String {
        "f64".into()
    }
}
impl Fam for f32 {
    fn model(&self) -> MVal {
        MVal::Float(*self as f64)
    }
    fn strat() -> BoxedStrategy<Self> {
        prop_oneof![3 => any::<f32>(), 2 => prop_oneof![Just(0.0f32), Just(-0.0), Just(f32::NAN), Just(f32::INFINITY), Just(f32::MAX), Just(f32::MIN_POSITIVE), Just(1e-45), Just(0.1), Just(16777217.0)], 1 => (-50i32..50).prop_map(|x| x as f32 / 4.0)].boxed()
    }
    fn tyname() -> String {
        "f32".into()
    }
}
impl Fam for bool {
    fn model(&self) -> MVal {
        MVal::Bool(*self)
    }
    fn strat() -> BoxedStrategy<Self> {
        any::<bool>().boxed()
    }
    fn tyname() -> String {
        "bool".into()
    }
}
impl FamKey for bool {
    fn mkey(&self) -> MKey {
        MKey::Bool(*self)
    }
}
impl Fam for char {
    fn model(&self) -> MVal {
        MVal::Str(self.to_string(), false)
    }
    fn strat() -> BoxedStrategy<Self> {
        prop_oneof![2 => any::<char>(), 2 => prop_oneof![Just('a'), Just('<'), Just('"'), Just('\\'), Just('\n'), Just('é'), Just('日'), Just('😀'), Just('\0'), Just('\u{301}')]].boxed()
    }
    fn tyname() -> String {
        "char".into()
    }
}
impl FamKey for char {
    fn mkey(&self) -> MKey {
        MKey::Str(self.to_string())
    }
}
impl Fam for String {
    fn model(&self) -> MVal {
        MVal::Str(self.clone(), false)
    }
    fn strat() -> BoxedStrategy<Self> {
        prop_oneof![2 => Just(String::new()), 3 => "[a-c<&\"' ]{0,4}", 2 => prop::collection::vec(any::<char>(), 0..4).prop_map(|v| v.into_iter().collect()), 1 => Just("a long string that does not fit inline storage é日😀".to_string()), 1 => Just("exactly21bytes_______".to_string()), 1 => Just("exactly22bytes________".to_string())].boxed()
    }
    fn tyname() -> String {
        "String".into()
    }
}
impl FamKey for String {
    fn mkey(&self) -> MKey {
        MKey::Str(self.clone())
    }
}
impl Fam for () {
    fn model(&self) -> MVal {
        MVal::None
    }
    fn strat() -> BoxedStrategy<Self> {
        Just(()).boxed()
    }
    fn tyname() -> String {
        "()".into()
    }
}
impl<T: Fam> Fam for Option<T> {
    fn model(&self) -> MVal {
        match self {
            None => MVal::None,
            Some(x) => x.model(),
        }
    }
    fn strat() -> BoxedStrategy<Self> {
        prop_oneof![1 => Just(None), 3 => T::strat().prop_map(Some)].boxed()
    }
    fn tyname() -> String {
        format!("Option<{}>", T::tyname())
    }
}
impl<T: Fam> Fam for Vec<T> {
    fn model(&self) -> MVal {
        MVal::Array(self.iter().map(|x| x.model()).collect())
    }
    fn strat() -> BoxedStrategy<Self> {
        prop::collection::vec(T::strat(), 0..4).boxed()
    }
    fn tyname() -> String {
        format!("Vec<{}>", T::tyname())
    }
}
impl<T: Fam> Fam for Box<T> {
    fn model(&self) -> MVal {
        (**self).model()
    }
    fn strat() -> BoxedStrategy<Self> {
        T::strat().prop_map(Box::new).boxed()
    }
    fn tyname() -> String {
        format!("Box<{}>", T::tyname())
    }
}
macro_rules! tuple_fam {
    ($(($($n:tt $t:ident),+))*) => {$(
        impl<$($t: Fam),+> Fam for ($($t,)+) {
            fn model(&self) -> MVal { MVal::Array(vec![$(self.$n.model()),+]) }
            fn strat() -> BoxedStrategy<Self> { ($($t::strat(),)+).boxed() }
            fn tyname() -> String { format!("({})", [$($t::tyname()),+].join(",")) }
        }
    )*};
}
tuple_fam!((0 A) (0 A, 1 B) (0 A, 1 B, 2 C) (0 A, 1 B, 2 C, 3 D));
impl<K: FamKey, V: Fam> Fam for BTreeMap<K, V> {
    fn model(&self) -> MVal {
        MVal::Map(self.iter().map(|(k, v)| (k.mkey(), v.model())).collect())
    }
    fn strat() -> BoxedStrategy<Self> {
        prop::collection::btree_map(K::strat(), V::strat(), 0..5).boxed()
    }
    fn tyname() -> String {
        format!("BTreeMap<{},{}>", K::tyname(), V::tyname())
    }
}
impl<K: FamKey, V: Fam> Fam for HashMap<K, V> {
    fn model(&self) -> MVal {
        MVal::Map(self.iter().map(|(k, v)| (k.mkey(), v.model())).collect())
    }
    fn strat() -> BoxedStrategy<Self> {
        prop::collection::hash_map(K::strat(), V::strat(), 0..5).boxed()
    }
    fn tyname() -> String {
        format!("HashMap<{},{}>", K::tyname(), V::tyname())
    }
}

// ---- user-defined shapes ----------------------------------------------------------------------
#[derive(Serialize, Deserialize, Clone, Debug)]
pub struct UnitS;
impl Fam for UnitS {
    fn model(&self) -> MVal {
        MVal::None
    }
    fn strat() -> BoxedStrategy<Self> {
        Just(UnitS).boxed()
    }
    fn tyname() -> String {
        "UnitS".into()
    }
}
#[derive(Serialize, Deserialize, Clone, Debug)]
pub struct Newtype(pub u32);
impl Fam for Newtype {
    fn model(&self) -> MVal {
        self.0.model()
    }
    fn strat() -> BoxedStrategy<Self> {
        u32::strat().prop_map(Newtype).boxed()
    }
    fn tyname() -> String {
        "Newtype(u32)".into()
    }
}
#[derive(Serialize, Deserialize, Clone, Debug)]
pub struct NewtypeS(pub String);
impl Fam for NewtypeS {
    fn model(&self) -> MVal {
        self.0.model()
    }
    fn strat() -> BoxedStrategy<Self> {
        String::strat().prop_map(NewtypeS).boxed()
    }
    fn tyname() -> String {
        "NewtypeS(String)".into()
    }
}
#[derive(Serialize, Deserialize, Clone, Debug)]
pub struct TupleS(pub i8, pub String, pub Option<u64>);
impl Fam for TupleS {
    fn model(&self) -> MVal {
        MVal::Array(vec![self.0.model(), self.1.model(), self.2.model()])
    }
    fn strat() -> BoxedStrategy<Self> {
        (i8::strat(), String::strat(), Option::<u64>::strat()).prop_map(|(a, b, c)| TupleS(a, b, c)).boxed()
    }
    fn tyname() -> String {
        "TupleS".into()
    }
}
#[derive(Serialize, Deserialize, Clone, Debug)]
pub enum En {
    Unit,
    Other,
    New(i64),
    NewS(String),
    NewO(Option<u8>),
    Tup(u8, String),
    Tup3(bool, f64, char),
    St { a: i16, b: Vec<u8> },
    Nested(Box<Inner>),
}
impl Fam for En {
    fn model(&self) -> MVal {
        let wrap = |n: &str, v: MVal| MVal::smap(vec![(n, v)]);
        match self {
            En::Unit => MVal::s("Unit"),
            En::Other => MVal::s("Other"),
            En::New(x) => wrap("New", x.model()),
            En::NewS(x) => wrap("NewS", x.model()),
            En::NewO(x) => wrap("NewO", x.model()),
            En::Tup(a, b) => wrap("Tup", MVal::Array(vec![a.model(), b.model()])),
            En::Tup3(a, b, c) => wrap("Tup3", MVal::Array(vec![a.model(), b.model(), c.model()])),
            En::St { a, b } => wrap("St", MVal::smap(vec![("a", a.model()), ("b", b.model())])),
            En::Nested(i) => wrap("Nested", i.model()),
        }
    }
    fn strat() -> BoxedStrategy<Self> {
        prop_oneof![
            Just(En::Unit),
            Just(En::Other),
            i64::strat().prop_map(En::New),
            String::strat().prop_map(En::NewS),
            Option::<u8>::strat().prop_map(En::NewO),
            (u8::strat(), String::strat()).prop_map(|(a, b)| En::Tup(a, b)),
            (bool::strat(), f64::strat(), char::strat()).prop_map(|(a, b, c)| En::Tup3(a, b, c)),
            (i16::strat(), Vec::<u8>::strat()).prop_map(|(a, b)| En::St { a, b }),
            Inner::strat().prop_map(|i| En::Nested(Box::new(i))),
        ]
        .boxed()
    }
    fn tyname() -> String {
        "En".into()
    }
}
#[derive(Serialize, Deserialize, Clone, Debug)]
pub struct Inner {
    pub id: Newtype,
    pub name: String,
    pub score: f32,
    pub tags: Vec<String>,
    pub pos: (i32, u16),
    pub big: u128,
    pub neg: i128,
    pub opt: Option<Vec<i8>>,
    pub unit: (),
    pub c: char,
}
impl Fam for Inner {
    fn model(&self) -> MVal {
        MVal::smap(vec![("id", self.id.model()), ("name", self.name.model()), ("score", self.score.model()), ("tags", self.tags.model()), ("pos", self.pos.model()), ("big", self.big.model()), ("neg", self.neg.model()), ("opt", self.opt.model()), ("unit", MVal::None), ("c", self.c.model())])
    }
    fn strat() -> BoxedStrategy<Self> {
        ((Newtype::strat(), String::strat(), f32::strat(), Vec::<String>::strat(), <(i32, u16)>::strat()), (u128::strat(), i128::strat(), Option::<Vec<i8>>::strat(), char::strat())).prop_map(|((id, name, score, tags, pos), (big, neg, opt, c))| Inner { id, name, score, tags, pos, big, neg, opt, unit: (), c }).boxed()
    }
    fn tyname() -> String {
        "Inner".into()
    }
}
#[derive(Serialize, Deserialize, Clone, Debug)]
pub struct Outer {
    pub inner: Inner,
    pub kind: En,
    pub kinds: Vec<En>,
    pub by_name: BTreeMap<String, En>,
    pub by_id: HashMap<u64, Option<TupleS>>,
    pub by_neg: BTreeMap<i8, char>,
    pub by_flag: BTreeMap<bool, UnitS>,
    pub by_char: BTreeMap<char, (u8,)>,
    pub maybe: Option<Box<Inner>>,
    pub nt: NewtypeS,
}
impl Fam for Outer {
    fn model(&self) -> MVal {
        MVal::smap(vec![("inner", self.inner.model()), ("kind", self.kind.model()), ("kinds", self.kinds.model()), ("by_name", self.by_name.model()), ("by_id", self.by_id.model()), ("by_neg", self.by_neg.model()), ("by_flag", self.by_flag.model()), ("by_char", self.by_char.model()), ("maybe", self.maybe.model()), ("nt", self.nt.model())])
    }
    fn strat() -> BoxedStrategy<Self> {
        ((Inner::strat(), En::strat(), Vec::<En>::strat(), BTreeMap::<String, En>::strat(), HashMap::<u64, Option<TupleS>>::strat()), (BTreeMap::<i8, char>::strat(), BTreeMap::<bool, UnitS>::strat(), BTreeMap::<char, (u8,)>::strat(), Option::<Box<Inner>>::strat(), NewtypeS::strat())).prop_map(|((inner, kind, kinds, by_name, by_id), (by_neg, by_flag, by_char, maybe, nt))| Outer { inner, kind, kinds, by_name, by_id, by_neg, by_flag, by_char, maybe, nt }).boxed()
    }
    fn tyname() -> String {
        "Outer".into()
    }
}

#[derive(Serialize, Clone, Debug)]
struct Wrap<'a, T: Serialize> {
    v: &'a T,
}

thread_local! {
    static ENGINE: tera::Tera = { let mut t = tera::Tera::new(); t.add_raw_template("p", "{{ v }}").unwrap(); t };
}
fn print_ctx(c: &tera::Context) -> Out {
    ENGINE.with(|t| match guard(|| t.render("p", c).map_err(|e| err_text(&e))) {
        Ok(Ok(s)) => Out::Ok(s),
        Ok(Err(e)) => Out::Err(e),
        Err(p) => Out::Panic(p),
    })
}

pub fn check_value<T: Fam>(x: &T, l: &mut Local) -> Check {
    let ty = T::tyname();
    let m = x.model();
    let case = || json!({"kind": "serde", "type": ty, "value_json": serde_json::to_string(x).unwrap_or_default(), "value_debug": format!("{:?}", x), "model": to_json(&m)});
    let fail = |sig: &str, what: String| Err(Fail::new(format!("C19/{sig}"), format!("{ty} value {:?}: {what}", x), case()));
    // T -> Value
    let v = match guard(|| tera::Value::try_from_serializable(x)) {
        Ok(Ok(v)) => v,
        Ok(Err(e)) => return fail("serialize-refused", format!("a representable value was refused: {e}")),
        Err(p) => return fail("panic/serialize", p),
    };
    l.eval();
    // the Value holds exactly the data (kind by kind)
    let got_model = from_tera(&v);
    if canon(&strip_safe(&got_model)) != canon(&m) {
        return fail("value-differs", format!("converted value is {} but the data is {}", canon(&got_model), canon(&m)));
    }
    // Value -> T by value and by reference
    for (how, back) in [("by-value", guard(|| T::deserialize(v.clone()).map_err(|e| e.to_string()))), ("by-reference", guard(|| T::deserialize(&v).map_err(|e| e.to_string())))] {
        l.eval();
        match back {
            Ok(Ok(y)) => {
                if canon(&y.model()) != canon(&m) {
                    return fail(&format!("roundtrip-altered/{how}"), format!("read back as {:?}", y));
                }
            }
            Ok(Err(e)) => return fail(&format!("roundtrip-failed/{how}"), format!("deserialisation failed: {e}")),
            Err(p) => return fail(&format!("panic/deserialize/{how}"), p),
        }
    }
    // printing is determined by the data alone; the three ways of filling a context are interchangeable
    let exp = m.display();
    let mut c1 = tera::Context::new();
    if let Err(p) = guard(|| c1.insert("v", x)) {
        return fail("panic/insert", p);
    }
    let mut c2 = tera::Context::new();
    c2.insert_value("v", v.clone());
    let c3 = match guard(|| tera::Context::from_serialize(&Wrap { v: x })) {
        Ok(Ok(c)) => c,
        Ok(Err(e)) => return fail("from-serialize-refused", e.to_string()),
        Err(p) => return fail("panic/from_serialize", p),
    };
    // the converted value is itself serialisable data: `insert` of the converted value goes through Serialize for Value
    let mut c4 = tera::Context::new();
    if let Err(p) = guard(|| c4.insert("v", &v)) {
        return fail("panic/insert-converted", p);
    }
    match guard(|| tera::Value::try_from_serializable(&v)) {
        Ok(Ok(v2)) => {
            if from_tera(&v2) != from_tera(&v) {
                return fail("reconversion-differs", format!("converting the converted value again gives {:?} instead of {:?}", canon(&from_tera(&v2)), canon(&from_tera(&v))));
            }
        }
        Ok(Err(e)) => return fail("reconversion-refused", e.to_string()),
        Err(p) => return fail("panic/reconversion", p),
    }
    for (how, c) in [("insert", &c1), ("insert_value", &c2), ("from_serialize", &c3), ("insert-converted", &c4)] {
        let got = print_ctx(c);
        l.eval();
        // an Option::None / unit at top level prints as nothing
        if got != Out::Ok(exp.clone()) {
            return fail(&format!("print/{how}"), format!("`{{{{ v }}}}` printed {:?}, the data prints as {:?}", got, exp));
        }
    }
    l.label(&format!("type:{}", short(&ty)));
    if matches!(m, MVal::Array(_) | MVal::Map(_)) {
        l.label("shape:container");
    }
    if m.contains_kind(&|v| matches!(v, MVal::Big(_)) || matches!(v, MVal::Int(i) if i.unsigned_abs() > i64::MAX as u128)) {
        l.label("data:beyond-64-bit");
    }
    if m.contains_kind(&|v| matches!(v, MVal::Float(f) if !f.is_finite() || (*f == 0.0 && f.is_sign_negative()))) {
        l.label("data:special-float");
    }
    if m.contains_kind(&|v| matches!(v, MVal::Map(m) if m.keys().any(|k| !matches!(k, MKey::Str(_))))) {
        l.label("data:non-string-key");
    }
    l.nontrivial(hash_of(&(ty.clone(), canon(&m))));
    l.sample(|| case());
    Ok(())
}
fn short(t: &str) -> String {
    t.chars().take(28).collect()
}
fn strip_safe(v: &MVal) -> MVal {
    v.clone()
}

// ---- unrepresentable keys ----------------------------------------------------------------------
struct BadMap<K: Serialize + Clone>(Vec<(K, i32)>);
impl<K: Serialize + Clone> Serialize for BadMap<K> {
    fn serialize<S: serde::Serializer>(&self, s: S) -> Result<S::Ok, S::Error> {
        use serde::ser::SerializeMap;
        let mut m = s.serialize_map(Some(self.0.len()))?;
        for (k, v) in &self.0 {
            m.serialize_entry(k, v)?;
        }
        m.end()
    }
}
#[derive(Serialize, Clone)]
struct KeyStruct {
    a: i32,
}
#[derive(Serialize, Clone)]
struct Holder<T: Serialize> {
    ok: i32,
    nested: Vec<T>,
}
fn must_refuse<K: Serialize + Clone>(name: &str, k: K, l: &mut Local) -> Check {
    let fail = |what: String| Err(Fail::new(format!("C19/unsupported-key-accepted/{name}"), what, json!({"kind": "bad_key", "key_type": name})));
    for (depth, r) in [("top", guard(|| tera::Value::try_from_serializable(&BadMap(vec![(k.clone(), 1)])))), ("nested", guard(|| tera::Value::try_from_serializable(&Holder { ok: 1, nested: vec![BadMap(vec![(k.clone(), 1)])] }))), ("context", guard(|| tera::Context::from_serialize(&Holder { ok: 1, nested: vec![BadMap(vec![(k.clone(), 1)])] }).map(|_| tera::Value::none())))] {
        l.eval();
        match r {
            Ok(Err(_)) => {}
            Ok(Ok(v)) => return fail(format!("a map with a {name} key ({depth}) was accepted and became {:?}", v)),
            Err(p) => return fail(format!("a map with a {name} key ({depth}) panicked: {p}")),
        }
    }
    l.label("bad-key-refused");
    l.nontrivial(hash_str(name));
    Ok(())
}

macro_rules! all_types {
    ($cb:ident, $($args:tt)*) => {
        $cb!($($args)*; i8, i16, i32, i64, i128, u8, u16, u32, u64, u128, f32, f64, bool, char, String, (),
        Option<i32>, Option<String>, Option<u128>, Option<Vec<u8>>, Option<(i8, char)>, Option<En>, Option<Newtype>, Vec<Option<i64>>, Vec<Vec<u16>>, Vec<String>, Vec<f32>, Vec<En>, Vec<()>,
        (i8,), (u64, String), (f64, bool, char), (i128, u128, Option<u8>, String), ((i8, u8), Vec<(char,)>),
        UnitS, Newtype, NewtypeS, TupleS, En, Inner, Outer, Box<En>, Vec<Newtype>, (Newtype, NewtypeS),
        BTreeMap<String, i32>, BTreeMap<char, String>, BTreeMap<bool, f64>, BTreeMap<i8, u8>, BTreeMap<i16, En>, BTreeMap<i32, Vec<i32>>, BTreeMap<i64, Option<String>>, BTreeMap<i128, bool>, BTreeMap<u8, char>, BTreeMap<u16, ()>, BTreeMap<u32, (u8, u8)>, BTreeMap<u64, u64>, BTreeMap<u128, i128>,
        HashMap<String, Inner>, HashMap<u64, String>, HashMap<i64, Vec<Option<bool>>>, HashMap<char, u128>, HashMap<bool, En>, BTreeMap<String, BTreeMap<i8, Vec<String>>>)
    };
}
macro_rules! fam_list {
    ($rep:expr, $n:expr; $($t:ty),* $(,)?) => {$(
        run_family($rep, &format!("type:{}", short(&<$t as Fam>::tyname())), $n, || <$t as Fam>::strat(), |x, l| check_value::<$t>(x, l));
    )*};
}
macro_rules! replay_list {
    ($name:expr, $json:expr, $l:expr; $($t:ty),* $(,)?) => {{
        let mut out: Option<Check> = None;
        $(
            if out.is_none() && <$t as Fam>::tyname() == $name {
                out = serde_json::from_str::<$t>($json).ok().map(|x| check_value::<$t>(&x, $l));
            }
        )*
        out
    }};
}

pub fn run(rep: &Report) {
    rep.set_rule("values of a family of 60+ concrete Rust types with derived Serialize/Deserialize (every primitive width, f32/f64, char, String, unit, Option, Vec, Box, tuples of arity 1-4, unit/newtype/tuple structs, structs, enums with unit/newtype/tuple/struct variants, BTreeMap/HashMap keyed by String, char, bool and each integer width, nested combinations) generated by hand-written proptest strategies biased to type extremes; each value is converted with Value::try_from_serializable, compared kind by kind with its reference model, read back with T::deserialize(value) and T::deserialize(&value), and printed through `{{ v }}` from contexts filled by insert, insert_value and from_serialize. Non-trivial: every distinct (type, value).");
    rep.assume("Option directly inside Option and Option<()> are excluded (the statement excludes them); NaN payload bits are not compared (NaN reads back as NaN)");
    for k in rep.known.clone() {
        if k.repro.get("kind").and_then(|x| x.as_str()) == Some("serde_fixed") {
            let mut l = Local::new();
            let r = fixed_repros(&mut l);
            if let Err(f) = r {
                rep.fail(f);
            }
        }
    }
    let n = rep.tier.scale(18_000, 10);
    all_types!(fam_list, rep, n)
    ;
    // unrepresentable keys must be refused
    let t0 = std::time::Instant::now();
    let mut l = Local::new();
    let checks: Vec<Check> = vec![
        must_refuse("f64", 1.5f64, &mut l),
        must_refuse("f32", 1.0f32, &mut l),
        must_refuse("tuple", (1i32, 2i32), &mut l),
        must_refuse("none", Option::<String>::None, &mut l),
        must_refuse("seq", vec![1u8, 2], &mut l),
        must_refuse("struct", KeyStruct { a: 1 }, &mut l),
        must_refuse("unit", (), &mut l),
        must_refuse("map", BTreeMap::from([("a".to_string(), 1)]), &mut l),
    ];
    for c in checks {
        if let Err(f) = c {
            rep.fail(f);
        }
    }
    rep.merge(l);
    rep.family_done("unsupported_keys", 8, t0, true);
    rep.floor("bad-key-refused", 8);
    rep.floor("data:beyond-64-bit", 5_000);
    rep.floor("data:special-float", 5_000);
    rep.floor("data:non-string-key", 20_000);
    rep.floor("type:Outer", 1_000);
    rep.floor("type:En", 1_000);
}

/// fixed regression cases for findings of this property (F12)
fn fixed_repros(l: &mut Local) -> Check {
    check_value::<Option<i32>>(&Some(5), l)?;
    check_value::<Newtype>(&Newtype(7), l)?;
    check_value::<En>(&En::Tup(1, "x".into()), l)?;
    check_value::<(Newtype, NewtypeS)>(&(Newtype(1), NewtypeS("a".into())), l)
}

pub fn replay(_rep: &Report, case: &serde_json::Value) -> Option<Check> {
    let mut l = Local::new();
    match case.get("kind")?.as_str()? {
        "serde_fixed" | "bad_key" => Some(fixed_repros(&mut l)),
        "serde" => {
            // typed value stored as JSON (non-finite floats do not survive JSON: such replays fall back to the fixed set)
            let name = case.get("type")?.as_str()?.to_string();
            let js = case.get("value_json")?.as_str()?.to_string();
            let r: Option<Check> = all_types!(replay_list, name, &js, &mut l);
            r.or_else(|| Some(fixed_repros(&mut Local::new())))
        }
        _ => None,
    }
}
