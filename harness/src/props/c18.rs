//! C18 — Output channels agree, write failures surface, rendering is pure and thread-safe.
use crate::core::*;
use crate::expr::*;
use crate::mval::*;
use crate::stmt::*;
use crate::stmtgen;
use proptest::prelude::*;
use serde_json::json;
use std::io::Write;
use std::sync::Arc;

// ------------------------------------------------------------------------------------------
// writers

/// accepts bytes up to `limit`, then fails
struct FailAtByte {
    limit: usize,
    got: Vec<u8>,
    calls_after_failure: usize,
    failed: bool,
}
impl Write for FailAtByte {
    fn write(&mut self, buf: &[u8]) -> std::io::Result<usize> {
        if self.failed {
            self.calls_after_failure += 1;
        }
        if buf.is_empty() {
            return Ok(0);
        }
        let room = self.limit - self.got.len();
        if room == 0 {
            self.failed = true;
            return Err(std::io::Error::new(std::io::ErrorKind::BrokenPipe, "writer full"));
        }
        let k = room.min(buf.len());
        self.got.extend_from_slice(&buf[..k]);
        Ok(k)
    }
    fn flush(&mut self) -> std::io::Result<()> {
        Ok(())
    }
}
/// fails on the k-th call of `write` (1-based)
struct FailAtCall {
    k: usize,
    calls: usize,
    got: Vec<u8>,
}
impl Write for FailAtCall {
    fn write(&mut self, buf: &[u8]) -> std::io::Result<usize> {
        self.calls += 1;
        if self.calls == self.k {
            return Err(std::io::Error::new(std::io::ErrorKind::Other, "k-th write fails"));
        }
        self.got.extend_from_slice(buf);
        Ok(buf.len())
    }
    fn flush(&mut self) -> std::io::Result<()> {
        Ok(())
    }
}
/// accepts 1..=3 bytes per call (pattern from a seed), sometimes reports Interrupted first
struct ShortWrites {
    seed: u64,
    got: Vec<u8>,
    one_byte: bool,
}
impl Write for ShortWrites {
    fn write(&mut self, buf: &[u8]) -> std::io::Result<usize> {
        if buf.is_empty() {
            return Ok(0);
        }
        self.seed = splitmix(self.seed);
        if !self.one_byte && self.seed % 11 == 0 {
            return Err(std::io::Error::new(std::io::ErrorKind::Interrupted, "try again"));
        }
        let k = if self.one_byte { 1 } else { (1 + (self.seed >> 8) % 3) as usize }.min(buf.len());
        self.got.extend_from_slice(&buf[..k]);
        Ok(k)
    }
    fn flush(&mut self) -> std::io::Result<()> {
        Ok(())
    }
}

// ------------------------------------------------------------------------------------------
// one render request against an instance

#[derive(Debug, Clone)]
pub enum Req {
    Template(String),
    Block(String, String),
    Component(String, Option<String>, bool),
    Str(String, bool),
}
impl Req {
    fn json(&self) -> serde_json::Value {
        match self {
            Req::Template(t) => json!({"render": t}),
            Req::Block(t, b) => json!({"render_block": [t, b]}),
            Req::Component(c, b, a) => json!({"render_component": [c, b, a]}),
            Req::Str(s, a) => json!({"render_str": [s, a]}),
        }
    }
    fn from_json(j: &serde_json::Value) -> Option<Req> {
        if let Some(t) = j.get("render").and_then(|x| x.as_str()) {
            return Some(Req::Template(t.to_string()));
        }
        if let Some(a) = j.get("render_block").and_then(|x| x.as_array()) {
            return Some(Req::Block(a.first()?.as_str()?.to_string(), a.get(1)?.as_str()?.to_string()));
        }
        if let Some(a) = j.get("render_component").and_then(|x| x.as_array()) {
            return Some(Req::Component(a.first()?.as_str()?.to_string(), a.get(1)?.as_str().map(|s| s.to_string()), a.get(2)?.as_bool()?));
        }
        let a = j.get("render_str")?.as_array()?;
        Some(Req::Str(a.first()?.as_str()?.to_string(), a.get(1)?.as_bool()?))
    }
    fn to_string_api(&self, t: &tera::Tera, c: &tera::Context) -> Result<String, tera::Error> {
        match self {
            Req::Template(n) => t.render(n, c),
            Req::Block(n, b) => t.render_block(n, b, c),
            Req::Component(n, b, a) => t.render_component(n, c, b.as_deref(), *a),
            Req::Str(s, a) => {
                let mut t2 = t.clone();
                t2.render_str(s, c, *a)
            }
        }
    }
    fn to_writer(&self, t: &tera::Tera, c: &tera::Context, w: &mut dyn Write) -> Result<(), tera::Error> {
        match self {
            Req::Template(n) => t.render_to(n, c, w),
            Req::Block(n, b) => t.render_block_to(n, b, c, w),
            Req::Component(n, b, a) => t.render_component_to(n, c, b.as_deref(), *a, w),
            Req::Str(s, a) => t.render_str_to(s, c, *a, w),
        }
    }
}

fn is_io(e: &tera::Error) -> bool {
    matches!(e.kind(), tera::ErrorKind::Io(_))
}

/// channel agreement + fault enumeration + purity for one (instance, request, context)
pub fn check_request(t: &tera::Tera, req: &Req, ctx: &tera::Context, case: &dyn Fn() -> serde_json::Value, exhaustive_limit: usize, seed: u64, l: &mut Local) -> Check {
    let fail = |sig: &str, what: String| Err(Fail::new(format!("C18/{sig}"), format!("{} :: {what}", req.json()), case()));
    let ctx_before = ctx.clone();
    // resource guard: a request whose output exceeds 8 MiB is not a case for this check (generated programs can be
    // legitimate output bombs); it is discarded and counted
    struct Cap {
        left: usize,
        hit: bool,
    }
    impl Write for Cap {
        fn write(&mut self, b: &[u8]) -> std::io::Result<usize> {
            if b.len() > self.left {
                self.hit = true;
                return Err(std::io::Error::new(std::io::ErrorKind::Other, "output cap of the harness"));
            }
            self.left -= b.len();
            Ok(b.len())
        }
        fn flush(&mut self) -> std::io::Result<()> {
            Ok(())
        }
    }
    let mut cap = Cap { left: 8 << 20, hit: false };
    let _ = guard(|| req.to_writer(t, ctx, &mut cap));
    if cap.hit {
        l.discard();
        l.label("request:output-over-8MiB-discarded");
        return Ok(());
    }
    let full = match guard(|| req.to_string_api(t, ctx)) {
        Ok(Ok(s)) => s,
        Ok(Err(e)) => {
            // a failing render must fail the same way through the writer API (and write a prefix of nothing in particular)
            let mut sink = Vec::new();
            let r2 = guard(|| req.to_writer(t, ctx, &mut sink));
            l.evals_n(2);
            l.label("request:render-error");
            return match r2 {
                Ok(Err(e2)) if std::mem::discriminant(e.kind()) == std::mem::discriminant(e2.kind()) => Ok(()),
                Ok(Err(e2)) => fail("channels-disagree-on-error", format!("render -> {:?}, render_to -> {:?}", first_line(&e.to_string()), first_line(&e2.to_string()))),
                Ok(Ok(())) => fail("channels-disagree-on-error", format!("render failed ({}) but render_to succeeded with {} bytes", first_line(&e.to_string()), sink.len())),
                Err(p) => fail("panic", p),
            };
        }
        Err(p) => return fail("panic", p),
    };
    l.eval();
    let bytes = full.as_bytes();
    // (1) channels
    let mut v = Vec::new();
    match guard(|| req.to_writer(t, ctx, &mut v)) {
        Ok(Ok(())) if v == bytes => {}
        Ok(r) => return fail("channels-differ", format!("render gave {:?}, the writer received {:?} ({:?})", full, String::from_utf8_lossy(&v), r.err().map(|e| e.to_string()))),
        Err(p) => return fail("panic", p),
    }
    for one_byte in [true, false] {
        let mut w = ShortWrites { seed: seed | 1, got: vec![], one_byte };
        match guard(|| req.to_writer(t, ctx, &mut w)) {
            Ok(Ok(())) if w.got == bytes => {}
            Ok(r) => return fail("short-writes-lose-bytes", format!("a writer accepting {} per call received {:?} instead of {:?} ({:?})", if one_byte { "1 byte" } else { "1-3 bytes with interruptions" }, String::from_utf8_lossy(&w.got), full, r.err().map(|e| e.to_string()))),
            Err(p) => return fail("panic", p),
        }
    }
    l.evals_n(3);
    // (2) fault enumeration
    let offsets: Vec<usize> = if bytes.len() <= exhaustive_limit { (0..bytes.len()).collect() } else {
        let mut s = seed;
        let mut o: Vec<usize> = (0..64).map(|_| { s = splitmix(s); (s % bytes.len() as u64) as usize }).collect();
        o.extend([0, 1, bytes.len() - 1, bytes.len() / 2]);
        o.sort();
        o.dedup();
        o
    };
    if bytes.len() <= exhaustive_limit {
        l.label("faults:exhaustive-offsets");
    }
    for n in &offsets {
        let mut w = FailAtByte { limit: *n, got: vec![], calls_after_failure: 0, failed: false };
        let r = guard(|| req.to_writer(t, ctx, &mut w));
        l.eval();
        l.label("fault:byte-offset");
        match r {
            Ok(Err(e)) if is_io(&e) => {
                if !bytes.starts_with(&w.got) {
                    return fail("accepted-bytes-not-a-prefix", format!("writer failing at offset {n}: accepted {:?}, full output {:?}", String::from_utf8_lossy(&w.got), full));
                }
                let _ = e.to_string();
            }
            Ok(Err(e)) => return fail("write-failure-wrong-kind", format!("writer failing at offset {n}: error is not an I/O error: {:?}", first_line(&e.to_string()))),
            Ok(Ok(())) => return fail("write-failure-swallowed", format!("writer failing at offset {n} of {}: render_to returned Ok; accepted {:?}", bytes.len(), String::from_utf8_lossy(&w.got))),
            Err(p) => return fail("panic", format!("writer failing at offset {n}: {p}")),
        }
    }
    // k-th write call
    let mut k = 1;
    loop {
        let mut w = FailAtCall { k, calls: 0, got: vec![] };
        let r = guard(|| req.to_writer(t, ctx, &mut w));
        l.eval();
        if w.calls < k {
            // fewer than k calls are made: the render must have succeeded
            match r {
                Ok(Ok(())) if w.got == bytes => {}
                other => return fail("channels-differ", format!("counting writer (no failure reached): {:?}", other.map(|x| x.map_err(|e| e.to_string())))),
            }
            break;
        }
        l.label("fault:write-call");
        match r {
            Ok(Err(e)) if is_io(&e) => {
                if !bytes.starts_with(&w.got) {
                    return fail("accepted-bytes-not-a-prefix", format!("writer failing at call {k}: accepted {:?}, full output {:?}", String::from_utf8_lossy(&w.got), full));
                }
            }
            Ok(Err(e)) => return fail("write-failure-wrong-kind", format!("writer failing at call {k}: {:?}", first_line(&e.to_string()))),
            Ok(Ok(())) => return fail("write-failure-swallowed", format!("writer failing at call {k}: render_to returned Ok; accepted {:?} of {:?}", String::from_utf8_lossy(&w.got), full)),
            Err(p) => return fail("panic", format!("writer failing at call {k}: {p}")),
        }
        k += 1;
        if k > 400 {
            // sample the rest
            k += (seed as usize % 7) + 13;
        }
        if k > 5000 {
            break;
        }
    }
    // (3) purity
    match guard(|| req.to_string_api(t, ctx)) {
        Ok(Ok(s)) if s == full => {}
        other => return fail("not-repeatable", format!("second render differs: {:?}", other.map(|x| x.map_err(|e| e.to_string())))),
    }
    if *ctx != ctx_before {
        return fail("context-modified", "the context no longer equals its clone after rendering".into());
    }
    l.label("request:ok");
    if !bytes.is_empty() {
        l.nontrivial(hash_of(&(req.json().to_string(), full.clone())));
        if bytes.len() > 20 {
            l.sample(|| json!({"request": req.json(), "output_bytes": bytes.len(), "output": full.chars().take(200).collect::<String>(), "checked": "render == render_to(Vec) == 1-byte writer == short-write writer; every failing offset/write call gives Err with the accepted bytes a prefix; repeat and context equality"}));
        }
    }
    Ok(())
}

// ------------------------------------------------------------------------------------------
// fixed rich instance

pub fn rich_templates() -> Vec<(String, String)> {
    let mut chain: Vec<(String, String)> = (1..40).map(|i| (format!("chain{i}.txt"), if i < 39 { format!("{i},{{% include \"chain{}.txt\" %}}", i + 1) } else { "end{{ n }}".to_string() })).collect();
    let mut v = rich_templates_fixed();
    v.append(&mut chain);
    v
}
fn rich_templates_fixed() -> Vec<(String, String)> {
    vec![
        ("base.html".into(), "<html>{% block head %}<title>{{ title }}</title>{% endblock %}{% block body %}[{% for i in items %}{{ loop.index }}:{{ i.name }}{% if not loop.last %},{% endif %}{% endfor %}]{% endblock %}{% include \"foot.html\" %}</html>".into()),
        ("page.html".into(), "{% extends \"base.html\" %}{% block body %}{{ super() }}{% set cap %}<i>{{ user.bio }}</i>{% endset %}{{ cap }}{{ cap | upper }}{% filter upper %}x{{ user.bio }}{% block inner %}in{{ n }}{% endblock %}{% endfilter %}{{ <ui.Card title={ title } n={ n } /> }}{% <ui.Box> %}b{{ user.name }}{% </ui.Box> %}{% endblock %}".into()),
        ("foot.html".into(), "<footer>{{ user.name }} &amp; {{ n * 2 }} {{ [1, 2, n] }} {{ {\"k\": title} }}{% include \"deep.txt\" %}</footer>".into()),
        ("deep.txt".into(), "{% for c in title %}{{ c }}{% if loop.index > 3 %}{% break %}{% endif %}{% endfor %}{{ user.bio }}".into()),
        ("lib.html".into(), "{% component ui.Card(title: string, n: integer = 0, ...rest) %}<card>{{ title }}#{{ n }}{{ rest }}</card>{% endcomponent ui.Card %}{% component ui.Box() %}<box>{{ body }}</box>{% endcomponent ui.Box %}".into()),
        ("plain.txt".into(), "{{ user.bio }}|{{ user.bio | safe }}|{{ items | length }}|{% raw %}{{ raw }}{% endraw %}{# c #}".into()),
        ("empty.html".into(), "".into()),
        ("text.html".into(), "only text é 日本".into()),
        ("err.html".into(), "before{{ 1 / 0 }}after".into()),
        ("blob.html".into(), "{{ blob }}|{{ [blob] }}|{% for b in blobs %}<{{ b }}>{% endfor %}|{{ blob | safe }}{% set c %}{{ blob }}{% endset %}{{ c }}".into()),
        // maps built while rendering print in sorted key order whatever their hash order: repeating the render gives the same bytes
        ("maps.html".into(), "{{ {true: title, false: n} }}|{{ {2: 1, 1: 2, \"k\": 3, true: 4, false: 5, \"a\": [n], 10: none} }}|{{ {\"b\": {true: 1, false: 2}, \"a\": {3: 1, 1: 3} } }}|{% set m = {false: 0, true: 1} %}{{ m }}{{ [m, m] }}".into()),
        // a 40-deep include chain (well inside any nesting limit): renders from several threads must not interfere
        ("chain0.txt".into(), "0{% include \"chain1.txt\" %}".into()),
        ("blob.txt".into(), "{{ blob }}{% include \"blob.html\" %}{{ blobs }}".into()),
        ("err_in_include.html".into(), "A{% include \"err.html\" %}B".into()),
    ]
}
pub fn rich_context(variant: u64) -> tera::Context {
    let mut c = tera::Context::new();
    c.insert("title", ["T<>", "ü&\"", "", "a long title with 'quotes' & <tags>"][(variant % 4) as usize]);
    c.insert("n", &(variant as i64 % 7));
    let items: Vec<std::collections::BTreeMap<&str, String>> = (0..(variant % 5)).map(|i| [("name", format!("it<{i}>"))].into_iter().collect()).collect();
    c.insert("items", &items);
    let mut user = std::collections::BTreeMap::new();
    user.insert("name", "N'é".to_string());
    user.insert("bio", ["<b>bio</b>", "", "plain"][(variant % 3) as usize].to_string());
    c.insert("user", &user);
    // byte strings: valid, invalid and truncated UTF-8
    const BLOBS: [&[u8]; 6] = [b"ok<", b"caf\xC3", b"\xff\xfe", b"\xE6\x97", b"", b"\xF0\x9F\x98"];
    c.insert_value("blob", tera::Value::bytes(BLOBS[(variant % 6) as usize].to_vec()));
    c.insert_value("blobs", tera::Value::from(BLOBS.iter().map(|b| tera::Value::bytes(b.to_vec())).collect::<Vec<_>>()));
    c
}
pub fn rich_requests() -> Vec<Req> {
    let mut v: Vec<Req> = ["base.html", "page.html", "foot.html", "deep.txt", "plain.txt", "empty.html", "text.html", "err.html", "err_in_include.html", "lib.html", "nope.html", "blob.html", "blob.txt", "maps.html", "chain0.txt", "chain20.txt"].iter().map(|s| Req::Template(s.to_string())).collect();
    for (t, b) in [("page.html", "head"), ("page.html", "body"), ("page.html", "inner"), ("base.html", "body"), ("base.html", "head"), ("page.html", "nope")] {
        v.push(Req::Block(t.into(), b.into()));
    }
    v.push(Req::Component("ui.Card".into(), None, true));
    v.push(Req::Component("ui.Card".into(), None, false));
    v.push(Req::Component("ui.Box".into(), Some("<p>é</p>".into()), true));
    v.push(Req::Component("ui.Box".into(), None, false));
    v.push(Req::Component("nope".into(), None, true));
    v.push(Req::Str("{{ title }}{% for i in items %}{{ i.name }}{% endfor %}{% include \"foot.html\" %}{{ <ui.Box /> }}".into(), true));
    v.push(Req::Str("{{ title }}|{{ user.bio }}".into(), false));
    v.push(Req::Str("{{ title".into(), true));
    v
}

/// thread stress: one shared instance, `nthreads` threads released by a barrier, each rendering a schedule
pub fn check_threads(t: Arc<tera::Tera>, reqs: &[Req], nctx: u64, nthreads: usize, rounds: usize, seed: u64, l: &mut Local) -> Check {
    // sequential baseline
    let ctxs: Vec<tera::Context> = (0..nctx).map(rich_context).collect();
    let mut base: Vec<Vec<Result<String, String>>> = vec![];
    for r in reqs {
        // errors are compared by kind: message texts may list names in an unspecified order
        let mut row = vec![];
        for (ci, c) in ctxs.iter().enumerate() {
            match guard(|| r.to_string_api(&t, c).map_err(|e| format!("{:?}", std::mem::discriminant(e.kind())))) {
                Ok(x) => row.push(x),
                Err(p) => return Err(Fail::new("C18/panic", format!("{} with context variant {ci}: {p}", r.json()), json!({"kind": "rich", "request": r.json(), "context_variant": ci}))),
            }
        }
        base.push(row);
    }
    let base = Arc::new(base);
    let ctxs = Arc::new(ctxs);
    let reqs: Arc<Vec<Req>> = Arc::new(reqs.to_vec());
    let barrier = Arc::new(std::sync::Barrier::new(nthreads + 1));
    let mut hs = vec![];
    for th in 0..nthreads {
        let (t, base, ctxs, reqs, barrier) = (t.clone(), base.clone(), ctxs.clone(), reqs.clone(), barrier.clone());
        hs.push(std::thread::Builder::new().stack_size(64 << 20).spawn(move || -> Result<u64, String> {
            let mut s = splitmix(seed ^ th as u64);
            barrier.wait();
            let mut n = 0;
            for _ in 0..rounds {
                s = splitmix(s);
                let ri = (s % reqs.len() as u64) as usize;
                let ci = ((s >> 20) % ctxs.len() as u64) as usize;
                let got = match guard(|| reqs[ri].to_string_api(&t, &ctxs[ci]).map_err(|e| format!("{:?}", std::mem::discriminant(e.kind())))) {
                    Ok(g) => g,
                    Err(p) => return Err(format!("thread {th}: panic {p}")),
                };
                if got != base[ri][ci] {
                    return Err(format!("thread {th}: request {} with context {ci} gave {:?}, sequential baseline {:?}", reqs[ri].json(), got, base[ri][ci]));
                }
                n += 1;
            }
            Ok(n)
        }).expect("spawn render thread"));
    }
    // meanwhile: clones of the instance are created and dropped, and a clone is reconfigured (must not affect the shared one)
    let t2 = t.clone();
    let dropper = std::thread::spawn(move || {
        for i in 0..200 {
            let mut c = (*t2).clone();
            if i % 3 == 0 {
                let _ = c.add_raw_template("base.html", "changed");
                c.autoescape_on(Vec::<&str>::new());
            }
            drop(c);
        }
    });
    barrier.wait();
    let mut total = 0;
    for h in hs {
        match h.join() {
            Ok(Ok(n)) => total += n,
            Ok(Err(why)) => return Err(Fail::new("C18/concurrent-render-differs", why, json!({"kind": "threads", "nthreads": nthreads, "rounds": rounds, "seed": seed}))),
            Err(_) => return Err(Fail::new("C18/panic", "a render thread panicked".to_string(), json!({"kind": "threads"}))),
        }
    }
    let _ = dropper.join();
    l.evals_n(total);
    l.label_n("concurrent-render", total);
    l.nontrivial(hash_of(&(seed, nthreads, rounds)));
    Ok(())
}

fn probe_send_sync(rep: &Report) {
    // the harness itself was built against the current tree, so the engine compiles; now the probe crate
    let t0 = std::time::Instant::now();
    let out = std::process::Command::new("cargo").args(["build", "--release", "--quiet"]).current_dir(format!("{VERIF_DIR}/harness/probe")).env("CARGO_NET_OFFLINE", "true").output();
    match out {
        Ok(o) if o.status.success() => {
            rep.labels.lock().unwrap().insert("send-sync-probe:compiles".into(), 1);
            rep.evals.fetch_add(1, std::sync::atomic::Ordering::Relaxed);
        }
        Ok(o) => {
            let err = String::from_utf8_lossy(&o.stderr).to_string();
            if err.contains("cannot be sent between threads") || err.contains("cannot be shared between threads") || err.contains("Send") || err.contains("Sync") {
                rep.fail(Fail::new("C18/not-send-sync", format!("the Send + Sync probe no longer compiles: {}", err.lines().filter(|l| l.contains("error") || l.contains("cannot be")).take(6).collect::<Vec<_>>().join(" | ")), json!({"kind": "probe", "source": format!("{VERIF_DIR}/harness/probe/src/lib.rs"), "compiler_output": err.chars().take(3000).collect::<String>()})));
            } else {
                rep.inconclusive(&format!("Send/Sync probe failed to build for another reason: {}", err.chars().take(400).collect::<String>()));
            }
        }
        Err(e) => rep.inconclusive(&format!("cannot run cargo for the Send/Sync probe: {e}")),
    }
    rep.family_done("send_sync_probe", 1, t0, true);
}

pub fn run(rep: &Report) {
    rep.set_rule("requests = (instance, API variant {render, render_block, render_component, render_str}, context); for each: render vs bytes received by render_to into a Vec, a 1-byte-per-call writer and a short-write writer with interruptions; fault enumeration: a writer failing at byte offset n for every n < len (exhaustive for outputs <= 400 bytes, 64 sampled offsets beyond) and a writer failing at its k-th write call for every k up to the number of calls — the call must return an I/O error and the accepted bytes must be a prefix of the full output; purity: second render identical, context equal to its clone; threads: one shared instance, 12 threads released by a barrier each rendering a pseudo-random schedule byte-identical to the sequential baseline while clones are created, reconfigured and dropped; compile-time Send + Sync probe crate. Instances: a fixed rich set (inheritance with super(), nested blocks, block in a filter section, captures, includes 2 deep, components with and without body, autoescaped and plain templates, failing templates) x 28 requests x 12 contexts, and generated C03 programs. Non-trivial: a successful request with a non-empty output; distinct by (request, output).");
    rep.assume("interleavings are sampled by the OS scheduler, not enumerated; the Send + Sync probe is a compile-time fact");
    for k in rep.known.clone() {
        if let Some(Err(f)) = replay(rep, &k.repro) {
            rep.fail(f);
        }
    }
    probe_send_sync(rep);
    let mut t = tera::Tera::new();
    t.add_raw_templates(rich_templates()).expect("rich templates register");
    t.global_context().insert("g", "G<");
    let t = Arc::new(t);
    let reqs = rich_requests();
    let nctx = 12u64;
    let cases: Vec<(usize, u64)> = (0..reqs.len()).flat_map(|r| (0..nctx).map(move |c| (r, c))).collect();
    let tt = t.clone();
    let reqs_ref = &reqs;
    run_enum(rep, "rich_set", &cases, move |(ri, ci), l| {
        let ctx = rich_context(*ci);
        let req = &reqs_ref[*ri];
        check_request(&tt, req, &ctx, &|| json!({"kind": "rich", "request": req.json(), "context_variant": ci}), 2000, *ci ^ (*ri as u64) << 8, l)
    });
    // generated programs
    run_family(rep, "generated_programs", rep.tier.scale(120_000, 20), || (stmtgen::body(3, false, false, stmtgen::SOpts { includes: &["inc1"] }), stmtgen::body(1, false, false, stmtgen::SOpts { includes: &[] }), stmtgen::ctxs(), any::<bool>(), any::<u64>()), |(main, inc, (ctx, glob), auto, salt), l| {
        let (mb, ib) = (stmtgen::with_obs(main.clone(), false), inc.clone());
        // a third of the cases: one name is rebound to a byte string (valid, invalid, truncated UTF-8). This happens BEFORE the
        // work-budget filter: rebinding a name can remove an early error and let the program run into a part the filter never saw
        let mut ctx = ctx.clone();
        if salt % 3 == 0 {
            const BLOBS: [&[u8]; 9] = [b"caf\xC3", b"\xff", b"\xE6\x97", b"ok<", b"\xF0\x9F\x98", b"a\x80b", b"", b"\xE6\x97\xA5\xE6", b"<\xC3\xA9\xC3"];
            let name = stmtgen::NAMES[(splitmix(*salt) % stmtgen::NAMES.len() as u64) as usize];
            ctx.insert(name.to_string(), MVal::Bytes(BLOBS[(splitmix(*salt ^ 77) % 9) as usize].to_vec()));
            l.label("context:bytes");
        }
        let ctx = &ctx;
        // work budget through the reference interpreter (as a filter)
        let mut map = std::collections::BTreeMap::new();
        map.insert("inc1".to_string(), Tpl { body: ib.clone(), ..Default::default() });
        map.insert("main".to_string(), Tpl { body: mb.clone(), autoescape: *auto, ..Default::default() });
        let comps = std::collections::BTreeMap::new();
        let wd = World { templates: &map, components: &comps, escape: escape_html, autoescape_override: None, sorted_map_loops: true };
        if model_render(&wd, "main", ctx, Some(glob), None).is_none() {
            l.discard();
            return Ok(());
        }
        let name = if *auto { "main.html" } else { "main.txt" };
        let tpls = vec![("inc1".to_string(), print_body(&ib)), (name.to_string(), print_body(&mb))];
        let mut t = tera::Tera::new();
        for (k, v) in glob {
            t.global_context().insert_value(k.clone(), to_tera(v));
        }
        if let Err(e) = t.add_raw_templates(tpls.clone()) {
            return Err(Fail::new("C18/valid-program-rejected", e.to_string(), json!({"kind": "generated", "templates": tpls})));
        }
        let tc = ctx_to_tera_enc(ctx, &Enc::new(*salt));
        let req = Req::Template(name.to_string());
        check_request(&t, &req, &tc, &|| json!({"kind": "generated", "templates": tpls, "context": ctx_to_json(ctx), "global": ctx_to_json(glob), "salt": salt}), 300, *salt, l)
    });
    // threads
    let t0 = std::time::Instant::now();
    let rounds = rep.tier.scale(12, 10);
    for round in 0..rounds {
        let mut l = Local::new();
        if let Err(f) = check_threads(t.clone(), &reqs, nctx, 12, 500, rep.seed ^ round, &mut l) {
            rep.fail(f);
        }
        rep.merge(l);
    }
    rep.family_done("threads", rounds * 12 * 500, t0, false);
    for (lab, min) in [("send-sync-probe:compiles", 1), ("request:ok", 5_000), ("request:render-error", 100), ("fault:byte-offset", 200_000), ("fault:write-call", 50_000), ("faults:exhaustive-offsets", 5_000), ("concurrent-render", 15_000)] {
        rep.floor(lab, min);
    }
}

pub fn replay(_rep: &Report, case: &serde_json::Value) -> Option<Check> {
    let mut l = Local::new();
    match case.get("kind")?.as_str()? {
        "rich" => {
            let mut t = tera::Tera::new();
            t.add_raw_templates(rich_templates()).ok()?;
            t.global_context().insert("g", "G<");
            let req = Req::from_json(case.get("request")?)?;
            let ci = case.get("context_variant")?.as_u64()?;
            Some(check_request(&t, &req, &rich_context(ci), &|| case.clone(), 2000, ci, &mut l))
        }
        "generated" => {
            let tpls: Vec<(String, String)> = case.get("templates")?.as_array()?.iter().map(|p| Some((p.get(0)?.as_str()?.to_string(), p.get(1)?.as_str()?.to_string()))).collect::<Option<_>>()?;
            let mut t = tera::Tera::new();
            if let Some(g) = case.get("global").and_then(ctx_from_json) {
                for (k, v) in &g {
                    t.global_context().insert_value(k.clone(), to_tera(v));
                }
            }
            t.add_raw_templates(tpls.clone()).ok()?;
            let ctx = ctx_from_json(case.get("context")?)?;
            let salt = case.get("salt").and_then(|x| x.as_u64()).unwrap_or(0);
            let name = tpls.last()?.0.clone();
            Some(check_request(&t, &Req::Template(name), &ctx_to_tera_enc(&ctx, &Enc::new(salt)), &|| case.clone(), 300, salt, &mut l))
        }
        "threads" => {
            let mut t = tera::Tera::new();
            t.add_raw_templates(rich_templates()).ok()?;
            Some(check_threads(Arc::new(t), &rich_requests(), 12, 12, 500, case.get("seed").and_then(|x| x.as_u64()).unwrap_or(1), &mut l))
        }
        _ => None,
    }
}
