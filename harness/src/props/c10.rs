//! C10 — Template registration is atomic and independent of history (stateful, model-based).
use crate::core::*;
use proptest::prelude::*;
use serde_json::json;
use std::collections::BTreeMap;

/// the pool: (name, source, label). Several alternative sources per name, valid and invalid in every way.
pub const POOL: &[(&str, &str, &str)] = &[
    ("base.html", "B1{% block head %}h1{% endblock %}{% block body %}b1{{ x }}{% endblock %}", "valid"),
    ("base.html", "B2{% block head %}h2{% endblock %}{% block body %}{% block inner %}i2{% endblock %}{% endblock %}{% include \"inc.html\" %}", "valid-needs-inc"),
    ("base.html", "B3{% block head %}{% set s = x %}{{ s }}{% endblock %}{% block body %}{{ y.z }}{% endblock %}{{ <ui.Card t=\"b\" /> }}", "valid-needs-card"),
    ("base.html", "{% extends \"root.html\" %}{% block head %}bh+{{ super() }}{% endblock %}{% block body %}bb{% block inner %}bi{{ x }}{% endblock %}{% endblock %}", "valid-child-of-root"),
    ("root.html", "R1[{% block head %}rh{% endblock %}|{% block body %}rb{% endblock %}|{% block inner %}ri{% endblock %}]", "valid-root"),
    ("root.html", "R2{% block head %}{{ y.z }}{% endblock %}{% block body %}{{ x }}{% endblock %}", "valid-root-v2"),
    ("root.html", "{% extends \"page.html\" %}", "extends-cycle-or-valid"),
    ("base.html", "{% block head %}", "syntax-error"),
    ("base.html", "{% extends \"page.html\" %}", "extends-cycle-or-valid"),
    ("mid.html", "{% extends \"base.html\" %}{% block body %}m[{{ super() }}]{% endblock %}", "valid-child"),
    ("mid.html", "{% extends \"base.html\" %}{% block head %}mh{% endblock %}ignored", "valid-child"),
    ("mid.html", "{% extends \"nope.html\" %}", "missing-parent"),
    ("mid.html", "{% extends \"base.html\" %}{% block zzz %}o{% endblock %}", "orphan-block"),
    ("mid.html", "{% extends \"base.html\" %}{% block inner %}mi{% endblock %}", "needs-inner-in-base"),
    ("mid.html", "M-standalone{% block body %}mb{% endblock %}{% block head %}{% endblock %}", "valid-root"),
    ("page.html", "{% extends \"mid.html\" %}{% block body %}p<{{ super() }}>{{ <ui.Card t={ x } /> }}{% endblock %}", "valid-needs-card"),
    ("page.html", "{% extends \"base.html\" %}{% block head %}ph{{ x | shout }}{% endblock %}", "valid-custom-filter"),
    ("page.html", "{% extends \"mid.html\" %}{% block head %}{{ x | nope }}{% endblock %}", "unknown-filter"),
    ("page.html", "{% extends \"mid.html\" %}{% block head %}{{ x is nope }}{% endblock %}", "unknown-test"),
    ("page.html", "{% extends \"mid.html\" %}{% block body %}{{ super() }}+{% endblock %}", "valid-child"),
    ("inc.html", "I1{{ x }}", "valid"),
    ("inc.html", "I2{% include \"inc2.html\" %}", "valid-needs-inc2"),
    ("inc.html", "{% include \"inc.html\" %}", "include-self-cycle"),
    ("inc.html", "{{ nope() }}", "unknown-function"),
    ("inc2.html", "J1", "valid"),
    ("inc2.html", "{% include \"inc.html\" %}", "include-cycle-or-valid"),
    ("inc2.html", "{% include \"gone.html\" %}", "unknown-include"),
    ("lib.html", "{% component ui.Card(t, n=1) %}<c>{{ t }}{{ n }}</c>{% endcomponent ui.Card %}", "valid-provider"),
    ("lib.html", "{% component ui.Card(t: string, ...rest) {\"css\": \"a.css\"} %}<c2>{{ t }}{{ rest }}</c2>{% endcomponent ui.Card %}L", "valid-provider-v2"),
    ("lib.html", "no components here", "valid-drops-provider"),
    ("lib.html", "{% component ui.Card(t) %}<c3>{{ t }}</c3>{% endcomponent ui.Card %}{% component Other() %}o{{ <ui.Card t=\"in\" /> }}{% endcomponent Other %}", "valid-two-providers"),
    ("lib2.html", "{% component ui.Card(t) %}<dup>{{ t }}</dup>{% endcomponent ui.Card %}", "duplicate-component-or-valid"),
    ("lib2.html", "y", "valid"),
    ("themes/lib.html", "{% component ui.Card(t, n=2) %}<theme>{{ t }}{{ n }}</theme>{% endcomponent ui.Card %}", "valid-lower-priority-provider"),
    ("themes/inc.html", "TI", "valid-prefixed"),
    ("caller.txt", "{{ <ui.Card t=\"a<\" /> }}{% include \"inc.html\" %}", "valid-needs-card-and-inc"),
    ("caller.txt", "{{ <Other /> }}", "valid-needs-other"),
    ("caller.txt", "plain {{ x }}", "valid"),
    ("caller.txt", "{{ <Missing /> }}", "unknown-component"),
    ("crlf.txt", "line one\r\nline two \r\n{% raw %}\r\n raw \r\n{% endraw %}\r\n{{ x }}\r\n", "valid-with-crlf"),
    ("esc.html", "{{ x }}|{{ x | safe }}", "valid"),
    ("esc.txt", "{{ x }}", "valid"),
    ("esc.xml", "{{ x }}{% include \"esc.txt\" %}", "valid-needs-esc-txt"),
];
const SUFFIX_SETS: &[&[&str]] = &[&[".html", ".htm", ".xml"], &[], &[".txt"], &[".html", ".txt"], &["esc.html"]];
const BLOCKS: &[&str] = &["head", "body", "inner", "zzz"];
const COMPONENTS: &[&str] = &["ui.Card", "Other", "Missing"];

#[derive(Debug, Clone)]
pub enum Op {
    AddOne(usize),
    AddBatch(Vec<usize>),
    Autoescape(usize),
    /// the same sources through `add_template_file(s)`: one file per pool entry, explicit names; optionally a path that does not exist at a position of the batch
    AddFiles(Vec<usize>, Option<u8>),
}
pub fn files_dir() -> std::path::PathBuf {
    std::path::Path::new(VERIF_DIR).join("work").join("c10files")
}
/// one file per pool entry (content never changes, so writing is idempotent and safe to repeat)
pub fn ensure_files() {
    let d = files_dir();
    let _ = std::fs::create_dir_all(&d);
    for (i, (_, src, _)) in POOL.iter().enumerate() {
        let p = d.join(format!("{i}.tpl"));
        if std::fs::read_to_string(&p).ok().as_deref() != Some(*src) {
            let _ = std::fs::write(&p, src);
        }
    }
}
pub fn op_strategy() -> BoxedStrategy<Op> {
    let idx = 0..POOL.len();
    prop_oneof![5 => idx.clone().prop_map(Op::AddOne), 4 => prop::collection::vec(idx.clone(), 1..6).prop_map(Op::AddBatch), 1 => (0..SUFFIX_SETS.len()).prop_map(Op::Autoescape), 2 => (prop::collection::vec(idx, 1..5), prop::option::weighted(0.25, any::<u8>())).prop_map(|(v, m)| Op::AddFiles(v, m))].boxed()
}
#[derive(Debug, Clone)]
pub struct Config {
    pub prefixes: bool,
    pub custom_filter: bool,
}

fn fresh(cfg: &Config, suffixes: usize) -> tera::Tera {
    let mut t = tera::Tera::new();
    if cfg.prefixes {
        t.set_fallback_prefixes(["themes/"]).expect("prefixes on an empty instance");
    }
    if cfg.custom_filter {
        t.register_filter("shout", |s: &str, _: tera::Kwargs, _: &tera::State| s.to_uppercase());
    }
    t.autoescape_on(SUFFIX_SETS[suffixes].to_vec());
    t
}

/// everything observable about an instance, as a canonical string map
pub fn observe(t: &tera::Tera) -> BTreeMap<String, String> {
    let mut o = BTreeMap::new();
    let mut names: Vec<String> = t.get_template_names().map(|s| s.to_string()).collect();
    names.sort();
    o.insert("names".to_string(), format!("{:?}", names));
    let ctxs: Vec<tera::Context> = {
        let mut a = tera::Context::new();
        a.insert("x", "<x&>");
        let mut y = std::collections::BTreeMap::new();
        y.insert("z", "<z>");
        a.insert("y", &y);
        let mut b = tera::Context::new();
        b.insert("x", &1);
        vec![a, b, tera::Context::new()]
    };
    let show = |r: Result<String, tera::Error>| match r {
        Ok(s) => format!("Ok({:?})", s),
        // error texts of multi-error reports are not deterministic: compare the kind only
        Err(e) => format!("Err({:?})", std::mem::discriminant(e.kind())),
    };
    for n in &names {
        for (ci, c) in ctxs.iter().enumerate() {
            o.insert(format!("render({n},{ci})"), show(t.render(n, c)));
        }
        for b in BLOCKS {
            o.insert(format!("render_block({n},{b})"), show(t.render_block(n, b, &ctxs[0])));
        }
        let mut vars: Vec<String> = t.get_template_variables(n).map(|s| s.into_iter().map(|x| x.to_string()).collect()).unwrap_or_default();
        vars.sort();
        o.insert(format!("variables({n})"), format!("{:?}", vars));
    }
    for c in COMPONENTS {
        let d = t.get_component_definition(c).map(|i| {
            let args: Vec<String> = i.args().iter().map(|a| format!("{}:{:?}={:?}/{}", a.name(), a.arg_type().map(|t| t.as_str()), a.default().map(|v| format!("{v}")), a.is_required())).collect();
            format!("{} args={:?} rest={:?} meta={:?}", i.name(), args, i.rest_param(), i.metadata().iter().map(|(k, v)| format!("{k}={v}")).collect::<Vec<_>>())
        });
        o.insert(format!("component({c})"), format!("{:?}", d));
        o.insert(format!("render_component({c})"), show(t.render_component(c, &{ let mut x = tera::Context::new(); x.insert("t", "T<"); x }, None, true)));
    }
    o
}
fn diff(a: &BTreeMap<String, String>, b: &BTreeMap<String, String>) -> Option<String> {
    for (k, v) in a {
        match b.get(k) {
            Some(w) if w == v => {}
            other => return Some(format!("{k}: instance has {v}, fresh instance has {:?}", other)),
        }
    }
    for k in b.keys() {
        if !a.contains_key(k) {
            return Some(format!("{k}: only in the fresh instance"));
        }
    }
    None
}

pub fn check_history(cfg: &Config, ops: &[Op], l: &mut Local) -> Check {
    let case = || json!({"kind": "history", "prefixes": cfg.prefixes, "custom_filter": cfg.custom_filter, "ops": ops.iter().map(|o| match o {
        Op::AddOne(i) => json!({"add": [POOL[*i].0, POOL[*i].1]}),
        Op::AddBatch(v) => json!({"batch": v.iter().map(|i| json!([POOL[*i].0, POOL[*i].1])).collect::<Vec<_>>()}),
        Op::Autoescape(s) => json!({"autoescape_on": SUFFIX_SETS[*s]}),
        Op::AddFiles(v, m) => json!({"add_template_files": v.iter().map(|i| json!([POOL[*i].0, POOL[*i].1])).collect::<Vec<_>>(), "nonexistent_path_at": m}),
    }).collect::<Vec<_>>(), "op_indices": ops.iter().map(|o| match o { Op::AddOne(i) => json!({"a": i}), Op::AddBatch(v) => json!({"b": v}), Op::Autoescape(s) => json!({"s": s}), Op::AddFiles(v, m) => json!({"f": v, "m": m}) }).collect::<Vec<_>>()});
    let r = guard(|| -> Result<(u32, u32, bool), Fail> {
        let mut t = fresh(cfg, 0);
        let mut model: BTreeMap<String, String> = BTreeMap::new();
        let mut suffixes = 0usize;
        let (mut oks, mut errs) = (0u32, 0u32);
        let mut fail_after_success = false;
        for (step, op) in ops.iter().enumerate() {
            let batch: Vec<usize> = match op {
                Op::AddOne(i) => vec![*i],
                Op::AddBatch(v) => v.clone(),
                Op::AddFiles(v, _) => v.clone(),
                Op::Autoescape(s) => {
                    suffixes = *s;
                    t.autoescape_on(SUFFIX_SETS[*s].to_vec());
                    // reconfiguration: the instance must equal a fresh one configured the same way
                    let mut f = fresh(cfg, suffixes);
                    if let Err(e) = f.add_raw_templates(model.iter().map(|(a, b)| (a.clone(), b.clone()))) {
                        return Err(Fail::new("C10/fresh-instance-rejects-accepted-set", format!("step {step}: a fresh instance rejects the set the instance holds: {}", first_line(&e.to_string())), case()));
                    }
                    if let Some(d) = diff(&observe(&t), &observe(&f)) {
                        return Err(Fail::new("C10/autoescape-reconfiguration-differs", format!("step {step} (autoescape_on {:?}): {d}", SUFFIX_SETS[*s]), case()));
                    }
                    continue;
                }
            };
            let pairs: Vec<(String, String)> = batch.iter().map(|i| (POOL[*i].0.to_string(), POOL[*i].1.to_string())).collect();
            let res = if let Op::AddFiles(v, miss) = op {
                let mut files: Vec<(std::path::PathBuf, Option<String>)> = v.iter().map(|i| (files_dir().join(format!("{i}.tpl")), Some(POOL[*i].0.to_string()))).collect();
                if let Some(k) = miss {
                    files.insert(*k as usize % (files.len() + 1), (files_dir().join(format!("no-such-file-{k}.tpl")), Some("ghost.html".to_string())));
                }
                let r = if files.len() == 1 { t.add_template_file(&files[0].0, files[0].1.as_deref()) } else { t.add_template_files(files) };
                if miss.is_some() && r.is_ok() {
                    return Err(Fail::new("C10/failed-add-not-atomic", format!("step {step}: add_template_files with a path that does not exist returned Ok"), case()));
                }
                r
            } else if pairs.len() == 1 && matches!(op, Op::AddOne(_)) { t.add_raw_template(&pairs[0].0, &pairs[0].1) } else { t.add_raw_templates(pairs.clone()) };
            let mut after = model.clone();
            for (n, s) in &pairs {
                after.insert(n.clone(), s.clone());
            }
            let expect_set = if res.is_ok() { &after } else { &model };
            let mut f = fresh(cfg, suffixes);
            let fr = f.add_raw_templates(expect_set.iter().map(|(a, b)| (a.clone(), b.clone())));
            match (&res, &fr) {
                (Ok(()), Err(e)) => return Err(Fail::new("C10/accepted-set-rejected-by-fresh-instance", format!("step {step}: the add succeeded but a fresh instance given the resulting set in one batch rejects it: {}", first_line(&e.to_string())), case())),
                (Err(_), Err(e)) => return Err(Fail::new("C10/fresh-instance-rejects-accepted-set", format!("step {step}: the previous (accepted) set is rejected by a fresh instance: {}", first_line(&e.to_string())), case())),
                _ => {}
            }
            let (oa, ob) = (observe(&t), observe(&f));
            if let Some(d) = diff(&oa, &ob) {
                let sig = if res.is_ok() { "C10/history-dependent-after-success" } else { "C10/failed-add-not-atomic" };
                return Err(Fail::new(sig, format!("step {step} ({} of {:?} {}): {d}", if pairs.len() == 1 { "add" } else { "batch add" }, pairs.iter().map(|p| p.0.clone()).collect::<Vec<_>>(), if res.is_ok() { "succeeded" } else { "failed" }), case()));
            }
            if res.is_ok() {
                model = after;
                oks += 1;
            } else {
                if let Err(e) = &res {
                    let _ = e.to_string();
                }
                errs += 1;
                if oks > 0 {
                    fail_after_success = true;
                }
            }
        }
        Ok((oks, errs, fail_after_success))
    });
    match r {
        Ok(Ok((oks, errs, fas))) => {
            l.evals_n(ops.len() as u64);
            l.label_n("add:ok", oks as u64);
            l.label_n("add:err", errs as u64);
            if fas {
                l.label("history:failure-after-success");
            }
            if ops.iter().any(|o| matches!(o, Op::AddBatch(v) if { let mut s = std::collections::BTreeSet::new(); v.iter().any(|i| !s.insert(POOL[*i].0)) })) {
                l.label("history:duplicate-name-in-batch");
            }
            if ops.iter().any(|o| matches!(o, Op::Autoescape(_))) {
                l.label("history:autoescape-reconfigured");
            }
            if ops.iter().any(|o| matches!(o, Op::AddFiles(..))) {
                l.label("history:file-based-add");
            }
            if ops.iter().any(|o| matches!(o, Op::AddFiles(_, Some(_)))) {
                l.label("history:file-batch-with-unreadable-path");
            }
            if fas && oks >= 2 {
                l.nontrivial(hash_of(&format!("{:?}{:?}", cfg, ops)));
            }
            l.sample(|| case());
            Ok(())
        }
        Ok(Err(f)) => Err(f),
        Err(p) => Err(Fail::new("C10/panic", p, case())),
    }
}

/// two different histories leading to the same final set behave identically
pub fn check_two_histories(cfg: &Config, entries: &[usize], order_seed: u64, l: &mut Local) -> Check {
    // final set: last entry per name
    let mut set: BTreeMap<String, String> = BTreeMap::new();
    for i in entries {
        set.insert(POOL[*i].0.to_string(), POOL[*i].1.to_string());
    }
    let case = || json!({"kind": "two_histories", "prefixes": cfg.prefixes, "custom_filter": cfg.custom_filter, "set": set, "order_seed": order_seed});
    let r = guard(|| -> Result<bool, Fail> {
        let mut a = fresh(cfg, 0);
        if a.add_raw_templates(set.iter().map(|(x, y)| (x.clone(), y.clone()))).is_err() {
            return Ok(false);
        }
        // history B: the same set, then noise (single adds of other variants of the same names, which succeed or fail),
        // then the whole final set again in one shuffled batch
        let mut b = fresh(cfg, 0);
        if b.add_raw_templates(set.iter().map(|(x, y)| (x.clone(), y.clone()))).is_err() {
            return Ok(false);
        }
        let mut s = order_seed | 1;
        for _ in 0..6 {
            s = splitmix(s);
            let i = (s % POOL.len() as u64) as usize;
            if set.contains_key(POOL[i].0) {
                let _ = b.add_raw_template(POOL[i].0, POOL[i].1);
            }
        }
        let mut v: Vec<(String, String)> = set.iter().map(|(x, y)| (x.clone(), y.clone())).collect();
        for i in (1..v.len()).rev() {
            s = splitmix(s);
            v.swap(i, (s % (i as u64 + 1)) as usize);
        }
        if let Err(e) = b.add_raw_templates(v.clone()) {
            return Err(Fail::new("C10/valid-batch-rejected-after-history", format!("a batch holding the complete valid set was rejected after a history of replacements: {}", first_line(&e.to_string())), case()));
        }
        if let Some(d) = diff(&observe(&b), &observe(&a)) {
            return Err(Fail::new("C10/history-dependent", format!("the same final set reached through a different history behaves differently: {d}"), case()));
        }
        Ok(true)
    });
    match r {
        Ok(Ok(compared)) => {
            l.eval();
            if compared {
                l.label("two-histories:compared");
                l.nontrivial(hash_of(&(format!("{:?}", set), order_seed)));
            }
            Ok(())
        }
        Ok(Err(f)) => Err(f),
        Err(p) => Err(Fail::new("C10/panic", p, case())),
    }
}

pub fn run(rep: &Report) {
    rep.set_rule("histories: up to 12 operations (40 in thorough) on one instance drawn from AddOne, AddBatch (1-5 entries, duplicate names inside a batch allowed), replacement of existing names, autoescape_on with five suffix sets, over a pool of 38 interrelated sources for 12 names (parents, children with super(), nested blocks, includes 2 deep, two component providers plus a lower-priority one under a fallback prefix, callers, a custom filter user) containing every kind of invalid variant (syntax error, missing parent, extends cycle, include self- and 2-cycle, unknown filter/test/function/component/include, duplicate component at equal priority, orphan block, block that only exists in another variant of the parent); configuration chosen up front: fallback prefix on/off, custom filter registered or not. Oracle: after every call the instance must be observably equal to a fresh instance given, in one batch, the resulting set (call succeeded) or the previous set (call failed); observation = template names, render with 3 contexts (one hot) and render_block for 4 block names for every template, get_template_variables, get_component_definition and render_component for 3 component names; error results are compared by kind. Second family: the same final set reached through a different start set and a shuffled replacing batch. Non-trivial: a failing add after >= 2 successes; distinct by (configuration, operations).");
    rep.assume("an incremental add may legitimately fail where a batch succeeds (documented: child before parent), so acceptance is only compared in the direction stated; error message texts are not compared (multi-error reports iterate hash maps)");
    for k in rep.known.clone() {
        if let Some(Err(f)) = replay(rep, &k.repro) {
            rep.fail(f);
        }
    }
    ensure_files();
    let maxops = if rep.tier == Tier::Thorough { 40 } else { 12 };
    let n = rep.tier.scale(360_000, 6);
    run_family(rep, "histories", n, move || (any::<bool>(), any::<bool>(), prop::collection::vec(op_strategy(), 1..=maxops)), |(p, c, ops), l| check_history(&Config { prefixes: *p, custom_filter: *c }, ops, l));
    run_family(rep, "two_histories", n / 2, || (any::<bool>(), any::<bool>(), prop::collection::vec(0..POOL.len(), 1..10), any::<u64>()), |(p, c, e, s), l| check_two_histories(&Config { prefixes: *p, custom_filter: *c }, e, *s, l));
    for (lab, min) in [("add:ok", 150_000), ("add:err", 150_000), ("history:failure-after-success", 50_000), ("history:duplicate-name-in-batch", 30_000), ("history:autoescape-reconfigured", 30_000), ("history:file-based-add", 50_000), ("history:file-batch-with-unreadable-path", 20_000), ("two-histories:compared", 3_000)] {
        rep.floor(lab, min);
    }
}

pub fn replay(_rep: &Report, case: &serde_json::Value) -> Option<Check> {
    let mut l = Local::new();
    let cfg = Config { prefixes: case.get("prefixes")?.as_bool()?, custom_filter: case.get("custom_filter")?.as_bool()? };
    match case.get("kind")?.as_str()? {
        "history" => {
            let ops: Vec<Op> = case.get("op_indices")?.as_array()?.iter().map(|o| {
                if let Some(i) = o.get("a").and_then(|x| x.as_u64()) {
                    return Some(Op::AddOne(i as usize));
                }
                if let Some(v) = o.get("b").and_then(|x| x.as_array()) {
                    return Some(Op::AddBatch(v.iter().filter_map(|x| x.as_u64().map(|i| i as usize)).collect()));
                }
                if let Some(v) = o.get("f").and_then(|x| x.as_array()) {
                    return Some(Op::AddFiles(v.iter().filter_map(|x| x.as_u64().map(|i| i as usize)).collect(), o.get("m").and_then(|x| x.as_u64()).map(|m| m as u8)));
                }
                o.get("s").and_then(|x| x.as_u64()).map(|s| Op::Autoescape(s as usize))
            }).collect::<Option<_>>()?;
            if ops.iter().any(|o| match o { Op::AddOne(i) => *i >= POOL.len(), Op::AddBatch(v) | Op::AddFiles(v, _) => v.iter().any(|i| *i >= POOL.len()), Op::Autoescape(s) => *s >= SUFFIX_SETS.len() }) {
                return None;
            }
            ensure_files();
            Some(check_history(&cfg, &ops, &mut l))
        }
        _ => None,
    }
}
