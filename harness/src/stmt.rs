//! Layer C/D: statement AST, printer and reference interpreter (scopes, captures, includes,
//! autoescape, inheritance with super(), components). Written from the documentation and the pinned
//! snapshots; never calls the engine.
use crate::expr::*;
use crate::mval::*;
use std::collections::BTreeMap;

pub type Kwargs = Vec<(String, E)>;

#[derive(Debug, Clone, PartialEq)]
pub enum CArg {
    /// name=literal-or-{expr}
    Named(String, E),
    /// {name} shorthand: name={name}
    Short(String),
    /// {...expr}
    Spread(E),
}

#[derive(Debug, Clone, PartialEq)]
pub enum S {
    Text(String),
    Print(E),
    If(Vec<(E, Vec<S>)>, Option<Vec<S>>),
    For { key: Option<String>, val: String, target: E, body: Vec<S>, els: Option<Vec<S>> },
    Set { name: String, e: E, global: bool },
    SetBlock { name: String, filters: Vec<(String, Kwargs)>, body: Vec<S>, global: bool },
    Filter { name: String, kwargs: Kwargs, body: Vec<S> },
    Include(String),
    Break,
    Continue,
    Block { name: String, body: Vec<S> },
    /// `{{ super() }}`
    Super,
    /// `{{ <Name args /> }}` (no body) or `{% <Name args> %}body{% </Name> %}`
    Comp { name: String, args: Vec<CArg>, body: Option<Vec<S>> },
    Comment(String),
    Raw(String),
}

pub fn print_kwargs(k: &Kwargs) -> String {
    if k.is_empty() {
        return String::new();
    }
    format!("({})", k.iter().map(|(n, e)| format!("{}={}", n, print(e, Mode::Minimal))).collect::<Vec<_>>().join(", "))
}
pub fn print_body(b: &[S]) -> String {
    b.iter().map(print_s).collect()
}
fn print_carg(a: &CArg) -> String {
    // a value is a string literal or `{expression}`; a space before the closing brace keeps `}}` from being read as a delimiter
    match a {
        CArg::Named(n, E::Str(s)) => format!("{n}={}", print(&E::Str(s.clone()), Mode::Minimal)),
        CArg::Named(n, e) => format!("{n}={{ {} }}", print(e, Mode::Minimal)),
        CArg::Short(n) => n.clone(),
        CArg::Spread(e) => format!("{{ ...{} }}", print(e, Mode::Minimal)),
    }
}
pub fn print_s(s: &S) -> String {
    match s {
        S::Text(t) => t.clone(),
        S::Print(e) => format!("{{{{ {} }}}}", print(e, Mode::Minimal)),
        S::If(arms, els) => {
            let mut o = String::new();
            for (i, (c, b)) in arms.iter().enumerate() {
                o.push_str(&format!("{{% {} {} %}}{}", if i == 0 { "if" } else { "elif" }, print(c, Mode::Minimal), print_body(b)));
            }
            if let Some(b) = els {
                o.push_str(&format!("{{% else %}}{}", print_body(b)));
            }
            o.push_str("{% endif %}");
            o
        }
        S::For { key, val, target, body, els } => {
            let names = match key {
                Some(k) => format!("{}, {}", k, val),
                None => val.clone(),
            };
            let mut o = format!("{{% for {} in {} %}}{}", names, print(target, Mode::Minimal), print_body(body));
            if let Some(b) = els {
                o.push_str(&format!("{{% else %}}{}", print_body(b)));
            }
            o.push_str("{% endfor %}");
            o
        }
        S::Set { name, e, global } => format!("{{% {} {} = {} %}}", if *global { "set_global" } else { "set" }, name, print(e, Mode::Minimal)),
        S::SetBlock { name, filters, body, global } => format!("{{% {} {}{} %}}{}{{% endset %}}", if *global { "set_global" } else { "set" }, name, filters.iter().map(|(f, k)| format!(" | {}{}", f, print_kwargs(k))).collect::<String>(), print_body(body)),
        S::Filter { name, kwargs, body } => format!("{{% filter {}{} %}}{}{{% endfilter %}}", name, print_kwargs(kwargs), print_body(body)),
        S::Include(n) => format!("{{% include \"{}\" %}}", n),
        S::Break => "{% break %}".into(),
        S::Continue => "{% continue %}".into(),
        S::Block { name, body } => format!("{{% block {} %}}{}{{% endblock {} %}}", name, print_body(body), name),
        S::Super => "{{ super() }}".into(),
        S::Comp { name, args, body } => {
            let a: String = args.iter().map(|a| format!(" {}", print_carg(a))).collect();
            match body {
                None => format!("{{{{ <{}{} /> }}}}", name, a),
                Some(b) => format!("{{% <{}{}> %}}{}{{% </{}> %}}", name, a, print_body(b), name),
            }
        }
        S::Comment(c) => format!("{{# {} #}}", c),
        S::Raw(t) => format!("{{% raw %}}{}{{% endraw %}}", t),
    }
}

// ---------------------------------------------------------------------------------------------
// components

#[derive(Debug, Clone, PartialEq)]
pub enum CType {
    String,
    Bool,
    Integer,
    Float,
    Number,
    Array,
    Map,
}
impl CType {
    pub fn name(&self) -> &'static str {
        match self {
            CType::String => "string",
            CType::Bool => "bool",
            CType::Integer => "integer",
            CType::Float => "float",
            CType::Number => "number",
            CType::Array => "array",
            CType::Map => "map",
        }
    }
    pub fn accepts(&self, v: &MVal) -> bool {
        match self {
            CType::String => matches!(v, MVal::Str(..)),
            CType::Bool => matches!(v, MVal::Bool(_)),
            CType::Integer => v.is_integer(),
            CType::Float => matches!(v, MVal::Float(_)),
            CType::Number => v.is_number(),
            CType::Array => matches!(v, MVal::Array(_)),
            CType::Map => matches!(v, MVal::Map(_)),
        }
    }
    pub fn infer(v: &MVal) -> Option<CType> {
        Some(match v {
            MVal::Str(..) => CType::String,
            MVal::Bool(_) => CType::Bool,
            MVal::Int(_) | MVal::Big(_) => CType::Integer,
            MVal::Float(_) => CType::Float,
            MVal::Array(_) => CType::Array,
            MVal::Map(_) => CType::Map,
            _ => return None,
        })
    }
}
#[derive(Debug, Clone, PartialEq)]
pub struct CParam {
    pub name: String,
    pub ty: Option<CType>,
    /// literal default
    pub default: Option<MVal>,
}
#[derive(Debug, Clone, PartialEq)]
pub struct CompDef {
    pub name: String,
    pub params: Vec<CParam>,
    pub rest: Option<String>,
    pub body: Vec<S>,
}

// ---------------------------------------------------------------------------------------------
// templates and the world

#[derive(Debug, Clone, Default)]
pub struct Tpl {
    pub body: Vec<S>,
    pub autoescape: bool,
    pub parent: Option<String>,
    pub components: Vec<CompDef>,
}
impl Tpl {
    /// all blocks defined anywhere in this template, by name
    pub fn blocks(&self) -> BTreeMap<String, Vec<S>> {
        fn go(b: &[S], out: &mut BTreeMap<String, Vec<S>>) {
            for s in b {
                match s {
                    S::Block { name, body } => {
                        out.insert(name.clone(), body.clone());
                        go(body, out)
                    }
                    S::If(arms, els) => {
                        for (_, b) in arms {
                            go(b, out)
                        }
                        if let Some(b) = els {
                            go(b, out)
                        }
                    }
                    S::For { body, els, .. } => {
                        go(body, out);
                        if let Some(b) = els {
                            go(b, out)
                        }
                    }
                    S::SetBlock { body, .. } | S::Filter { body, .. } => go(body, out),
                    S::Comp { body: Some(b), .. } => go(b, out),
                    _ => {}
                }
            }
        }
        let mut out = BTreeMap::new();
        go(&self.body, &mut out);
        out
    }
    pub fn source(&self) -> String {
        let mut o = String::new();
        if let Some(p) = &self.parent {
            o.push_str(&format!("{{% extends \"{}\" %}}", p));
        }
        for c in &self.components {
            o.push_str(&print_compdef(c));
        }
        o.push_str(&print_body(&self.body));
        o
    }
}
pub fn lit_source(v: &MVal) -> String {
    // component defaults must be literals
    match v {
        MVal::Str(s, _) => print(&E::Str(s.clone()), Mode::Minimal),
        MVal::Array(a) => format!("[{}]", a.iter().map(lit_source).collect::<Vec<_>>().join(", ")),
        MVal::Map(m) => format!("{{{}}}", m.iter().map(|(k, v)| format!("{}: {}", lit_source(&key_to_val(k)), lit_source(v))).collect::<Vec<_>>().join(", ")),
        MVal::None => "none".into(),
        other => other.display(),
    }
}
pub fn print_compdef(c: &CompDef) -> String {
    let mut ps: Vec<String> = c.params.iter().map(|p| {
        let mut s = p.name.clone();
        if let Some(t) = &p.ty {
            s.push_str(&format!(": {}", t.name()));
        }
        if let Some(d) = &p.default {
            s.push_str(&format!(" = {}", lit_source(d)));
        }
        s
    }).collect();
    if let Some(r) = &c.rest {
        ps.push(format!("...{r}"));
    }
    format!("{{% component {}({}) %}}{}{{% endcomponent {} %}}", c.name, ps.join(", "), print_body(&c.body), c.name)
}

pub struct World<'a> {
    pub templates: &'a BTreeMap<String, Tpl>,
    /// component table after priority resolution: name -> definition
    pub components: &'a BTreeMap<String, CompDef>,
    /// how autoescaping is applied to a string (default: html escaping); a marking escaper brackets its input
    pub escape: fn(&str) -> String,
    /// per-call override (render_str / render_component flags)
    pub autoescape_override: Option<bool>,
    /// loops over maps with >= 2 entries run in sorted key order (the caller compares order-insensitively)
    /// instead of being reported as unspecified
    pub sorted_map_loops: bool,
}

pub const MAX_COMPONENT_DEPTH: usize = 20;

struct LoopFrame {
    locals: BTreeMap<String, MVal>,
    val_name: String,
    key_name: Option<String>,
    cur: (MVal, MVal),
    index0: usize,
    len: usize,
}

pub struct St<'a> {
    loops: Vec<LoopFrame>,
    sets: BTreeMap<String, MVal>,
    parent: Option<&'a St<'a>>,
    ctx: &'a Ctx,
    global: Option<&'a Ctx>,
    caps: Vec<String>,
    /// (block name, lineage of bodies most-derived first, current level)
    blocks: Vec<(String, Vec<Vec<S>>, usize)>,
    /// chain of the entry template, most-derived first (for block lookups)
    chain: Vec<String>,
    comp_depth: usize,
    pub budget: &'a Budget,
    /// when set, the text a block of this name writes is recorded here
    pub watch_block: Option<String>,
    pub watched: Option<String>,
}
impl<'a> Scope for St<'a> {
    fn get(&self, name: &str) -> MVal {
        if name == MAGIC_CONTEXT {
            // global context, then render context, then assignments, then loop-local assignments
            let mut m = BTreeMap::new();
            for src in [self.global, Some(self.ctx)].into_iter().flatten() {
                for (k, v) in src {
                    m.insert(MKey::Str(k.clone()), v.clone());
                }
            }
            for (k, v) in &self.sets {
                m.insert(MKey::Str(k.clone()), v.clone());
            }
            for l in &self.loops {
                for (k, v) in &l.locals {
                    m.insert(MKey::Str(k.clone()), v.clone());
                }
            }
            return MVal::Map(m);
        }
        for l in self.loops.iter().rev() {
            if let Some(v) = l.locals.get(name) {
                return v.clone();
            }
            if l.val_name == name {
                return l.cur.1.clone();
            }
            if l.key_name.as_deref() == Some(name) {
                return l.cur.0.clone();
            }
        }
        if let Some(v) = self.sets.get(name) {
            return v.clone();
        }
        if let Some(p) = self.parent {
            let v = p.get(name);
            if !v.is_undefined() {
                return v;
            }
        }
        if let Some(v) = self.ctx.get(name) {
            return v.clone();
        }
        if let Some(g) = self.global {
            if let Some(v) = g.get(name) {
                return v.clone();
            }
        }
        MVal::Undefined
    }
    fn loop_field(&self, f: &str) -> Option<MVal> {
        let l = self.loops.last()?;
        Some(match f {
            "index" => MVal::Int(l.index0 as i128 + 1),
            "index0" => MVal::Int(l.index0 as i128),
            "first" => MVal::Bool(l.index0 == 0),
            "last" => MVal::Bool(l.index0 + 1 == l.len),
            "length" => MVal::Int(l.len as i128),
            _ => return None,
        })
    }
}

pub enum Flow {
    Normal,
    Break,
    Continue,
}

fn apply_filter(name: &str, v: MVal, kwargs: &Kwargs, sc: &dyn Scope, bud: &Budget) -> MRes {
    // evaluate the filter as the expression `__v | name(kwargs)` in a scope where __v is bound
    struct One<'a> {
        v: &'a MVal,
        p: &'a dyn Scope,
    }
    impl<'a> Scope for One<'a> {
        fn get(&self, n: &str) -> MVal {
            if n == "__v" {
                self.v.clone()
            } else {
                self.p.get(n)
            }
        }
        fn loop_field(&self, f: &str) -> Option<MVal> {
            self.p.loop_field(f)
        }
    }
    let e = E::Filter(Box::new(E::Var("__v".into())), name.to_string(), kwargs.clone());
    eval_b(&e, &One { v: &v, p: sc }, bud)
}

impl<'a> St<'a> {
    pub fn new(ctx: &'a Ctx, global: Option<&'a Ctx>, parent: Option<&'a St<'a>>, budget: &'a Budget) -> Self {
        St { loops: vec![], sets: BTreeMap::new(), parent, ctx, global, caps: vec![], blocks: vec![], chain: vec![], comp_depth: 0, budget, watch_block: None, watched: None }
    }
    fn write(&mut self, out: &mut String, s: &str) -> Result<(), MErr> {
        self.budget.spend(s.len() as u64 / 8 + 1)?;
        if let Some(c) = self.caps.last_mut() {
            c.push_str(s)
        } else {
            out.push_str(s)
        }
        Ok(())
    }
    fn write_value(&mut self, w: &World, v: &MVal, auto: bool, out: &mut String) -> Result<(), MErr> {
        if v.is_undefined() {
            return merr("print undefined");
        }
        let d = v.display();
        let d = if auto && !v.is_safe() { (w.escape)(&d) } else { d };
        self.write(out, &d)
    }
    fn store(&mut self, name: &str, v: MVal, global: bool) {
        if !global {
            if let Some(l) = self.loops.last_mut() {
                l.locals.insert(name.to_string(), v);
                return;
            }
        }
        self.sets.insert(name.to_string(), v);
    }

    /// Renders template `name` as an entry point (or as an include target when `parent` is set).
    pub fn render_template(&mut self, w: &World, name: &str, out: &mut String) -> Result<(), MErr> {
        let Some(t) = w.templates.get(name) else { return merr("unknown template") };
        // chain: most-derived first
        let mut chain = vec![name.to_string()];
        let mut cur = t;
        while let Some(p) = &cur.parent {
            if chain.contains(p) {
                return merr("extends cycle");
            }
            chain.push(p.clone());
            cur = match w.templates.get(p) {
                Some(c) => c,
                None => return merr("missing parent"),
            };
        }
        let auto = w.autoescape_override.unwrap_or(t.autoescape);
        let root_body = cur.body.clone();
        self.chain = chain;
        match self.run(w, &root_body, auto, out)? {
            _ => Ok(()),
        }
    }

    fn lineage(&self, w: &World, block: &str) -> Vec<Vec<S>> {
        let mut v = vec![];
        for t in &self.chain {
            if let Some(b) = w.templates[t].blocks().get(block) {
                v.push(b.clone());
            }
        }
        v
    }

    pub fn run(&mut self, w: &World, body: &[S], auto: bool, out: &mut String) -> Result<Flow, MErr> {
        for s in body {
            self.budget.spend(1)?;
            match s {
                S::Text(t) | S::Raw(t) => self.write(out, t)?,
                S::Comment(_) => {}
                S::Print(e) => {
                    let v = eval_b(e, self, self.budget)?;
                    self.write_value(w, &v, auto, out)?;
                }
                S::If(arms, els) => {
                    let mut done = false;
                    for (c, b) in arms {
                        if eval_b(c, self, self.budget)?.truthy() {
                            match self.run(w, b, auto, out)? {
                                Flow::Normal => {}
                                f => return Ok(f),
                            }
                            done = true;
                            break;
                        }
                    }
                    if !done {
                        if let Some(b) = els {
                            match self.run(w, b, auto, out)? {
                                Flow::Normal => {}
                                f => return Ok(f),
                            }
                        }
                    }
                }
                S::For { key, val, target, body, els } => {
                    let t = eval_b(target, self, self.budget)?;
                    let Some(items) = iter_items(&t) else { return merr("not iterable") };
                    if key.is_some() && !matches!(t, MVal::Map(_)) {
                        return merr("key/value iteration on non-map");
                    }
                    if !w.sorted_map_loops && matches!(&t, MVal::Map(m) if m.len() >= 2) {
                        return Err(MErr(UNSPEC)); // iteration order of maps is unspecified
                    }
                    let n = items.len();
                    self.loops.push(LoopFrame { locals: BTreeMap::new(), val_name: val.clone(), key_name: key.clone(), cur: (MVal::None, MVal::Undefined), index0: 0, len: n });
                    let mut res = Ok(());
                    for (i, it) in items.into_iter().enumerate() {
                        {
                            let l = self.loops.last_mut().unwrap();
                            l.locals.clear();
                            l.cur = it;
                            l.index0 = i;
                        }
                        match self.run(w, body, auto, out) {
                            Ok(Flow::Break) => break,
                            Ok(_) => {}
                            Err(e) => {
                                res = Err(e);
                                break;
                            }
                        }
                    }
                    self.loops.pop();
                    res?;
                    if n == 0 {
                        if let Some(b) = els {
                            match self.run(w, b, auto, out)? {
                                Flow::Normal => {}
                                f => return Ok(f),
                            }
                        }
                    }
                }
                S::Set { name, e, global } => {
                    let v = eval_b(e, self, self.budget)?;
                    self.store(name, v, *global);
                }
                S::SetBlock { name, filters, body, global } => {
                    self.caps.push(String::new());
                    let r = self.run(w, body, auto, out);
                    let c = self.caps.pop().unwrap();
                    r?;
                    let mut v = MVal::Str(c, true);
                    for (f, k) in filters {
                        v = apply_filter(f, v, k, self, self.budget)?;
                    }
                    self.store(name, v, *global);
                }
                S::Filter { name, kwargs, body } => {
                    self.caps.push(String::new());
                    let r = self.run(w, body, auto, out);
                    let c = self.caps.pop().unwrap();
                    r?;
                    let v = apply_filter(name, MVal::Str(c, true), kwargs, self, self.budget)?;
                    self.write_value(w, &v, auto, out)?;
                }
                S::Include(n) => {
                    let mut buf = String::new();
                    {
                        let mut child = St::new(self.ctx, None, Some(&*self), self.budget);
                        child.comp_depth = self.comp_depth;
                        child.render_template(w, n, &mut buf)?;
                    }
                    self.write(out, &buf)?;
                }
                S::Break => return Ok(Flow::Break),
                S::Continue => return Ok(Flow::Continue),
                S::Block { name, .. } => {
                    let lin = self.lineage(w, name);
                    if lin.is_empty() {
                        return merr("block without lineage");
                    }
                    self.blocks.push((name.clone(), lin.clone(), 0));
                    let watching = self.watch_block.as_deref() == Some(name.as_str());
                    let r = if watching {
                        // the block's own text, wherever it is placed
                        let saved = std::mem::take(&mut self.caps);
                        let mut buf = String::new();
                        let r = self.run(w, &lin[0], auto, &mut buf);
                        self.caps = saved;
                        self.watched = Some(buf.clone());
                        match r {
                            Ok(f) => self.write(out, &buf).map(|_| f),
                            Err(e) => Err(e),
                        }
                    } else {
                        self.run(w, &lin[0], auto, out)
                    };
                    self.blocks.pop();
                    match r? {
                        Flow::Normal => {}
                        f => return Ok(f),
                    }
                }
                S::Super => {
                    let Some(pos) = self.blocks.len().checked_sub(1) else { return merr("super outside block") };
                    let (_, lin, level) = self.blocks[pos].clone();
                    if level + 1 >= lin.len() {
                        return merr("super() in the top-level block");
                    }
                    self.blocks[pos].2 = level + 1;
                    let saved = std::mem::take(&mut self.caps);
                    let mut buf = String::new();
                    let r = self.run(w, &lin[level + 1], auto, &mut buf);
                    self.caps = saved;
                    self.blocks[pos].2 = level;
                    r?;
                    // the result of super() is already escaped: written as is
                    self.write(out, &buf)?;
                }
                S::Comp { name, args, body } => {
                    // body is rendered first, in the caller's scope and escaping mode
                    let body_val = match body {
                        Some(b) => {
                            self.caps.push(String::new());
                            let r = self.run(w, b, auto, out);
                            let c = self.caps.pop().unwrap();
                            r?;
                            Some(MVal::Str(c, true))
                        }
                        None => None,
                    };
                    // arguments, in order; later ones win
                    let mut given: Vec<(String, MVal)> = vec![];
                    for a in args {
                        match a {
                            CArg::Named(n, e) => given.push((n.clone(), eval_b(e, self, self.budget)?)),
                            CArg::Short(n) => given.push((n.clone(), self.get(n))),
                            CArg::Spread(e) => match eval_b(e, self, self.budget)? {
                                MVal::Map(m) => {
                                    for (k, v) in m {
                                        match k {
                                            MKey::Str(s) => given.push((s, v)),
                                            _ => return Err(MErr(UNSPEC)),
                                        }
                                    }
                                }
                                _ => return merr("spread of non-map in component call"),
                            },
                        }
                    }
                    let Some(def) = w.components.get(name) else { return merr("unknown component") };
                    let cctx = bind_component(def, &given, body_val)?;
                    if self.comp_depth + 1 > MAX_COMPONENT_DEPTH {
                        return merr("component recursion limit");
                    }
                    let mut buf = String::new();
                    {
                        let mut child = St::new(&cctx, None, None, self.budget);
                        child.comp_depth = self.comp_depth + 1;
                        child.run(w, &def.body, auto, &mut buf)?;
                    }
                    // the result is inserted without being escaped again
                    self.write(out, &buf)?;
                }
            }
        }
        Ok(Flow::Normal)
    }
}

/// Reference binder: declared parameters (given value, else default), rest map, type checks.
pub fn bind_component(def: &CompDef, given: &[(String, MVal)], body: Option<MVal>) -> Result<Ctx, MErr> {
    let mut last: BTreeMap<String, MVal> = BTreeMap::new();
    for (k, v) in given {
        last.insert(k.clone(), v.clone());
    }
    let mut ctx = Ctx::new();
    let mut rest = BTreeMap::new();
    for (k, v) in &last {
        if let Some(p) = def.params.iter().find(|p| &p.name == k) {
            let ty = p.ty.clone().or_else(|| p.default.as_ref().and_then(CType::infer));
            if let Some(t) = ty {
                if !t.accepts(v) {
                    return merr("component argument of the wrong type");
                }
            }
            if v.is_undefined() {
                return Err(MErr(UNSPEC));
            }
            ctx.insert(k.clone(), v.clone());
        } else if k == "body" {
            // `body` passed explicitly as an argument: not specified
            return Err(MErr(UNSPEC));
        } else if def.rest.is_some() {
            if v.is_undefined() {
                return Err(MErr(UNSPEC));
            }
            rest.insert(MKey::Str(k.clone()), v.clone());
        } else {
            return merr("unknown component argument");
        }
    }
    for p in &def.params {
        if !ctx.contains_key(&p.name) {
            match &p.default {
                Some(d) => {
                    ctx.insert(p.name.clone(), d.clone());
                }
                None => return merr("missing required component argument"),
            }
        }
    }
    if let Some(r) = &def.rest {
        ctx.insert(r.clone(), MVal::Map(rest));
    }
    if let Some(b) = body {
        ctx.insert("body".into(), b);
    }
    Ok(ctx)
}

/// Result of rendering an entry template with the model: Some(Ok(text)) / Some(Err) / None = unspecified or over budget
pub fn model_render(w: &World, entry: &str, ctx: &Ctx, global: Option<&Ctx>, watch_block: Option<&str>) -> Option<Result<(String, Option<String>), ()>> {
    let bud = Budget::new(400_000);
    let mut st = St::new(ctx, global, None, &bud);
    st.watch_block = watch_block.map(|s| s.to_string());
    let mut out = String::new();
    match st.render_template(w, entry, &mut out) {
        Ok(()) => Some(Ok((out, st.watched.clone()))),
        Err(MErr(m)) if m == UNSPEC || m == BUDGET => None,
        Err(_) => Some(Err(())),
    }
}
