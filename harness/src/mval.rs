//! Reference value domain (layer A of DESIGN.md): written from the documentation, MIGRATION.md and
//! the pinned snapshots only. Never calls into tera for semantics (only for conversion).
use std::cmp::Ordering;
use std::collections::BTreeMap;

use serde_json::{json, Value as J};

#[derive(Debug, Clone, PartialEq, Eq, PartialOrd, Ord, Hash)]
pub enum MKey {
    Bool(bool),
    Int(i128),
    /// only for values > i128::MAX
    Big(u128),
    Str(String),
}

#[derive(Debug, Clone)]
pub enum MVal {
    Undefined,
    None,
    Bool(bool),
    Int(i128),
    /// only for values > i128::MAX
    Big(u128),
    Float(f64),
    /// content, safe mark
    Str(String, bool),
    Bytes(Vec<u8>),
    Array(Vec<MVal>),
    Map(BTreeMap<MKey, MVal>),
}

/// structural identity (NOT the reference `==` of the template language, see `eq`): floats by bits
impl PartialEq for MVal {
    fn eq(&self, other: &Self) -> bool {
        canon(self) == canon(other)
    }
}

#[derive(Debug, Clone, PartialEq)]
pub struct MErr(pub &'static str);
pub type MRes = Result<MVal, MErr>;

pub fn merr<T>(m: &'static str) -> Result<T, MErr> {
    Err(MErr(m))
}

impl MVal {
    pub fn s(x: &str) -> MVal {
        MVal::Str(x.to_string(), false)
    }
    pub fn safe(x: &str) -> MVal {
        MVal::Str(x.to_string(), true)
    }
    pub fn int(x: i128) -> MVal {
        MVal::Int(x)
    }
    pub fn uint(x: u128) -> MVal {
        if x <= i128::MAX as u128 {
            MVal::Int(x as i128)
        } else {
            MVal::Big(x)
        }
    }
    pub fn map_from(entries: Vec<(MKey, MVal)>) -> MVal {
        MVal::Map(entries.into_iter().collect())
    }
    pub fn smap(entries: Vec<(&str, MVal)>) -> MVal {
        MVal::Map(entries.into_iter().map(|(k, v)| (MKey::Str(k.to_string()), v)).collect())
    }
    pub fn truthy(&self) -> bool {
        match self {
            MVal::Undefined | MVal::None => false,
            MVal::Bool(b) => *b,
            MVal::Int(i) => *i != 0,
            MVal::Big(_) => true,
            MVal::Float(f) => *f != 0.0,
            MVal::Str(s, _) => !s.is_empty(),
            MVal::Bytes(b) => !b.is_empty(),
            MVal::Array(a) => !a.is_empty(),
            MVal::Map(m) => !m.is_empty(),
        }
    }
    pub fn is_number(&self) -> bool {
        matches!(self, MVal::Int(_) | MVal::Big(_) | MVal::Float(_))
    }
    pub fn is_integer(&self) -> bool {
        matches!(self, MVal::Int(_) | MVal::Big(_))
    }
    pub fn is_undefined(&self) -> bool {
        matches!(self, MVal::Undefined)
    }
    pub fn kind_name(&self) -> &'static str {
        match self {
            MVal::Undefined => "undefined",
            MVal::None => "none",
            MVal::Bool(_) => "bool",
            MVal::Int(_) | MVal::Big(_) => "int",
            MVal::Float(_) => "float",
            MVal::Str(..) => "string",
            MVal::Bytes(_) => "bytes",
            MVal::Array(_) => "array",
            MVal::Map(_) => "map",
        }
    }
    pub fn fmt(&self, out: &mut String, nested: bool) {
        match self {
            MVal::Undefined | MVal::None => {}
            MVal::Bool(b) => out.push_str(if *b { "true" } else { "false" }),
            MVal::Int(i) => out.push_str(&i.to_string()),
            MVal::Big(i) => out.push_str(&i.to_string()),
            MVal::Float(f) => out.push_str(&format!("{:?}", f)),
            MVal::Str(s, _) => {
                if nested {
                    out.push_str(&format!("{:?}", s))
                } else {
                    out.push_str(s)
                }
            }
            MVal::Bytes(b) => out.push_str(&String::from_utf8_lossy(b)),
            MVal::Array(a) => {
                out.push('[');
                for (i, e) in a.iter().enumerate() {
                    if i > 0 {
                        out.push_str(", ");
                    }
                    e.fmt(out, true);
                }
                out.push(']');
            }
            MVal::Map(m) => {
                out.push('{');
                for (i, (k, v)) in m.iter().enumerate() {
                    if i > 0 {
                        out.push_str(", ");
                    }
                    match k {
                        MKey::Bool(b) => out.push_str(&b.to_string()),
                        MKey::Int(i) => out.push_str(&i.to_string()),
                        MKey::Big(i) => out.push_str(&i.to_string()),
                        MKey::Str(s) => out.push_str(&format!("{:?}", s)),
                    }
                    out.push_str(": ");
                    v.fmt(out, true);
                }
                out.push('}');
            }
        }
    }
    pub fn display(&self) -> String {
        let mut s = String::new();
        self.fmt(&mut s, false);
        s
    }
    pub fn as_key(&self) -> Option<MKey> {
        match self {
            MVal::Bool(b) => Some(MKey::Bool(*b)),
            MVal::Int(i) => Some(MKey::Int(*i)),
            MVal::Big(b) => Some(MKey::Big(*b)),
            MVal::Str(s, _) => Some(MKey::Str(s.clone())),
            _ => None,
        }
    }
    /// a value is written unescaped iff it is "safe": safe strings and all scalars other than strings
    pub fn is_safe(&self) -> bool {
        match self {
            MVal::Str(_, s) => *s,
            MVal::Array(_) | MVal::Map(_) | MVal::Bytes(_) => false,
            _ => true,
        }
    }
    /// total size estimate used for work budgets
    pub fn weight(&self) -> usize {
        match self {
            MVal::Str(s, _) => 1 + s.len(),
            MVal::Bytes(b) => 1 + b.len(),
            MVal::Array(a) => 1 + a.iter().map(|x| x.weight()).sum::<usize>(),
            MVal::Map(m) => 1 + m.values().map(|x| 1 + x.weight()).sum::<usize>(),
            _ => 1,
        }
    }
    pub fn contains_kind(&self, f: &dyn Fn(&MVal) -> bool) -> bool {
        if f(self) {
            return true;
        }
        match self {
            MVal::Array(a) => a.iter().any(|x| x.contains_kind(f)),
            MVal::Map(m) => m.values().any(|x| x.contains_kind(f)),
            _ => false,
        }
    }
}

pub fn key_to_val(k: &MKey) -> MVal {
    match k {
        MKey::Bool(b) => MVal::Bool(*b),
        MKey::Int(i) => MVal::Int(*i),
        MKey::Big(b) => MVal::Big(*b),
        MKey::Str(s) => MVal::s(s),
    }
}

pub fn escape_html(s: &str) -> String {
    let mut o = String::with_capacity(s.len() + 8);
    for c in s.chars() {
        match c {
            '&' => o.push_str("&amp;"),
            '<' => o.push_str("&lt;"),
            '>' => o.push_str("&gt;"),
            '"' => o.push_str("&quot;"),
            '\'' => o.push_str("&#39;"),
            c => o.push(c),
        }
    }
    o
}

/// Exact decomposition of a finite non-negative float into (mantissa, exponent): x = m * 2^e
fn decompose(ax: f64) -> (u64, i32) {
    let bits = ax.to_bits();
    let exp = ((bits >> 52) & 0x7ff) as i32;
    let frac = bits & ((1u64 << 52) - 1);
    if exp == 0 {
        (frac, -1074)
    } else {
        (frac | (1u64 << 52), exp - 1075)
    }
}

/// ordering of the float `x` relative to the integer with sign `neg` and magnitude `mag`, computed
/// exactly from the bits of the float (no casts between float and integer)
pub fn cmp_float_int(x: f64, neg: bool, mag: u128) -> Ordering {
    if x.is_nan() {
        return Ordering::Greater;
    }
    if x == f64::INFINITY {
        return Ordering::Greater;
    }
    if x == f64::NEG_INFINITY {
        return Ordering::Less;
    }
    let xneg = x.is_sign_negative() && x != 0.0;
    let ax = x.abs();
    let int_neg = neg && mag != 0;
    if ax == 0.0 && mag == 0 {
        return Ordering::Equal;
    }
    if xneg != int_neg {
        // different signs, or one is zero
        if ax == 0.0 {
            return if int_neg { Ordering::Greater } else { Ordering::Less };
        }
        if mag == 0 {
            return if xneg { Ordering::Less } else { Ordering::Greater };
        }
        return if xneg { Ordering::Less } else { Ordering::Greater };
    }
    // same sign, both non-zero: compare magnitudes ax = m * 2^e with mag
    let (m, e) = decompose(ax);
    let ord_mag = if e >= 0 {
        // ax is an integer m << e ; may exceed u128
        if e as u32 >= 128 || (m as u128).leading_zeros() < e as u32 {
            Ordering::Greater
        } else {
            ((m as u128) << e).cmp(&mag)
        }
    } else {
        let sh = (-e) as u32;
        // floor(ax) = m >> sh, frac = low bits
        let (fl, frac_nonzero) = if sh >= 64 { (0u128, m != 0) } else { ((m >> sh) as u128, (m & ((1u64 << sh) - 1)) != 0) };
        match fl.cmp(&mag) {
            Ordering::Equal => {
                if frac_nonzero {
                    Ordering::Greater
                } else {
                    Ordering::Equal
                }
            }
            o => o,
        }
    };
    if xneg {
        ord_mag.reverse()
    } else {
        ord_mag
    }
}

fn int_parts(v: &MVal) -> Option<(bool, u128)> {
    match v {
        MVal::Int(i) => Some((*i < 0, i.unsigned_abs())),
        MVal::Big(b) => Some((false, *b)),
        _ => None,
    }
}

/// exact mathematical comparison of two numbers; NaN equals itself and is greater than everything
pub fn num_cmp(a: &MVal, b: &MVal) -> Option<Ordering> {
    match (a, b) {
        (MVal::Float(x), MVal::Float(y)) => Some(match (x.is_nan(), y.is_nan()) {
            (true, true) => Ordering::Equal,
            (true, false) => Ordering::Greater,
            (false, true) => Ordering::Less,
            _ => x.partial_cmp(y).unwrap(),
        }),
        (MVal::Float(x), _) => int_parts(b).map(|(n, m)| cmp_float_int(*x, n, m)),
        (_, MVal::Float(y)) => int_parts(a).map(|(n, m)| cmp_float_int(*y, n, m).reverse()),
        _ => {
            let (an, am) = int_parts(a)?;
            let (bn, bm) = int_parts(b)?;
            let an = an && am != 0;
            let bn = bn && bm != 0;
            Some(match (an, bn) {
                (false, false) => am.cmp(&bm),
                (true, true) => bm.cmp(&am),
                (true, false) => Ordering::Less,
                (false, true) => Ordering::Greater,
            })
        }
    }
}

/// reference `==`
pub fn eq(a: &MVal, b: &MVal) -> bool {
    match (a, b) {
        (MVal::Undefined, MVal::Undefined) | (MVal::None, MVal::None) => true,
        (MVal::Bool(x), MVal::Bool(y)) => x == y,
        (MVal::Str(x, _), MVal::Str(y, _)) => x == y,
        (MVal::Bytes(x), MVal::Bytes(y)) => x == y,
        (MVal::Array(x), MVal::Array(y)) => x.len() == y.len() && x.iter().zip(y).all(|(p, q)| eq(p, q)),
        (MVal::Map(x), MVal::Map(y)) => x.len() == y.len() && x.iter().all(|(k, v)| y.get(k).map_or(false, |w| eq(v, w))),
        _ if a.is_number() && b.is_number() => num_cmp(a, b) == Some(Ordering::Equal),
        _ => false,
    }
}

/// the ordering behind `<`: None = not comparable (engine must error)
pub fn lt_cmp(a: &MVal, b: &MVal) -> Option<Ordering> {
    match (a, b) {
        (MVal::Undefined, MVal::Undefined) | (MVal::None, MVal::None) => Some(Ordering::Equal),
        (MVal::Bool(x), MVal::Bool(y)) => Some(x.cmp(y)),
        (MVal::Str(x, _), MVal::Str(y, _)) => Some(x.as_bytes().cmp(y.as_bytes())),
        (MVal::Bytes(x), MVal::Bytes(y)) => Some(x.cmp(y)),
        (MVal::Array(x), MVal::Array(y)) => {
            for (p, q) in x.iter().zip(y) {
                match lt_cmp(p, q) {
                    Some(Ordering::Equal) => {}
                    o => return o,
                }
            }
            Some(x.len().cmp(&y.len()))
        }
        _ if a.is_number() && b.is_number() => num_cmp(a, b),
        _ => None,
    }
}

// ---------------------------------------------------------------------------------------------
// conversion to the engine's values

/// Chooses integer encodings: salt 0 = natural (what `Value::from(i64)` etc. would give), otherwise a
/// deterministic pseudo-random choice among the encodings able to hold the value.
pub struct Enc {
    pub salt: u64,
    ctr: std::cell::Cell<u64>,
}
impl Enc {
    pub fn new(salt: u64) -> Self {
        Enc { salt, ctr: std::cell::Cell::new(0) }
    }
    fn next(&self) -> u64 {
        let c = self.ctr.get();
        self.ctr.set(c.wrapping_add(1));
        crate::core::splitmix(self.salt ^ c.wrapping_mul(0x9E3779B97F4A7C15))
    }
    /// 0=I64 1=U64 2=I128 3=U128
    pub fn pick(&self, v: i128) -> u8 {
        let mut ok = vec![];
        if v >= i64::MIN as i128 && v <= i64::MAX as i128 {
            ok.push(0u8);
        }
        if v >= 0 && v <= u64::MAX as i128 {
            ok.push(1);
        }
        ok.push(2);
        if v >= 0 {
            ok.push(3);
        }
        if self.salt == 0 {
            return ok[0];
        }
        ok[(self.next() % ok.len() as u64) as usize]
    }
}

pub fn int_to_tera(v: i128, enc: u8) -> tera::Value {
    match enc {
        0 => tera::Value::from(v as i64),
        1 => tera::Value::from(v as u64),
        2 => tera::Value::from(v),
        _ => tera::Value::from(v as u128),
    }
}

pub fn int_to_key(v: i128, enc: u8) -> tera::value::Key<'static> {
    use tera::value::Key;
    match enc {
        0 => Key::I64(v as i64),
        1 => Key::U64(v as u64),
        2 => Key::I128(v),
        _ => Key::U128(v as u128),
    }
}

/// identifier-like names available as `&'static str` so that borrowed keys (`Key::Str`) can be built
pub const STATIC_KEYS: &[&str] = &["a", "b", "c", "d", "e", "k", "key", "id", "name", "x", "y", "z", "u", "v", "n", "t", "k1", "k2", "k3", "k4", "k5", "k6", "k7", "k8", "val", "body", "title", "0", "1", "", "A", "é"];

pub fn key_to_tera(k: &MKey, enc: &Enc) -> tera::value::Key<'static> {
    use tera::value::Key;
    match k {
        MKey::Bool(b) => Key::Bool(*b),
        MKey::Int(i) => int_to_key(*i, enc.pick(*i)),
        MKey::Big(b) => Key::U128(*b),
        MKey::Str(s) => {
            // owned or borrowed spelling of the same key
            if enc.salt != 0 && enc.next() & 1 == 1 {
                if let Some(st) = STATIC_KEYS.iter().find(|x| **x == s.as_str()) {
                    return Key::Str(st);
                }
            }
            Key::from(s.clone())
        }
    }
}

pub fn to_tera_enc(v: &MVal, enc: &Enc) -> tera::Value {
    use tera::Value as V;
    match v {
        MVal::Undefined => V::undefined(),
        MVal::None => V::none(),
        MVal::Bool(b) => V::from(*b),
        MVal::Int(i) => int_to_tera(*i, enc.pick(*i)),
        MVal::Big(b) => V::from(*b),
        MVal::Float(f) => V::from(*f),
        MVal::Str(s, safe) => {
            if *safe {
                V::safe_string(s)
            } else {
                V::from(s.as_str())
            }
        }
        MVal::Bytes(b) => V::bytes(b.clone()),
        MVal::Array(a) => V::from(a.iter().map(|x| to_tera_enc(x, enc)).collect::<Vec<_>>()),
        MVal::Map(m) => {
            let mut out = tera::Map::new();
            // insertion order varies with the salt (the engine's maps are hash maps: order must not matter)
            if enc.salt != 0 && enc.next() & 1 == 1 {
                for (k, v) in m.iter().rev() {
                    out.insert(key_to_tera(k, enc), to_tera_enc(v, enc));
                }
            } else {
                for (k, v) in m {
                    out.insert(key_to_tera(k, enc), to_tera_enc(v, enc));
                }
            }
            V::from(out)
        }
    }
}

pub fn to_tera(v: &MVal) -> tera::Value {
    to_tera_enc(v, &Enc::new(0))
}

pub fn from_tera(v: &tera::Value) -> MVal {
    use tera::value::ValueKind as K;
    match v.kind() {
        K::Undefined => MVal::Undefined,
        K::None => MVal::None,
        K::Bool => MVal::Bool(v.as_bool().unwrap()),
        K::U64 | K::I64 | K::U128 | K::I128 => match v.as_i128() {
            Some(i) => MVal::Int(i),
            None => MVal::Big(v.as_u128().unwrap()),
        },
        K::F64 => MVal::Float(v.as_f64().unwrap()),
        K::String => MVal::Str(v.as_str().unwrap().to_string(), v.is_safe()),
        K::Bytes => MVal::Bytes(v.as_bytes().unwrap().to_vec()),
        K::Array => MVal::Array(v.as_array().unwrap().iter().map(from_tera).collect()),
        K::Map => MVal::Map(
            v.as_map()
                .unwrap()
                .iter()
                .map(|(k, v)| {
                    let kv = from_tera(&k.as_value());
                    (kv.as_key().unwrap(), from_tera(v))
                })
                .collect(),
        ),
        _ => MVal::Undefined,
    }
}

pub type Ctx = BTreeMap<String, MVal>;

pub fn ctx_to_tera_enc(c: &Ctx, enc: &Enc) -> tera::Context {
    let mut tc = tera::Context::new();
    for (k, v) in c {
        tc.insert_value(k.clone(), to_tera_enc(v, enc));
    }
    tc
}
pub fn ctx_to_tera(c: &Ctx) -> tera::Context {
    ctx_to_tera_enc(c, &Enc::new(0))
}

// ---------------------------------------------------------------------------------------------
// JSON encoding (replay files, evidence samples)

pub fn to_json(v: &MVal) -> J {
    match v {
        MVal::Undefined => json!({"t": "undefined"}),
        MVal::None => json!({"t": "none"}),
        MVal::Bool(b) => json!({"t": "bool", "v": b}),
        MVal::Int(i) => json!({"t": "int", "v": i.to_string()}),
        MVal::Big(i) => json!({"t": "int", "v": i.to_string()}),
        MVal::Float(f) => json!({"t": "float", "bits": format!("{:016x}", f.to_bits()), "v": format!("{:?}", f)}),
        MVal::Str(s, safe) => json!({"t": if *safe { "safe" } else { "str" }, "v": s}),
        MVal::Bytes(b) => json!({"t": "bytes", "v": b}),
        MVal::Array(a) => json!({"t": "array", "v": a.iter().map(to_json).collect::<Vec<_>>()}),
        MVal::Map(m) => json!({"t": "map", "v": m.iter().map(|(k, v)| json!([to_json(&key_to_val(k)), to_json(v)])).collect::<Vec<_>>()}),
    }
}

pub fn from_json(j: &J) -> Option<MVal> {
    let t = j.get("t")?.as_str()?;
    Some(match t {
        "undefined" => MVal::Undefined,
        "none" => MVal::None,
        "bool" => MVal::Bool(j.get("v")?.as_bool()?),
        "int" => {
            let s = j.get("v")?.as_str()?;
            match s.parse::<i128>() {
                Ok(i) => MVal::Int(i),
                Err(_) => MVal::Big(s.parse::<u128>().ok()?),
            }
        }
        "float" => MVal::Float(f64::from_bits(u64::from_str_radix(j.get("bits")?.as_str()?, 16).ok()?)),
        "str" => MVal::Str(j.get("v")?.as_str()?.to_string(), false),
        "safe" => MVal::Str(j.get("v")?.as_str()?.to_string(), true),
        "bytes" => MVal::Bytes(j.get("v")?.as_array()?.iter().map(|x| x.as_u64().unwrap_or(0) as u8).collect()),
        "array" => MVal::Array(j.get("v")?.as_array()?.iter().map(from_json).collect::<Option<Vec<_>>>()?),
        "map" => {
            let mut m = BTreeMap::new();
            for e in j.get("v")?.as_array()? {
                let k = from_json(e.get(0)?)?.as_key()?;
                m.insert(k, from_json(e.get(1)?)?);
            }
            MVal::Map(m)
        }
        _ => return None,
    })
}

pub fn ctx_to_json(c: &Ctx) -> J {
    J::Object(c.iter().map(|(k, v)| (k.clone(), to_json(v))).collect())
}
pub fn ctx_from_json(j: &J) -> Option<Ctx> {
    let mut c = Ctx::new();
    for (k, v) in j.as_object()? {
        c.insert(k.clone(), from_json(v)?);
    }
    Some(c)
}

/// canonical text of a value (used for hashing distinct cases); floats by bits
pub fn canon(v: &MVal) -> String {
    to_json(v).to_string()
}
