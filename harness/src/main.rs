use tvh::core::*;

fn usage() -> ! {
    eprintln!("usage: tvh <ID> [--tier quick|thorough] [--seed N] [--replay FILE]");
    std::process::exit(2)
}

fn main() {
    let args: Vec<String> = std::env::args().collect();
    if args.len() < 2 {
        usage();
    }
    let prop = args[1].clone();
    let mut tier = match std::env::var("VERIF_TIER").as_deref() {
        Ok("thorough") => Tier::Thorough,
        _ => Tier::Quick,
    };
    let mut seed: u64 = std::env::var("VERIF_SEED").ok().and_then(|s| s.trim().parse().ok()).unwrap_or(1);
    let mut replay: Option<String> = None;
    let mut i = 2;
    while i < args.len() {
        match args[i].as_str() {
            "--tier" => {
                i += 1;
                tier = match args.get(i).map(|s| s.as_str()) {
                    Some("quick") => Tier::Quick,
                    Some("thorough") => Tier::Thorough,
                    _ => usage(),
                };
            }
            "--seed" => {
                i += 1;
                seed = args.get(i).and_then(|s| s.parse().ok()).unwrap_or_else(|| usage());
            }
            "--replay" => {
                i += 1;
                replay = Some(args.get(i).cloned().unwrap_or_else(|| usage()));
            }
            "--worker" => {
                // subprocess worker protocol: tvh <ID> --worker <family> <args...>
                let rest: Vec<String> = args[i + 1..].to_vec();
                std::process::exit(tvh::props::worker(&prop, &rest));
            }
            _ => usage(),
        }
        i += 1;
    }
    install_panic_hook();
    if let Some(path) = replay {
        let txt = std::fs::read_to_string(&path).unwrap_or_else(|e| {
            eprintln!("cannot read {path}: {e}");
            std::process::exit(2)
        });
        let j: serde_json::Value = serde_json::from_str(&txt).unwrap_or_else(|e| {
            eprintln!("cannot parse {path}: {e}");
            std::process::exit(2)
        });
        let mut rep = Report::new(&prop, tier, seed);
        rep.strict = true;
        let case = j.get("case").cloned().unwrap_or(serde_json::Value::Null);
        match tvh::props::replay(&prop, &rep, &case) {
            Some(Ok(())) => {
                eprintln!("replay passes: the case no longer violates {prop}");
                std::process::exit(0)
            }
            Some(Err(f)) => {
                println!("VIOLATION property={} replay={}", prop, path);
                eprintln!("  signature={} :: {}", f.signature, f.what);
                std::process::exit(1)
            }
            None => {
                eprintln!("replay kind not supported for {prop}");
                std::process::exit(2)
            }
        }
    }
    let rep = Report::new(&prop, tier, seed);
    if !tvh::props::run(&prop, &rep) {
        eprintln!("unknown property {prop}");
        std::process::exit(2);
    }
    std::process::exit(rep.finish());
}
