use tvh::core::*;

fn usage() -> ! {
    eprintln!("usage: tvh <ID> [--tier quick|thorough] [--seed N] [--replay FILE]");
    std::process::exit(2)
}

fn main() {
    let args: Vec<String> = std::env::args().collect();
    if args.len() < 2 {
        usage();
    }
    let prop = args[1].clone();
    let mut tier = match std::env::var("VERIF_TIER").as_deref() {
        Ok("thorough") => Tier::Thorough,
        _ => Tier::Quick,
    };
    let mut seed: u64 = std::env::var("VERIF_SEED").ok().and_then(|s| s.trim().parse().ok()).unwrap_or(1);
    let mut replay: Option<String> = None;
    let mut inner = false;
    let mut fuzz_only = false;
    let mut i = 2;
    while i < args.len() {
        match args[i].as_str() {
            "--tier" => {
                i += 1;
                tier = match args.get(i).map(|s| s.as_str()) {
                    Some("quick") => Tier::Quick,
                    Some("thorough") => Tier::Thorough,
                    _ => usage(),
                };
            }
            "--seed" => {
                i += 1;
                seed = args.get(i).and_then(|s| s.parse().ok()).unwrap_or_else(|| usage());
            }
            "--replay" => {
                i += 1;
                replay = Some(args.get(i).cloned().unwrap_or_else(|| usage()));
            }
            "--replay-inner" => {
                i += 1;
                inner = true;
                replay = Some(args.get(i).cloned().unwrap_or_else(|| usage()));
            }
            "--fuzz-only" => fuzz_only = true,
            "--describe-hostile" => {
                i += 1;
                let data = std::fs::read(args.get(i).cloned().unwrap_or_else(|| usage())).unwrap_or_default();
                println!("{}", tvh::fuzz::describe_hostile(&data));
                std::process::exit(0);
            }
            "--worker" => {
                // subprocess worker protocol: tvh <ID> --worker <family> <args...>
                let rest: Vec<String> = args[i + 1..].to_vec();
                std::process::exit(tvh::props::worker(&prop, &rest));
            }
            _ => usage(),
        }
        i += 1;
    }
    install_panic_hook();
    if let (Some(path), false) = (&replay, inner) {
        // crash isolation: the case is replayed in a child process (reference stack of 8 MiB);
        // a child killed by a signal (stack overflow, abort) is a violation, a child that does not return is inconclusive
        use std::os::unix::process::ExitStatusExt;
        let exe = std::env::current_exe().expect("current_exe");
        let mut child = std::process::Command::new(exe).arg(&prop).arg("--replay-inner").arg(path).spawn().expect("spawn replay child");
        let t0 = std::time::Instant::now();
        let status = loop {
            match child.try_wait() {
                Ok(Some(st)) => break Some(st),
                Ok(None) if t0.elapsed().as_secs() > 600 => {
                    let _ = child.kill();
                    let _ = child.wait();
                    break None;
                }
                Ok(None) => std::thread::sleep(std::time::Duration::from_millis(20)),
                Err(_) => break None,
            }
        };
        match status {
            None => {
                eprintln!("replay did not finish within 600 s: inconclusive");
                std::process::exit(2)
            }
            Some(st) => match (st.code(), st.signal()) {
                (Some(c), _) => std::process::exit(c),
                (None, sig) => {
                    println!("VIOLATION property={} replay={}", prop, path);
                    eprintln!("  signature={prop}/process-died :: the replay process was killed by signal {:?} (stack overflow or abort)", sig);
                    std::process::exit(1)
                }
            },
        }
    }
    if let Some(path) = replay {
        let (tx, rx) = std::sync::mpsc::channel();
        let prop2 = prop.clone();
        std::thread::Builder::new().stack_size(8 << 20).spawn(move || tx.send(replay_inner(&prop2, &path, tier, seed)).ok()).expect("spawn");
        std::process::exit(rx.recv().unwrap_or(2));
    }
    let rep = Report::new(&prop, tier, seed);
    if fuzz_only {
        // development aid: only the coverage-guided campaigns of this property
        rep.set_rule("libFuzzer campaigns only (development aid, not a registered command)");
        for (target, props) in tvh::fuzz::TARGETS {
            if props.contains(&prop.as_str()) {
                let (runs, max_len) = tvh::fuzz::budget(target, &prop);
                tvh::fuzz::campaign(&rep, target, runs, max_len);
            }
        }
        std::process::exit(rep.finish());
    }
    if !tvh::props::run(&prop, &rep) {
        eprintln!("unknown property {prop}");
        std::process::exit(2);
    }
    std::process::exit(rep.finish());
}

fn replay_inner(prop: &str, path: &str, tier: Tier, seed: u64) -> i32 {
    {
        let prop = prop.to_string();
        let path = path.to_string();
        let txt = std::fs::read_to_string(&path).unwrap_or_else(|e| {
            eprintln!("cannot read {path}: {e}");
            std::process::exit(2)
        });
        let j: serde_json::Value = serde_json::from_str(&txt).unwrap_or_else(|e| {
            eprintln!("cannot parse {path}: {e}");
            std::process::exit(2)
        });
        let mut rep = Report::new(&prop, tier, seed);
        rep.strict = true;
        let case = j.get("case").cloned().unwrap_or(serde_json::Value::Null);
        match tvh::props::replay(&prop, &rep, &case) {
            Some(Ok(())) => {
                eprintln!("replay passes: the case no longer violates {prop}");
                0
            }
            Some(Err(f)) => {
                println!("VIOLATION property={} replay={}", prop, path);
                eprintln!("  signature={} :: {}", f.signature, f.what);
                1
            }
            None => {
                eprintln!("replay kind not supported for {prop}");
                2
            }
        }
    }
}
