pub mod core;
pub mod gen;
pub mod mval;
pub mod props;
