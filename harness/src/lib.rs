pub mod core;
pub mod mval;
pub mod props;
