pub mod core;
pub mod expr;
pub mod exprgen;
pub mod gen;
pub mod mval;
pub mod props;
pub mod stmt;
pub mod stmtgen;
