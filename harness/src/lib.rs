// generated-test harness: lints about unused helpers and stylistic patterns only add noise to the output of the checks
#![allow(unused_mut, unused_imports, unused_parens, unused_variables, dead_code, irrefutable_let_patterns)]
pub mod core;
pub mod expr;
pub mod exprgen;
pub mod fuzz;
pub mod gen;
pub mod mval;
pub mod props;
pub mod stmt;
pub mod stmtgen;
