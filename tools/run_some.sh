#!/bin/bash
# tools/run_some.sh <tier> <ID>...  -- run the listed checks on the current tree; one summary line per check
cd /verif; TIER="$1"; shift
for id in "$@"; do
  out=$(./check $id $TIER 2>&1); rc=$?
  echo "$id exit=$rc $(echo "$out" | grep -E '^\[' | tail -1)"; echo "$out" | grep -E "^VIOLATION|INCONCLUSIVE" | head -5
done
