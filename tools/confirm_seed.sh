#!/bin/bash
# [SEEDROOT=/tmp/seed2 BASE=<commit>] tools/confirm_seed.sh <Cxx> <suffix: "" or 2>  -- confirm a seeded change in a scratch worktree of BASE (default: the pinned commit):
# (1) applies and compiles, (2) existing suite passes with it, (3) demo fails with it, (4) demo passes without it.
ID="$1"; SFX="$2"; ROOT=${SEEDROOT:-/tmp/seed}; SRC=$ROOT/out_$ID; BASE=${BASE:-cf8b87f}
WT=/tmp/confirm_wt_$ID$SFX; OUT=$ROOT/confirm; mkdir -p $OUT
PATCH=$SRC/patch$SFX.diff; DEMO=$SRC/demo$SFX.rs
[ -f "$PATCH" ] && [ -f "$DEMO" ] || { echo "{\"id\":\"$ID$SFX\",\"error\":\"missing files\"}" > $OUT/$ID$SFX.json; exit 1; }
git -C /repo worktree remove --force $WT 2>/dev/null; rm -rf $WT
git -C /repo worktree add -q --detach $WT $BASE || exit 2
cd $WT
crate=tera; feats=""
if grep -q "tera_contrib\|tera-contrib" $DEMO; then crate=tera-contrib; feats="--all-features"; fi
applies=false; suite=false; demo_fails=false; demo_passes=false
if git apply $PATCH; then applies=true; fi
if $applies; then
  if cargo test --workspace --no-fail-fast --offline > $OUT/$ID$SFX.suite.log 2>&1; then suite=true; fi
  mkdir -p $crate/tests; cp $DEMO $crate/tests/seed_demo.rs
  if ! timeout 600 cargo test --offline -p $crate $feats --test seed_demo > $OUT/$ID$SFX.demo_with.log 2>&1; then demo_fails=true; fi
  rm -f $crate/tests/seed_demo.rs
  git apply -R $PATCH
  mkdir -p $crate/tests; cp $DEMO $crate/tests/seed_demo.rs
  if timeout 600 cargo test --offline -p $crate $feats --test seed_demo > $OUT/$ID$SFX.demo_without.log 2>&1; then demo_passes=true; fi
  rm -f $crate/tests/seed_demo.rs
fi
nt=$(grep -c "^test .* ok$" $OUT/$ID$SFX.suite.log 2>/dev/null)
echo "{\"id\":\"$ID$SFX\",\"applies\":$applies,\"suite_passes_with_change\":$suite,\"suite_tests_ok\":$nt,\"demo_fails_with_change\":$demo_fails,\"demo_passes_without_change\":$demo_passes,\"crate\":\"$crate\"}" > $OUT/$ID$SFX.json
cd /; git -C /repo worktree remove --force $WT; rm -rf $WT
cat $OUT/$ID$SFX.json
