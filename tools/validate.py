#!/usr/bin/env python3
"""Validates MANIFEST.json and every evidence file against the schemas in /root/.vp (needs jsonschema: run with python3-vt)."""
import json, sys, glob
import jsonschema
bad = 0
def check(path, schema):
    global bad
    try:
        jsonschema.validate(json.load(open(path)), json.load(open(schema)))
        print("ok  ", path)
    except Exception as e:
        bad += 1
        print("FAIL", path, str(e).splitlines()[0])
check("/verif/MANIFEST.json", "/root/.vp/MANIFEST.schema.json")
for f in sorted(glob.glob("/verif/evidence/*.json")):
    check(f, "/root/.vp/EVIDENCE.schema.json")
    e = json.load(open(f)); c = e.get("coverage", {})
    if not c.get("samples") or c.get("distinct_nontrivial", 0) < 2:
        bad += 1; print("FAIL", f, "samples/distinct_nontrivial")
sys.exit(1 if bad else 0)
