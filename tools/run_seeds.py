#!/usr/bin/env python3
"""tools/run_seeds.py [--tier quick|thorough] [--also C13,C15] <seed-id|property-id>...
Applies each seeded change to /repo, runs the property's check(s), undoes the change, records the outcome in meta.json."""
import json, os, subprocess, sys, re, time
args=sys.argv[1:]; tier='quick'; also=[]
while args and args[0].startswith('--'):
    if args[0]=='--tier': tier=args[1]; args=args[2:]
    elif args[0]=='--also': also=args[1].split(','); args=args[2:]
S='/verif/seeded'
built=set(c['property_id'] for c in json.load(open('/verif/MANIFEST.json'))['checks'])
seeds=[d for d in sorted(os.listdir(S)) if any(d==a or d.startswith(a+'-') for a in args)] if args else sorted(os.listdir(S))
def sh(cmd, **kw): return subprocess.run(cmd, shell=True, capture_output=True, text=True, **kw)
if sh('git -C /repo status --porcelain --untracked-files=no').stdout.strip():
    print('/repo has local changes; refusing'); sys.exit(2)
for sd in seeds:
    meta_p=f'{S}/{sd}/meta.json'; meta=json.load(open(meta_p)); prop=meta['property']
    props=[p for p in [prop]+also if p in built or os.environ.get('FORCE')]
    if not props: print(sd, 'check not built yet'); continue
    r=sh(f'git -C /repo apply {S}/{sd}/patch.diff')
    if r.returncode!=0:
        r=sh(f'git -C /repo apply --3way {S}/{sd}/patch.diff')
        if r.returncode!=0:
            print(sd,'PATCH DOES NOT APPLY on current /repo HEAD:', r.stderr.strip()[:200]); sh('git -C /repo checkout -- . ; git -C /repo reset -q'); continue
        sh('git -C /repo reset -q')
    res=meta.get('detected_by') or {}
    try:
        for p in props:
            t0=time.time()
            c=sh(f'cd /verif && timeout 3000 ./check {p} {tier}')
            sigs=re.findall(r'signature=(\S+)', c.stderr)
            res[f'{p}:{tier}']={'exit': c.returncode, 'violation': 'VIOLATION' in c.stdout, 'signatures': sorted(set(sigs))[:5], 'wall_s': round(time.time()-t0,1), 'head': sh('git -C /repo rev-parse --short HEAD').stdout.strip()}
            print(sd, p, tier, 'exit', c.returncode, sorted(set(sigs))[:3], f'{time.time()-t0:.0f}s')
    finally:
        sh('git -C /repo checkout -- .')
    meta['detected_by']=res
    json.dump(meta, open(meta_p,'w'), indent=1)
