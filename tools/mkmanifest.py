#!/usr/bin/env python3
"""Regenerates /verif/MANIFEST.json from the table below (single source of truth for the interface)."""
import json, os, sys
ROOT = os.path.dirname(os.path.dirname(os.path.abspath(__file__)))

# id -> (technique, level text, level note, design ref)
CHECKS = {
 "C01": ("directed data-flow generation with three oracles: (1) a model-independent invariant (default escaper, no safe, everything escaping: none of < > \" ' in the output), (2) a marking escape function installed with set_escape_fn whose exact bracket structure (which segments were escaped, how many times) is predicted by the reference interpreter, (3) exact text against the reference interpreter under per-template, per-call and changed-after-registration autoescape configurations",
         "Exploration: 900k generated programs per quick run (x10 thorough, up to 8 hops) of 1-3 flows: 10 source kinds (incl. hot map keys, bytes, host-made safe strings, __tera_context) x 50 hop kinds (assignments, loops over arrays/strings/maps, captures, filter sections, includes, blocks, super(), component arguments in three spellings, component bodies and results, pass-through operators, 15 string filters, container wrapping, host filters/functions registered safe and not safe) x 5 sink shapes (WritePath, WriteTop, inside captures/filter sections/containers) x 8 configurations, in a share of which the escaping suffix of every template name is re-spelled (upper and mixed case, no dot, non-ASCII) and configured with autoescape_on; every hop/source/sink kind has a coverage floor; render_component API enumerated for 16 hot strings x both flags x body/no body.",
         "Trusted base: the reference interpreter's escaping rules (escape at the sink, safe marks; Appendix A of DESIGN.md). `&` is not part of the invariant (the statement lists four characters; slicing an already escaped capture may cut an entity).",
         "DESIGN.md section 4 C01"),
 "C10": ("stateful model-based testing: generated histories of add / batch add / replace / autoescape reconfiguration over a pool of interrelated valid and invalid sources; the model is the map name -> source plus the suffix list, and after every call the instance must be observably equal to a fresh instance built in one batch from the resulting set (success) or the previous set (failure)",
         "Exploration: 360k histories of up to 12 operations (quick; x6 thorough, up to 40) over a pool with four inheritance levels (so the root of a chain can change its own parent) = ~2M add calls of which ~70% fail in one of the ten invalid ways, each followed by a full observation (names, renders with 3 contexts, render_block x 4, template variables, component definitions and API renders) against a fresh instance; 180k final sets reached through two different histories.",
         "Trusted base: Tera::new + add_raw_templates on a fresh instance as the reference. Acceptance is compared only in the stated direction (an incremental add may fail where a batch succeeds); error results are compared by kind, not text.",
         "DESIGN.md section 4 C10"),
 "C11": ("model-based differential on generated template graphs: an independent graph analysis (name resolution through fallback prefixes, dangling edges, extends cycles, include cycles) decides accepted/rejected and, for single-fault sets, the error kind; every accepted set is rendered from every template and must return; registration and rendering run in crash-isolated worker subprocesses",
         "Exploration: 900k random graphs over 2-9 templates and 200k chains/rings of 2-32 per quick run (x10 thorough), with include edges placed at top level, in blocks, component bodies, captures, dead branches and loops, missing targets, three directories of which up to two are fallback prefixes in either order (short and full spellings, exact names shadowing prefixed ones); 16 hand-written sets incl. the F9/F10 shapes; include and extends rings (also entered from a tail) and acyclic chains of 33..300 templates, densely around 128; 300k graphs reached incrementally (stubs without edges first, then every template re-added with its real source in a permuted order: after every accepted re-add the graph held must be acceptable, a refused re-add must have made it faulty).",
         "Trusted base: the 60-line graph analysis in harness/src/props/c11.rs and the process supervisor. Termination is observed for depths <= 32 in the reference environment; with several fault classes only accepted-vs-rejected is compared.",
         "DESIGN.md section 4 C11"),
 "C12": ("fault injection with a position oracle: exactly one fault of a known kind is planted at a recorded byte range in a generated multi-template scaffold; the reported template name, byte range, line and column are compared with the planted position and with each other (line/column recomputed from the byte offsets), the rendered Display text with the source line and with the chain of call sites; span validity on every positioned error of generated C02 expressions",
         "Exploration: 150k render faults (50 kinds x 8 positions: parent top level and block, child block, include depths 1-3, component-call body, component definition body; includes wrapped in filter sections, set blocks or component bodies) and 75k syntax faults (30 kinds) per quick run (x20 thorough) behind generated multi-line prefixes with CRLF, tabs, combining and 4-byte characters; all kind x position combinations once without prefix; 150k generated expressions in noisy multi-line spelling (about 60% raise a positioned error); span / template name / display validity on every registration error of 150k token-soup sources behind generated prefixes, 75k mutated repository inputs and every third prefix (thorough: every prefix) of every repository input.",
         "Trusted base: the recomputation of (line, column) from a byte offset (line = newlines before + 1, column = characters since the line start) and the planted ranges. For syntax faults the position is pinned only for unknown tags, unterminated constructs, mismatched end tags and end of input; elsewhere the span must not end before the fault. Render-time limits reported without a position (recursion depth) are outside the statement.",
         "DESIGN.md section 4 C12"),
 "C05": ("model-based differential: generated component definitions and call sites against a reference binder (declared ∪ defaults, rest map, unknown/missing/type errors, inferred types) and the reference interpreter on a fresh scope, with observation points over the caller's whole name pool inside every component body (isolation); render_component through the API against the same binder; enumeration of fallback-prefix priority configurations; crash-isolated recursion shapes on an 8 MiB stack",
         "Exploration: 240k generated sets (quick; x20 thorough) of 1-4 components over three files, called inline / with body / in loops / in captures / from an included template / from other components, with named, shorthand and spread attributes (literals of every kind, caller variables, right and wrong types, missing and extra); 1.7M render_component comparisons; 30k priority configurations; 118 recursion cases (10 call paths: direct, mutual, through one and two includes, through bodies, in loops and captures, as attribute values, entered from an included template or a parent's block; depth 0..100000 and unbounded) plus the one-limit relation: the deepest nesting that renders is scanned for every call path and must be the same.",
         "Trusted base: the reference binder bind_component and interpreter in harness/src/stmt.rs. Not specified and therefore discarded: undefined attribute values, explicit `body` attributes, spreads with non-string keys; duplicates at a shadowed priority are accepted or rejected by the engine depending on template-name order (not claimed either way).",
         "DESIGN.md section 4 C05"),
 "C04": ("model-based differential: generated inheritance chains (block trees, overrides, nested fresh blocks, super() in several positions, skipped levels) rendered from every template of the chain and block by block, against a reference resolver written from the definition; registration in a random permutation (one batch) and parents-first one by one must behave the same",
         "Exploration: 24k generated chains of 1..7 templates (quick; x8 thorough, up to 11) with up to 10 blocks placed nested, inside filter sections, captured set blocks and component-call bodies; every template of the chain is an entry point for render and render_block of every known block (~170k render_block comparisons per quick run); bodies carry unique markers, assignments and observation points.",
         "Trusted base: the reference resolver in harness/src/stmt.rs (lineage = definitions most-derived first; super() = next definition). Nested blocks introduced by overrides always get fresh names (no cyclic nesting via super(), finding F9); blocks executed more than once in a render are not judged by render_block.",
         "DESIGN.md section 4 C04"),
 "C18": ("differential between output channels (render vs render_to into a Vec, a 1-byte writer, a short-write writer with interruptions) and fault enumeration of a failing writer (every byte offset, every write call) with the prefix invariant, for all four API variants; purity (repeatability, context equality); barrier-released thread stress against a sequential baseline; compile-time Send + Sync probe crate",
         "Fault enumeration + exploration: a fixed rich instance (inheritance with super(), nested blocks, block in a capture, includes 2 deep, components, failing templates) x 28 requests x 12 contexts and 120k generated C03 programs (quick; x20 thorough); contexts carry byte strings with valid, invalid and truncated UTF-8; every failure offset for outputs <= 400 bytes (sampled beyond) and every write call; 72k concurrent renders on 12 threads per quick run while clones are created, reconfigured and dropped.",
         "Trusted base: the three test writers in harness/src/props/c18.rs. Interleavings are sampled by the OS scheduler, not enumerated (rendering takes &self, per-render state lives in State); a data race needing a precise interleaving is out of reach of this technique. Send/Sync is a compile-time fact checked by building harness/probe (also used as the deciding step when the harness itself, which shares the engine between threads, no longer builds).",
         "DESIGN.md section 4 C18"),
 "C07": ("robustness search with an end-of-render state invariant (cfg-guarded hook) and an exhaustive reference-injection enumeration: generated valid programs rendered with hostile contexts in crash-isolated workers (oracle: Ok(valid UTF-8) or Err, empty engine stacks after success, no missing-reference failure at render time); every unknown filter/test/function/component/include/parent/block spelled in every syntactic position must be rejected at add time while the same position with a known name is accepted",
         "Exploration: 440k generated renders per quick run (x20 thorough): expressions placing each of the 55 built-ins with arbitrary keyword subsets over hostile values (invalid UTF-8 bytes, 64/128-bit extremes, NaN/inf/-0, explicit undefined in containers, non-string keys, maps past the scan cutoff, 23-element mixed arrays), C02 expressions and C03 programs under the same contexts, inheritance+component sets rendered whole/by block/by component; 24k generated inheritance chains (C04 generator) with every template and every block as entry point; 48k programs with break/continue planted at arbitrary positions (what the parser accepts must leave the stacks empty); 7 very large values through every built-in; 11.7k injections (8 expression references x 33 expression positions x 19 statement positions, 5 statement references x 19, 6 whole-template cases, each unknown + known control).",
         "Trusted base: the hook check_state_empty in tera/src/verif.rs and the process supervisor. Programs whose reference evaluation exceeds a work budget are discarded before the engine runs (counted); worker timeouts are inconclusive.",
         "DESIGN.md section 4 C07"),
 "C06": ("crash-isolated robustness search: generated token soup (default and generated delimiter sets), token-level mutation/splicing and exhaustive prefix truncation of the repository's snapshot inputs, generated template names, and an enumeration of deep/flat/chain shapes each in its own process on an 8 MiB stack; the oracle is returns-Ok-or-Err (error must format), observed from a supervisor that pinpoints any worker death by re-running the shard in trace mode",
         "Exploration: 2.8M generated inputs per quick run (x20 thorough) of which >85% contain a start delimiter and reach the parser, 300k of them under arbitrary delimiter candidates (every length and shape; whatever set_delimiters accepts is then used to register soup with comments), 38k prefixes (exhaustive over 248 seed files), 30 nesting forms x 10 depths up to 100000, 19 flat shapes up to 100000 elements, 12 chain forms up to 100000 links.",
         "Trusted base: the process supervisor (signals/timeouts) in harness/src/core.rs. Reference environment: optimised build, 8 MiB stack for the deep family; timeouts are inconclusive. Known findings: 11 chain forms overflow the stack, the unknown-reference report is quadratic (probed at 3000 occurrences, larger shapes excluded).",
         "DESIGN.md section 4 C06"),
 "C08": ("model-based: sources are spelled from generated segment trees and compared with reference whitespace semantics on the segment list (exact output); metamorphic re-spelling of the same tree with a different accepted delimiter set; identity on sources without a start delimiter",
         "Exploration: 1.2M segment trees under the default delimiters, 600k under generated accepted delimiter sets (ASCII pairs and two-byte characters, ends possibly equal to each other or to a start), 600k plain texts (quick; x8 thorough); text heavy in ASCII/Unicode whitespace, lone delimiter characters, end delimiters and characters sharing a lead or continuation byte with a two-byte delimiter; an independent `-` on every side of expressions, comments, raw tags (four positions), set tags and if/for/filter/set-block pairs.",
         "Trusted base: the 60-line reference semantics in harness/src/props/c08.rs. Sources where a join accidentally forms a start delimiter or a comment/raw body contains its terminator early are excluded by construction and counted; whitespace means Unicode White_Space.",
         "DESIGN.md section 4 C08"),
 "C09": ("translation-validation style differential through cfg-guarded hooks: every generated template set is compiled with the fusion pass off and on; (1) structural lock-step walk over the recorded instruction listings (only LoadName LoadAttr* [WriteTop] groups merged, no absorbed jump target, every jump lands on the image of its target), (2) both compilations rendered with the same generated contexts must agree",
         "Exploration: 570 fixed jump-next-to-path shapes x 18 contexts enumerated completely, then 420k generated sets (quick; x12 thorough): path-heavy programs (and/or, ternaries, if/elif, loops with break/continue, comprehensions, kwargs, captures, ?. and __tera_context), the C02 expression and C03 statement generators, inheritance and component chunks; ~300k chunks structurally checked per quick run.",
         "Trusted base: the hooks in tera/src/verif.rs (additive, dead without --cfg tera_verif) and the Debug listing of Chunk. Contexts in which the outcome depends on map iteration order are filtered out with the reference interpreter (used as a filter only) and counted.",
         "DESIGN.md section 4 C09"),
 "C03": ("differential against a reference interpreter (scope chain, loop bookkeeping, capture stack, includes, autoescape at the sink) over proptest-generated multi-template programs instrumented with observation points that print every name of a shared pool (and loop.*) after every statement; order-insensitive multiset comparison for loops over multi-entry maps",
         "Exploration: 450k generated three-template programs (quick; x20 thorough, depth 4) mixing if/elif/else, for/else over arrays, multi-byte strings and maps, break/continue, set/set_global, set blocks with filter chains, filter sections and includes, with render context, global context, assignments and loop variables all drawn from the same 6 names so the four scopes shadow each other; 40k map loops compared as multisets.",
         "Trusted base: the reference interpreter (harness/src/stmt.rs, expr.rs). Included templates never extend; outcomes the documentation leaves open are discarded and counted.",
         "DESIGN.md section 4 C03"),
 "C02": ("differential against a reference evaluator written from the documentation: exhaustive operator-pair matrix with model-searched discriminating operands, hand-written table of the documented undefined/type rules, laziness cases with poison operands, and proptest-generated expressions over all forms, each rendered in three spellings (minimal parentheses per the documented precedence table, fully parenthesised, noisy: redundant parentheses + random whitespace/newlines/quote styles)",
         "Exploration: 906 operator pairings (every ordered pair of the 18 binary operators, prefix/postfix/filter/test/ternary against each) of which all distinguishable ones are checked on operands where the two groupings differ; 100-row table of documented rules; 195 laziness cases; 650k generated expressions x 3 spellings (quick; x25 thorough) over contexts binding 15 free variables to their nominal kind, another kind or nothing, with integers in random encodings.",
         "Trusted base: the reference evaluator (harness/src/expr.rs) and the built-in references of C17. Outcomes the documentation leaves open are discarded and counted (undefined as operand of ==/!=/~/in, undefined stored in literals, map iteration order, open built-in contracts). Depth bounded by 18 of the parser's 40.",
         "DESIGN.md section 4 C02"),
 "C13": ("differential against an exact reference (checked/256-bit integer arithmetic, exact float-vs-integer comparison) over an exhaustive boundary grid in every engine encoding plus proptest-generated pairs; metamorphic re-encoding",
         "Exploration: every ordered pair of a 450-value boundary grid (each integer in every encoding that can hold it, floats around every power-of-two boundary, NaN/inf/-0) under all 13 operators and negation is enumerated completely, then 1.6M (quick) / 19M (thorough) random pairs; the oracle is exact, so any wrapped, truncated, mis-compared or encoding-dependent result inside the explored space is reported.",
         "Trusted base: Rust std checked i128 arithmetic and f64 operations used by the reference; float // % ** are compared against std div_euclid/rem_euclid/powf. Not a proof for all 2^256 pairs.",
         "DESIGN.md section 4 C13"),
 "C14": ("differential against a transcription of CPython's PySlice_AdjustIndices over an exhaustive (sequence x start x stop x step) grid including 128-bit extremes, plus proptest-generated sequences/parameters and character-wise agreement laws on multi-byte strings",
         "Exploration: the slice grid (15 sequences x 30^3 parameter triples, plus every presence mask and every wrong parameter kind) and the index grid are enumerated completely; random deepening to length 40; length/reverse/truncate/iteration/index must agree by characters on generated Unicode strings.",
         "Trusted base: the transcription of the CPython algorithm (self-evident, 40 lines). u128 bounds above i128::MAX are treated as far-out-of-range integers.",
         "DESIGN.md section 4 C14"),
 "C20": ("round-trip (b64 encode/decode under all four option combinations), alphabet/shape validity predicates against an independent RFC 4648 encoder and percent-decoder, JSON re-read with serde_json and an own exact-number reader against the value model, three-valued validity oracle for decoder inputs; all over proptest-generated Unicode strings and values",
         "Exploration: every ASCII byte alone and in context, every length 0..9 (all padding cases), 150k random Unicode strings up to 4096 bytes, 150k decoder inputs, 150k JSON values (quick; x30 thorough) through the real filters registered on an engine and invoked from templates.",
         "Trusted base: own base64/percent/JSON reference readers; serde_json as a second JSON acceptor. Values with non-finite floats or keys colliding after stringification are outside the statement and discarded (counted).",
         "DESIGN.md section 4 C20"),
 "C15": ("differential against a reference equality/ordering (exact number comparison, structural containers) plus algebraic laws (reflexive, symmetric, transitive, trichotomy, congruence) stated on the engine's own answers, over proptest-generated near-equal value families; model-based map lookup (reference map keyed by mathematical value) for every lookup form",
         "Exploration: 1.4M generated pairs/triples (quick; x10 thorough) of values of every kind in random integer encodings, safe marks, key spellings and map insertion orders, each compared under the six operators in both directions; 240k arrays through unique/sort; 600k (map, key) lookups through m[k], m.k (fused and unfused), k in m, get, is containing, with maps on both sides of the attribute-scan cutoff.",
         "Trusted base: the reference order in harness/src/mval.rs. Explicit undefined values are not generated (the statement does not define their comparison); sort inputs containing top-level none are left to C16.",
         "DESIGN.md section 4 C15"),
 "C16": ("validity predicates and reference implementations over proptest-generated arrays: sort checked in both directions (a refusal must be justified by a missing attribute or an incomparable non-none pair; a result must be the exact stable permutation), unique/group_by against reference partitions, metamorphic agreement laws (reverse twice, split then join, first/last/nth vs indexing, length vs iteration, keys/values/pairs position-wise)",
         "Exploration: 360k generated inputs per family (quick; x10 thorough), arrays up to 60 elements (past the 21-element threshold of std's sort checks) with kind classes, inserted none/foreign elements, ties between differently printed equal keys, attribute paths k / k.j / k.0 on tagged elements so the permutation is fully observable.",
         "Trusted base: reference order of mval.rs. group_by with a missing attribute: error and discard both accepted (docs and MIGRATION.md disagree); keys colliding after stringification and explicit undefined elements are not generated.",
         "DESIGN.md section 4 C16"),
 "C17": ("exhaustive built-in x receiver x keyword-argument matrix plus proptest-generated cells, each compared with a reference implementation or law where the documentation fixes the contract (Appendix B of DESIGN.md) and checked for totality everywhere; type-test partition laws stated on the engine's own answers",
         "Exploration: all 36 filters + 17 tests + 2 functions x 59 receivers of every kind x every combination of a 35-value argument pool on each keyword (922k cells, enumerated completely in the quick tier), then 450k generated cells (x10 thorough) with Unicode text incl. special-casing characters, numerals in every base with prefixes/signs/fractions, boundary numbers, and well-typed arguments so the contracts (not only the error paths) are exercised.",
         "Trusted base: the reference implementations in harness/src/props/c17.rs, written from docs/doc comments/unit-test tables; Rust std for to_uppercase/to_lowercase/parse::<f64>. Cells whose contract the documentation leaves open are totality-only (label spec:total, counted).",
         "DESIGN.md section 4 C17, Appendix B"),
 "C19": ("round-trip T -> Value -> T (by value and by reference) over a family of 63 concrete Rust types with hand-written proptest strategies; differential of the converted Value and of what `{{ v }}` prints against a reference model computed from the same Rust value; metamorphic interchangeability of Context::insert / insert_value / from_serialize; refusal of unrepresentable map keys",
         "Exploration: 18k generated values per type (quick; x10 thorough) for every primitive width (with the extremes of every narrower width), f32/f64 incl. NaN/inf/-0/subnormals, char, String around the 21-byte inline threshold, Option, Vec, Box, tuples 1-4, unit/newtype/tuple structs, structs, every enum variant shape, BTreeMap/HashMap keyed by String/char/bool/every integer width, and nested combinations.",
         "Trusted base: serde derive and the hand-written reference models (Fam::model). Option directly in Option and Option<()> excluded per the statement; NaN payload bits not compared.",
         "DESIGN.md section 4 C19"),
}
NOT_BUILT_REASON = "check not built yet (work in progress in this session); see DESIGN.md section 4 for the planned generated-input check"
ALL = ["C%02d" % i for i in range(1, 21)]

def main():
    built = set(a for a in sys.argv[1:]) or set(CHECKS)
    checks = []
    for pid in ALL:
        if pid not in CHECKS or pid not in built:
            continue
        tech, text, note, ref = CHECKS[pid]
        if pid in FUZZ:
            tech += "; thorough tier: coverage-guided libFuzzer campaign(s) " + FUZZ[pid] + " with the same oracle inside the target"
            text += " Thorough additionally runs fixed-work libFuzzer campaigns on 16 processes (" + FUZZ[pid] + "; DESIGN.md 8.6)."
        checks.append({
            "property_id": pid,
            "quick_cmd": "./check %s quick" % pid,
            "thorough_cmd": "./check %s thorough" % pid,
            "evidence_file": "/verif/evidence/%s.json" % pid,
            "replay_cmd_template": "./check %s quick --replay {path}" % pid,
            "engine": "tvh",
            "level_claimed": {"category": "exploration", "text": text, "design_ref": ref},
            "level_note": note,
            "technique": tech,
        })
    na = [{"property_id": p, "reason": NOT_BUILT_REASON} for p in ALL if p not in CHECKS or p not in built]
    m = {
        "version": 1,
        "setup_cmd": "cd /verif/harness && CARGO_NET_OFFLINE=true cargo build --release && cd probe && CARGO_NET_OFFLINE=true cargo build --release",
        "hooks": {
            "guard": "tera_verif",
            "enable": "RUSTFLAGS='--cfg tera_verif' (set in /verif/harness/.cargo/config.toml; the harness depends on /repo/tera and /repo/tera-contrib by path, so every check rebuilds from the working tree)",
            "baseline_off_cmd": "cd /repo && cargo test --workspace --no-fail-fast --offline",
            "source_commits": HOOK_COMMITS,
            "add_only": True,
        },
        "engines": [
            {"name": "tvh", "path": "/verif/harness", "serves_properties": [c["property_id"] for c in checks],
             "kind_free_text": "Rust harness (proptest 1.11 runners driven from a binary with fixed seeds, deterministic enumerations, reference models); entry point /verif/check"},
        ],
        "checks": checks,
        "not_applicable": na,
        "notes": "Exit codes of every command: 0 = property held on everything explored, 1 = VIOLATION line printed, 2 = inconclusive (build failure, watchdog, coverage floor missed). VERIF_SEED seeds every generator. Known findings: /verif/known_findings.json.",
    }
    if not na:
        del m["not_applicable"]
    json.dump(m, open(os.path.join(ROOT, "MANIFEST.json"), "w"), indent=1)
    print("wrote MANIFEST.json with", len(checks), "checks,", len(na), "not_applicable")

HOOK_COMMITS = ["d2cf280"]
FUZZ = {
 "C02": "fz_expr (bytes = random stream of the expression/context strategy)",
 "C03": "fz_prog (bytes = random stream of the three-template program strategy)",
 "C06": "fz_add (bytes = template source, lexeme dictionary, repository inputs as corpus)",
 "C07": "fz_hostile (bytes = random stream of the built-in expression + hostile context strategy)",
 "C08": "fz_ws (bytes = random stream of the segment-list/delimiter strategy)",
 "C09": "fz_expr and fz_prog",
 "C12": "fz_add and fz_expr",
}
if __name__ == "__main__":
    main()
