#!/bin/bash
# tools/fuzz_sensitivity.sh  -- applies one seeded change per libFuzzer target to /repo, runs only the coverage-guided
# campaign of the property at a tenth of the thorough budget, undoes the change; prints one line per (seed, property).
cd /verif
if [ -n "$(git -C /repo status --porcelain --untracked-files=no)" ]; then echo "/repo has local changes; refusing"; exit 2; fi
(cd harness && cargo build --release --quiet) || exit 2
for pair in "C08-2:C08" "C02-3:C02" "C09-3:C09" "C03-1:C03" "C06-4:C06" "C12-3:C12" "C13-2:C07"; do
  seed=${pair%%:*}; prop=${pair##*:}
  git -C /repo apply /verif/seeded/$seed/patch.diff || { echo "$seed does not apply"; continue; }
  t0=$(date +%s)
  out=$(VERIF_FUZZ_SCALE=${VERIF_FUZZ_SCALE:-10} ./target/release/tvh $prop --tier thorough --fuzz-only 2>&1); rc=$?
  git -C /repo checkout -- .
  echo "$seed $prop fuzz-only exit=$rc $(( $(date +%s) - t0 ))s $(echo "$out" | grep -o 'signature=[^ ]*' | sort -u | head -3 | tr '\n' ' ')"
done
