#!/bin/bash
# tools/seedtest.sh <patch.diff> <ID> [tier]  -- apply a seeded change to /repo, run the check, undo it.
P="$1"; ID="$2"; TIER="${3:-quick}"
cd /repo || exit 2
if [ -n "$(git status --porcelain --untracked-files=no)" ]; then echo "/repo has local changes; refusing" >&2; exit 2; fi
git apply "$P" || { echo "patch does not apply" >&2; exit 2; }
cd /verif && timeout 1800 ./check "$ID" "$TIER" > work/seedtest.out 2> work/seedtest.err; rc=$?
git -C /repo checkout -- . 
grep -E "^VIOLATION|^KNOWN" work/seedtest.out | head -5
grep -E "signature=|INCONCLUSIVE|^\[" work/seedtest.err | head -8
echo "exit=$rc"
