#!/usr/bin/env python3
"""Prints the generated tables of DESIGN.md section 8 (inventory from evidence/*.json, seeded-change matrix from seeded/*/meta.json)."""
import json, os, glob
V='/verif'
print("| check | tier of the evidence on disk | evaluations | distinct non-trivial | families | exhaustive sub-spaces | wall (s) |")
print("|---|---|---|---|---|---|---|")
for f in sorted(glob.glob(V+'/evidence/C*.json')):
    e=json.load(open(f)); c=e['coverage']
    fam=c.get('families',[])
    print("| %s | %s | %s | %s | %d | %s | %.0f |" % (e.get('property_id',os.path.basename(f)[:3]), e.get('tier', c.get('tier','?')), f"{c['evaluations']:,}", f"{c['distinct_nontrivial']:,}", len(fam), 'yes' if any(x.get('exhaustive') for x in fam) else 'no', sum(x.get('wall_s',0) for x in fam)))
print()
print("| seeded change | what it changes | caught by (quick tier unless noted) | signature(s) |")
print("|---|---|---|---|")
for d in sorted(os.listdir(V+'/seeded')):
    m=json.load(open(f'{V}/seeded/{d}/meta.json'))
    what=m.get('summary') or ''
    if not what:
        notes=m.get('agent_notes','')
        import re
        mm=re.search(r'- What: (.*?)(?:\n- |\n\n)', notes, re.S)
        what=(mm.group(1) if mm else notes[:200]).replace('\n',' ')
    what=what.replace('|','\\|')
    if len(what)>230: what=what[:227]+'...'
    det=m.get('detected_by',{})
    by=[k for k,v in det.items() if v.get('violation')]
    sigs=sorted(set(s for k,v in det.items() if v.get('violation') for s in v.get('signatures',[])[:2]))
    miss=[k for k,v in det.items() if not v.get('violation')]
    print("| %s | %s | %s%s | %s |" % (d, what, ', '.join(by) or '—', (' (silent: '+', '.join(miss)+')') if miss else '', ', '.join('`%s`'%s for s in sigs)))
