#!/usr/bin/env python3
"""Copies confirmed seeded changes from /tmp/seed into /verif/seeded/<id>/ with meta.json."""
import json, os, shutil, sys, re
SRC=os.environ.get('SEEDROOT','/tmp/seed'); DST='/verif/seeded'; BASE=os.environ.get('BASE','cf8b87f'); OFFSET=int(os.environ.get('SEED_OFFSET','0'))
os.makedirs(DST, exist_ok=True)
for d in sorted(os.listdir(SRC)):
    if not d.startswith('out_C'): continue
    pid=d[4:]
    notes=open(f'{SRC}/{d}/NOTES.md').read() if os.path.exists(f'{SRC}/{d}/NOTES.md') else ''
    for sfx,n in (('',1),('2',2)):
        patch=f'{SRC}/{d}/patch{sfx}.diff'; demo=f'{SRC}/{d}/demo{sfx}.rs'
        conf=f'{SRC}/confirm/{pid}{sfx}.json'
        if not (os.path.exists(patch) and os.path.exists(demo) and os.path.exists(conf)): continue
        c=json.load(open(conf))
        ok=c.get('applies') and c.get('suite_passes_with_change') and c.get('demo_fails_with_change') and c.get('demo_passes_without_change')
        if not ok:
            print('NOT CONFIRMED', pid, n, c); continue
        n+=OFFSET; out=f'{DST}/{pid}-{n}'; os.makedirs(out, exist_ok=True)
        shutil.copy(patch, f'{out}/patch.diff'); shutil.copy(demo, f'{out}/demo.rs')
        files=sorted(set(re.findall(r'^\+\+\+ b/(\S+)', open(patch).read(), re.M)))
        meta_path=f'{out}/meta.json'
        old=json.load(open(meta_path)) if os.path.exists(meta_path) else {}
        meta={
          'property': pid, 'seed': f'{pid}-{n}', 'origin': f'independent sub-agent given only the property text and a scratch worktree of commit {BASE}',
          'files_changed': files,
          'demo': {'crate': c['crate'], 'how': f"copy demo.rs to {c['crate']}/tests/seed_demo.rs; cargo test --offline -p {c['crate']}" + (' --all-features' if c['crate']=='tera-contrib' else '') + ' --test seed_demo'},
          'confirmed': {'base_commit': BASE, 'applies_and_compiles': True, 'existing_suite_passes_with_change': True, 'suite_tests_ok_lines': c.get('suite_tests_ok'), 'demo_fails_with_change': True, 'demo_passes_without_change': True, 'how': 'tools/confirm_seed.sh in a scratch worktree outside /repo and /verif (removed afterwards)'},
          'agent_notes': notes,
          'detected_by': old.get('detected_by', None),
          **{k: old[k] for k in ('summary', 'note_on_repaired_tree') if k in old},
        }
        json.dump(meta, open(meta_path,'w'), indent=1)
        print('imported', pid, n)
