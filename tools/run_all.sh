#!/bin/bash
# tools/run_all.sh [tier]  -- run every registered check on the current tree; prints one summary line per check
cd /verif; TIER="${1:-quick}"
for id in $(python3 -c "import json; print(' '.join(c['property_id'] for c in json.load(open('MANIFEST.json'))['checks']))"); do
  out=$(./check $id $TIER 2>&1); rc=$?
  echo "$id exit=$rc $(echo "$out" | grep -E '^\[' | tail -1)"; echo "$out" | grep -E "^VIOLATION|^KNOWN|INCONCLUSIVE" | head -5
done
