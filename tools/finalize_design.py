#!/usr/bin/env python3
"""Replaces the generated tables at the end of DESIGN.md section 8 with fresh ones (from evidence/ and seeded/)."""
import subprocess, re
p='/verif/DESIGN.md'
s=open(p).read()
tables=subprocess.run(['python3','/verif/tools/design_tables.py'],capture_output=True,text=True).stdout
marker='\n### 8.8 Generated tables\n'
if marker in s: s=s[:s.index(marker)]
s=s.rstrip('\n')+'\n'+marker+'\nInventory of the evidence on disk when this document was last regenerated (one quick run of every check on the\nunchanged tree, `VERIF_SEED=1`), and the full list of seeded changes with the check and signature that report each.\n\n'+tables
open(p,'w').write(s)
print('tables written', len(tables.splitlines()), 'lines')
