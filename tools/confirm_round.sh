#!/bin/bash
# tools/confirm_round.sh <Cxx>...  -- confirm both changes of each property of the round in $SEEDROOT against $BASE
export SEEDROOT=${SEEDROOT:-/tmp/seed2} BASE=${BASE:-d2cf280}
for id in "$@"; do
  for sfx in "" 2; do
    [ -f $SEEDROOT/out_$id/patch$sfx.diff ] || continue
    /verif/tools/confirm_seed.sh $id "$sfx"
  done
done
